// empty sample lists: dataset_t::check(samples) evaluates min()/max() of an empty index vector
#include <iostream>
#include <nano/dataset.h>
#include <nano/datasource.h>
#include <nano/generator/elemwise_identity.h>
#include <nano/wlearner/dtree.h>
using namespace nano;
struct src_t final : datasource_t
{
    src_t() : datasource_t("demo") {}
    rdatasource_t clone() const override { return std::make_unique<src_t>(*this); }
    void do_load() override
    {
        features_t fs;
        fs.push_back(feature_t{"x0"}.scalar(feature_type::float64));
        fs.push_back(feature_t{"x1"}.scalar(feature_type::float64));
        fs.push_back(feature_t{"y"}.scalar(feature_type::float64));
        resize(40, fs, 2U);
        for (tensor_size_t s = 0; s < 40; ++s)
        {
            set(s, 0, static_cast<double>(s % 2));
            set(s, 1, static_cast<double>((s / 2) % 2));
            set(s, 2, static_cast<double>(s % 4));
        }
    }
};
int main()
{
    src_t src; src.load();
    dataset_t ds(src, 1U);
    ds.add<scalar_identity_generator_t>();
    // (a) the views themselves
    {
        indices_t none(0);
        scalar_mem_t buf;
        try { const auto v = ds.select(none, 0, buf); std::cerr << "select(empty) ok, size " << v.size() << "\n"; }
        catch (const std::exception& e) { std::cerr << "select(empty) threw: " << e.what() << "\n"; return 1; }
    }
    // (b) a fitted tree of depth 2 predicting for samples that all take the same branch at the root
    auto wl = dtree_wlearner_t{};
    wl.parameter("wlearner::dtree::max_depth") = 2;
    tensor4d_t grads(40, 1, 1, 1);
    for (tensor_size_t s = 0; s < 40; ++s) grads(s) = -static_cast<double>(s % 4);
    indices_t all(40); for (tensor_size_t s = 0; s < 40; ++s) all(s) = s;
    const auto score = wl.fit(ds, all, grads);
    std::cerr << "fit score " << score << ", nodes " << wl.nodes().size() << "\n";
    indices_t left(20); for (tensor_size_t s = 0; s < 20; ++s) left(s) = 2 * s; // x0 == 0 for all of them
    tensor4d_t out(20, 1, 1, 1); out.zero();
    wl.predict(ds, left, out.tensor());
    std::cerr << "predict on one branch ok: " << out(0) << "\n";
    std::cerr << "PASS\n";
    return 0;
}
