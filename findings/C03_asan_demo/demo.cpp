#include <nano/solver.h>
#include <nano/function.h>
#include <iostream>
using namespace nano;
struct l1_t final : function_t
{
    vector_t xs; matrix_t A;
    l1_t(tensor_size_t n) : function_t("l1", n), xs(n), A(n, n)
    {
        convex(convexity::yes); smooth(smoothness::no);
        for (tensor_size_t i = 0; i < n; ++i) { xs(i) = 0.5 * static_cast<double>(i) - 1.0; for (tensor_size_t j = 0; j < n; ++j) A(i, j) = (i == j) ? 2.0 : 0.3 * ((i + 2 * j) % 3 - 1.0); }
    }
    rfunction_t clone() const override { return std::make_unique<l1_t>(*this); }
    scalar_t do_vgrad(vector_cmap_t x, vector_map_t gx) const override
    {
        const vector_t r = A.matrix() * (x.vector() - xs.vector());
        if (gx.size() == x.size()) { vector_t s(r.size()); for (tensor_size_t i = 0; i < r.size(); ++i) s(i) = r(i) > 0 ? 1.0 : (r(i) < 0 ? -1.0 : 0.0); gx = A.matrix().transpose() * s.vector(); }
        return r.lpNorm<1>();
    }
};
int main(int argc, char** argv)
{
    const int bs = argc > 1 ? atoi(argv[1]) : 3;
    const char* id = argc > 2 ? argv[2] : "rqb";
    for (tensor_size_t n = 2; n <= 6; ++n)
    {
        l1_t f(n);
        auto solver = solver_t::all().get(id);
        solver->parameter(std::string("solver::") + id + "::bundle::max_size") = bs;
        solver->parameter("solver::epsilon") = 1e-6;
        solver->parameter("solver::max_evals") = 2000;
        vector_t x0 = vector_t::constant(n, 3.0);
        const auto st = solver->minimize(f, x0, make_null_logger());
        std::cout << "n=" << n << " fx=" << st.fx() << " status=" << static_cast<int>(st.status()) << " calls=" << st.fcalls() << "\n";
    }
    return 0;
}
