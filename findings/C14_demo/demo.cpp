// constant / near-constant columns: one-pass variance sum(x^2) - sum(x)^2/N can round below zero -> sqrt -> NaN statistics
#include <cmath>
#include <iostream>
#include <nano/dataset.h>
#include <nano/dataset/stats.h>
#include <nano/datasource.h>
#include <nano/generator/elemwise_identity.h>
using namespace nano;
struct const_source_t final : datasource_t
{
    tensor_size_t n; double value;
    const_source_t(tensor_size_t samples, double v) : datasource_t("const"), n(samples), value(v) {}
    rdatasource_t clone() const override { return std::make_unique<const_source_t>(*this); }
    void do_load() override
    {
        features_t fs;
        fs.push_back(feature_t{"x"}.scalar(feature_type::float64));
        fs.push_back(feature_t{"y"}.scalar(feature_type::float64));
        resize(n, fs, 1U);
        for (tensor_size_t s = 0; s < n; ++s) { set(s, 0, value); set(s, 1, static_cast<double>(s)); }
    }
};
int main()
{
    int failures = 0;
    const double values[] = {0.1, 0.3, 0.7, 3.3, 763.774855201995, 1.0, 2.0};
    for (const double v : values)
        for (tensor_size_t n : {3, 5, 7, 10})
        {
            const_source_t src(n, v);
            src.load();
            dataset_t ds(src, 1U);
            ds.add<scalar_identity_generator_t>();
            indices_t samples(n);
            for (tensor_size_t i = 0; i < n; ++i) samples(i) = i;
            const auto stats = scalar_stats_t::make_flatten_stats(ds, samples);
            tensor2d_t buf;
            tensor2d_t flat = ds.flatten(samples, buf);
            tensor2d_t scaled = flat;
            stats.scale(scaling_type::standard, scaled.tensor());
            tensor2d_t back = scaled;
            stats.upscale(scaling_type::standard, back.tensor());
            bool ok = std::isfinite(stats.m_stdev(0));
            for (tensor_size_t i = 0; i < n; ++i) ok = ok && std::isfinite(scaled(i, 0)) && std::fabs(back(i, 0) - flat(i, 0)) <= 1e-12 * (1 + std::fabs(flat(i, 0)));
            if (!ok)
            {
                ++failures;
                std::cout << "constant column value=" << v << " samples=" << n << ": stdev=" << stats.m_stdev(0) << " scaled[0]=" << scaled(0, 0) << " roundtrip[0]=" << back(0, 0) << "\n";
            }
        }
    std::cout << (failures ? "FAIL" : "PASS") << " (" << failures << " constant columns with non-finite statistics / scaled values)\n";
    return failures ? 1 : 0;
}
