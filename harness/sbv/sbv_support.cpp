// Environment overrides for SBV harnesses that construct thread pools (interpreted first, so they win over the library's
// definitions; in the native build the library symbols are weak): a pool without OS threads (size() == 1 => pool_t::map runs
// inline) and a fixed default seed.
#include <nano/core/parallel.h>
#include <nano/core/random.h>

using namespace nano;
using namespace nano::parallel;

pool_t::pool_t()
    : pool_t(1U)
{
}
pool_t::pool_t(const size_t)
{
    m_threads.emplace_back();
}
pool_t::~pool_t()
{
    m_threads.clear();
}
size_t pool_t::max_size()
{
    return 1U;
}
rng_t nano::make_rng(seed_t seed)
{
    return rng_t{static_cast<rng_t::result_type>(seed ? *seed : 42U)};
}
