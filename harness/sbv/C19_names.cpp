// C19 (names and kinds): "unknown parameter names and type-mismatched reads throw".
// A configurable object with registered parameters of every kind is asked for a parameter by a SYMBOLIC name (any byte string of
// length 0..L, so every prefix, extension and near-miss of a registered name, the empty name included):
//   parameter_if(name) is non-null and parameter(name) does not throw  IFF  the name EQUALS a registered name, and then the
//   returned parameter is the one registered under exactly that name; config(name, value) follows the same rule;
// registering a name twice throws; reads of a parameter through an accessor of another kind throw (integer / scalar / pair /
// enumeration / string), reads through its own kind return the stored value.
// mode=enum: an enumeration parameter is assigned a SYMBOLIC string (any bytes, length 0..L): the assignment is accepted iff the string
// equals one of the enumeration's names (then it is read back as that enumerator), otherwise it throws and the previous value stays.
// config: L=<maximal length of the symbolic name>;obj=<plain | solver: the names of a registered solver (lbfgs) instead of the own set>
#include "sbv.h"
#include <cstring>
#include <nano/configurable.h>
#include <nano/solver.h>
#include <string>

using namespace nano;

namespace
{
enum class colour
{
    red,
    green
};
} // namespace
template <>
nano::enum_map_t<colour> nano::enum_string<colour>()
{
    return {{colour::red, "red"}, {colour::green, "green"}};
}

extern "C" void sbv_harness(const char*)
{
    const long L = sbv_cfg("L", 3);

    configurable_t plain;
    plain.register_parameter(parameter_t::make_integer("ab", 0, LE, 4, LE, 10));
    plain.register_parameter(parameter_t::make_scalar("a", 0.0, LE, 0.5, LE, 1.0));
    plain.register_parameter(parameter_t::make_scalar_pair("abc", 0.0, LT, 0.25, LT, 0.75, LT, 1.0));
    plain.register_parameter(parameter_t::make_enum("b", colour::green));
    plain.register_parameter(parameter_t::make_string("ba", "text"));
    bool twice = false;
    try
    {
        plain.register_parameter(parameter_t::make_integer("a", 0, LE, 1, LE, 2));
    }
    catch (const std::exception&)
    {
        twice = true;
    }
    sbv_check(twice, "registering a parameter name twice throws");

    if (sbv_cfg_is("mode", "enum"))
    {
        char       text[16] = {0};
        const long len      = sbv_range("len", 0, L);
        for (long i = 0; i < L; ++i) text[i] = static_cast<char>(sbv_range("chr", 1, 255));
        auto& par = plain.parameter("b"); // enumeration {red, green}, currently green
        int   is_red = len == 3 ? 1 : 0, is_green = len == 5 ? 1 : 0;
        for (long i = 0; i < 3; ++i) is_red &= text[i] == "red"[i] ? 1 : 0;
        for (long i = 0; i < 5 && i < L; ++i) is_green &= text[i] == "green"[i] ? 1 : 0;
        if (L < 5) is_green = 0;
        bool threw = false;
        try
        {
            par = std::string(text, static_cast<size_t>(len));
        }
        catch (const std::exception&)
        {
            threw = true;
        }
        sbv_check(threw == !(is_red || is_green), "an enumeration parameter accepts exactly the names of its enumerators (symbolic string), every other string throws");
        const auto now = par.value<colour>();
        sbv_check(now == (is_red ? colour::red : colour::green), "an accepted enumeration value is read back as assigned, a rejected one leaves the previous value intact");
        sbv_reach("end of harness");
        return;
    }
    const auto           lbfgs = solver_t::all().get("lbfgs");
    const configurable_t& obj  = sbv_cfg_is("obj", "solver") ? static_cast<const configurable_t&>(*lbfgs) : plain;

    // the symbolic name: length in [0, L], every byte arbitrary (non-zero, to keep C-string helpers of the library well defined)
    char       name[64] = {0};
    const long len      = sbv_range("len", 0, L);
    for (long i = 0; i < L; ++i)
    {
        name[i] = static_cast<char>(sbv_range("chr", 1, 255));
    }
    // with obj=solver the first bytes are pinned to the common prefix of the solver's names (otherwise no name is ever hit)
    if (sbv_cfg_is("obj", "solver"))
    {
        static const char prefix[] = "solver::";
        for (long i = 0; i < 8 && i < L; ++i) name[i] = prefix[i];
    }
    const std::string_view view(name, static_cast<size_t>(len));

    // reference: exact equality with a registered name
    const parameter_t* expected = nullptr;
    for (const auto& p : obj.parameters())
    {
        const auto& n  = p.name();
        int         eq = n.size() == static_cast<size_t>(len) ? 1 : 0;
        if (eq)
            for (size_t i = 0; i < n.size(); ++i) eq &= n[i] == name[i] ? 1 : 0;
        if (eq) expected = &p;
    }

    const parameter_t* got_if = obj.parameter_if(view);
    sbv_check(got_if == expected, "parameter_if(name) returns the parameter registered under exactly that name, nullptr for every other name");
    bool               threw = false;
    const parameter_t* got   = nullptr;
    try
    {
        got = &obj.parameter(view);
    }
    catch (const std::exception&)
    {
        threw = true;
    }
    sbv_check(threw == (expected == nullptr), "parameter(name) throws exactly for the names that are not registered");
    sbv_check(threw || got == expected, "parameter(name) returns the parameter registered under exactly that name");

    if (!sbv_cfg_is("obj", "solver") && len == 0)
    {
        // kinds (concrete names): reads through the accessor of another kind throw
        auto throws = [](auto&& f)
        {
            try
            {
                f();
            }
            catch (const std::exception&)
            {
                return true;
            }
            return false;
        };
        sbv_check(plain.parameter("ab").value<int64_t>() == 4 && plain.parameter("a").value<scalar_t>() == 0.5, "integer / scalar parameters are read back through their own kind");
        sbv_check(plain.parameter("b").value<colour>() == colour::green && plain.parameter("ba").value<string_t>() == "text", "enumeration / string parameters are read back through their own kind");
        sbv_check(throws([&] { (void)plain.parameter("ab").value<string_t>(); }) && throws([&] { (void)plain.parameter("ab").value_pair<scalar_t>(); }), "an integer parameter read as a string or as a pair throws");
        sbv_check(throws([&] { (void)plain.parameter("abc").value<scalar_t>(); }) && throws([&] { (void)plain.parameter("ba").value<scalar_t>(); }), "a pair or string parameter read as a scalar throws");
        sbv_check(throws([&] { (void)plain.parameter("b").value<scalar_t>(); }) && throws([&] { (void)plain.parameter("a").value<colour>(); }), "an enumeration read as a scalar / a scalar read as an enumeration throws");
    }
    sbv_reach("end of harness");
}
