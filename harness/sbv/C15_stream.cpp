// C15: the tensor wire format (include/nano/tensor/stream.h, include/nano/core/stream.h, include/nano/core/hash.h)
// executed symbolically through real std::istream / std::ostream objects over in-memory stream buffers.
//  mode=roundtrip : write(tensor) ; read() returns the same shape and bit-identical contents, for all contents
//  mode=arbitrary : ANY byte buffer of the given length (this includes every truncation and every corruption of header
//                   and payload): the real reader accepts exactly the buffers an independently written reference reader
//                   of the documented layout accepts, and then returns the dims and contents the reference decodes
//  mode=prefix    : every strict prefix of a valid stream (real writer, symbolic contents) is rejected
//  mode=corrupt   : altering any bits of the LAST payload element of a valid stream is rejected
#include "sbv.h"
#include <nano/tensor/stream.h>
#include <cstring>
#include <istream>
#include <ostream>
#include <streambuf>

using namespace nano;

namespace
{
struct imembuf final : std::streambuf
{
    imembuf(char* b, char* e) { setg(b, b, e); }
};
struct omembuf final : std::streambuf
{
    omembuf(char* b, char* e) { setp(b, e); }
    std::ptrdiff_t written() const { return pptr() - pbase(); }
};

constexpr int MAXBUF = 160;

// reference hash, written from the documented formula
uint64_t ref_combine(uint64_t seed, uint64_t h)
{
    return seed ^ (h + 0x9e3779b9ULL + (seed << 6) + (seed >> 2));
}
template <class T>
uint64_t ref_bits(const unsigned char* p)
{
    // element as the reference sees it: floating point -> its bit pattern, integers -> value converted to uint64
    T v;
    std::memcpy(&v, p, sizeof(T));
    if constexpr (std::is_floating_point_v<T>)
    {
        if constexpr (sizeof(T) == 4)
        {
            uint32_t u;
            std::memcpy(&u, p, 4);
            return u;
        }
        else
        {
            uint64_t u;
            std::memcpy(&u, p, 8);
            return u;
        }
    }
    else return static_cast<uint64_t>(v);
}
uint32_t get32(const unsigned char* p)
{
    uint32_t v;
    std::memcpy(&v, p, 4);
    return v;
}
uint64_t get64(const unsigned char* p)
{
    uint64_t v;
    std::memcpy(&v, p, 8);
    return v;
}

template <class T>
int same_bits(const T& a, const unsigned char* p)
{
    unsigned char tmp[sizeof(T)];
    std::memcpy(tmp, &a, sizeof(T));
    int ok = 1;
    for (size_t i = 0; i < sizeof(T); ++i) ok &= (tmp[i] == p[i]) ? 1 : 0;
    return ok;
}

template <class T, size_t R>
void run(const char* tname)
{
    using tensor = tensor_mem_t<T, R>;
    alignas(16) static unsigned char buf[MAXBUF];
    const long d0 = sbv_cfg("d0", 2), d1 = sbv_cfg("d1", 1), d2 = sbv_cfg("d2", 1);
    const long header = 4 + 4 + 4 * static_cast<long>(R) + 4 + 8;

    auto make_dims = [&]()
    {
        typename tensor::tdims dims;
        const long dd[3] = {d0, d1, d2};
        for (size_t i = 0; i < R; ++i) dims[i] = dd[i];
        return dims;
    };

    if (sbv_cfg_is("mode", "roundtrip") || sbv_cfg_is("mode", "prefix") || sbv_cfg_is("mode", "corrupt"))
    {
        tensor src(make_dims());
        sbv_make_symbolic(src.data(), sizeof(T) * static_cast<size_t>(src.size()), "payload");
        omembuf ob(reinterpret_cast<char*>(buf), reinterpret_cast<char*>(buf) + MAXBUF);
        std::ostream os(&ob);
        nano::write(os, src);
        const long total = header + static_cast<long>(sizeof(T)) * src.size();
        sbv_check(!os.fail(), "writer: stream stays good");
        sbv_check(ob.written() == total, "writer: version + rank + int32 dims + sizeof + hash + content bytes written");
        sbv_check(get32(buf) == 0U && get32(buf + 4) == R && get32(buf + 8 + 4 * R) == sizeof(T), "writer: header fields (version, rank, sizeof scalar)");

        if (sbv_cfg_is("mode", "roundtrip"))
        {
            imembuf ib(reinterpret_cast<char*>(buf), reinterpret_cast<char*>(buf) + total);
            std::istream is(&ib);
            tensor dst;
            nano::read(is, dst);
            sbv_check(!is.fail(), "round trip: reader succeeds on the writer's output");
            int ok = dst.dims() == src.dims() ? 1 : 0;
            sbv_check(ok, "round trip: same shape");
            if (ok)
            {
                int same = 1;
                for (tensor_size_t i = 0; i < src.size(); ++i) same &= same_bits(dst.data()[i], reinterpret_cast<const unsigned char*>(src.data() + i));
                sbv_check(same, "round trip: bit-identical contents");
            }
            sbv_out("total", static_cast<uint64_t>(total));
        }
        else if (sbv_cfg_is("mode", "prefix"))
        {
            for (long p = 0; p < total; ++p)
            {
                imembuf ib(reinterpret_cast<char*>(buf), reinterpret_cast<char*>(buf) + p);
                std::istream is(&ib);
                tensor dst;
                bool   threw = false;
                try
                {
                    nano::read(is, dst);
                }
                catch (...)
                {
                    threw = true;
                }
                sbv_check(threw || is.fail(), "strict prefix of a valid stream: reader reports failure");
            }
            sbv_out("total", static_cast<uint64_t>(total));
        }
        else
        {
            // alter the last payload element by an arbitrary non-zero mask
            if (src.size() > 0)
            {
                unsigned char* last = buf + total - static_cast<long>(sizeof(T));
                unsigned char  mask[sizeof(T)];
                sbv_make_symbolic(mask, sizeof(T), "mask");
                int nz = 0;
                for (size_t i = 0; i < sizeof(T); ++i) nz |= mask[i];
                sbv_assume(nz != 0);
                for (size_t i = 0; i < sizeof(T); ++i) last[i] ^= mask[i];
                imembuf ib(reinterpret_cast<char*>(buf), reinterpret_cast<char*>(buf) + total);
                std::istream is(&ib);
                tensor dst;
                bool   threw = false;
                try
                {
                    nano::read(is, dst);
                }
                catch (...)
                {
                    threw = true;
                }
                sbv_check(threw || is.fail(), "altered last payload element: reader reports failure");
            }
        }
    }
    else if (sbv_cfg_is("mode", "arbitrary"))
    {
        const long len  = sbv_cfg("len", 36);
        const long dmin = sbv_cfg("dmin", 0), dmax = sbv_cfg("dmax", 2);
        sbv_make_symbolic(buf, static_cast<size_t>(len), "stream");
        // bound: the int32 dims found in the buffer lie in [dmin, dmax] (keeps allocation sizes small); everything else is arbitrary
        if (len >= 8 + 4 * static_cast<long>(R))
            for (size_t i = 0; i < R; ++i)
            {
                const auto d = static_cast<int32_t>(get32(buf + 8 + 4 * i));
                sbv_assume(d >= dmin && d <= dmax);
            }
        imembuf ib(reinterpret_cast<char*>(buf), reinterpret_cast<char*>(buf) + len);
        std::istream is(&ib);
        tensor dst;
        bool   threw = false;
        try
        {
            nano::read(is, dst);
        }
        catch (...)
        {
            threw = true;
        }
        const bool accepted = !threw && !is.fail();

        // reference reader of the documented layout
        bool ref_ok   = len >= header;
        long ref_size = 1;
        long rdims[3] = {1, 1, 1};
        if (ref_ok)
        {
            ref_ok = get32(buf) == 0U && get32(buf + 4) == R && get32(buf + 8 + 4 * R) == sizeof(T);
            for (size_t i = 0; i < R; ++i)
            {
                rdims[i] = static_cast<int32_t>(get32(buf + 8 + 4 * i));
                ref_size *= rdims[i];
            }
            // NB: the format stores signed int32 dims; a header with negative dims is outside the property (which speaks of
            // prefixes and payload alterations). The reference admits what the size arithmetic admits: product >= 0.
            if (ref_size < 0) ref_ok = false;
        }
        if (ref_ok) ref_ok = len >= header + static_cast<long>(sizeof(T)) * ref_size;
        if (ref_ok)
        {
            uint64_t h = 0;
            for (long i = 0; i < ref_size; ++i) h = ref_combine(h, ref_bits<T>(buf + header + static_cast<long>(sizeof(T)) * i));
            ref_ok = h == get64(buf + 12 + 4 * R);
        }
        sbv_check(accepted == ref_ok, "arbitrary buffer: the reader accepts exactly what the documented layout (header fields, length, content hash) admits");
        if (accepted && ref_ok)
        {
            int ok = 1;
            for (size_t i = 0; i < R; ++i) ok &= (dst.dims()[i] == rdims[i]) ? 1 : 0;
            sbv_check(ok, "accepted buffer: decoded shape = int32 dims of the header");
            if (ok)
            {
                int same = 1;
                for (long i = 0; i < ref_size; ++i) same &= same_bits(dst.data()[i], buf + header + static_cast<long>(sizeof(T)) * i);
                sbv_check(same, "accepted buffer: decoded contents = payload bytes");
            }
            sbv_reach("accepted buffer");
        }
        if (!accepted) sbv_reach("rejected buffer");
        sbv_out("accepted", accepted ? 1U : 0U);
    }
    (void)tname;
}
} // namespace

extern "C" void sbv_harness(const char*)
{
    const long rank = sbv_cfg("rank", 1);
#define SBV_CASE(NAME, TYPE)                                                                                                               \
    if (sbv_cfg_is("type", NAME))                                                                                                          \
    {                                                                                                                                      \
        if (rank == 1) run<TYPE, 1>(NAME);                                                                                                 \
        else if (rank == 2) run<TYPE, 2>(NAME);                                                                                            \
        else run<TYPE, 3>(NAME);                                                                                                           \
    }
    SBV_CASE("i64", int64_t)
    SBV_CASE("i32", int32_t)
    SBV_CASE("i8", int8_t)
    SBV_CASE("u8", uint8_t)
    SBV_CASE("u16", uint16_t)
    SBV_CASE("f64", double)
    SBV_CASE("f32", float)
    sbv_reach("end of harness");
}
