// C10 (decision trees of depth > 1): a FITTED tree is installed directly (nodes, leaf tables; depth 2 or 3, every internal node on
// its own feature, thresholds between the feature values) and used on a dataset whose given / missing pattern is SYMBOLIC (every
// pattern, enumerated by forking) and whose sample list is any sub-list chosen by symbolic inclusion bits (so branches and whole
// lists may be empty, samples may repeat). Reference: the documented traversal - at a node the sample follows `value < threshold`
// (lower child) or the other child, stops WITHOUT prediction when the node's feature is missing, and receives the table of the
// leaf it reaches.
//   predict() adds exactly the reference table to the given outputs (zero for samples that meet a missing feature),
//   split() reports exactly the reference leaf (or -1), predictions depend only on the sample (repeated samples get equal rows),
//   scale(s) multiplies the predictions by s, and nothing faults (an empty branch used to end in a null dereference, see DESIGN).
// config: depth=<2|3>;n=<samples>;rep=<1: the list repeats its first included sample at the end>
#include "sbv.h"
#include <cstring>
#include <nano/dataset.h>
#include <nano/datasource.h>
#include <nano/generator/elemwise_identity.h>
#include <nano/wlearner/dtree.h>

using namespace nano;

namespace
{
constexpr int NF = 7; // features 0..6: node k of the (complete, breadth-first numbered) tree tests feature k
struct tree_source_t final : datasource_t
{
    tensor_size_t                 n;
    std::vector<std::vector<int>> G; // [sample][feature]: given
    explicit tree_source_t(tensor_size_t samples)
        : datasource_t("tree")
        , n(samples)
        , G(static_cast<size_t>(samples), std::vector<int>(NF, 1))
    {
    }
    static double value(tensor_size_t s, int f) { return static_cast<double>((s * (f + 2) + f) % 4); } // 0..3
    rdatasource_t clone() const override { return std::make_unique<tree_source_t>(*this); }
    void          do_load() override
    {
        features_t fs;
        for (int f = 0; f < NF; ++f) fs.push_back(feature_t{"x" + std::to_string(f)}.scalar(feature_type::float64));
        fs.push_back(feature_t{"y"}.scalar(feature_type::float64));
        resize(n, fs, static_cast<size_t>(NF));
        for (tensor_size_t s = 0; s < n; ++s)
        {
            for (int f = 0; f < NF; ++f)
                if (G[static_cast<size_t>(s)][static_cast<size_t>(f)]) set(s, f, value(s, f));
            set(s, NF, 1.0);
        }
    }
};
} // namespace

extern "C" void sbv_harness(const char*)
{
    const long depth = sbv_cfg("depth", 2), n = sbv_cfg("n", 3);
    const int  inner = depth == 2 ? 1 : 3;          // internal (non-leaf-pair) nodes: 1 or 3 ... leaf pairs: 2 or 4
    const int  pairs = depth == 2 ? 3 : 7;          // node pairs, breadth first: pair k tests feature k at threshold k % 3 + 0.5
    const int  leaves = depth == 2 ? 4 : 8;

    tree_source_t src(n);
    // every given / missing pattern of the features the tree uses
    for (long s = 0; s < n; ++s)
        for (int f = 0; f < pairs; ++f) src.G[static_cast<size_t>(s)][static_cast<size_t>(f)] = sbv_range("given", 0, 1) != 0 ? 1 : 0;
    src.load();
    dataset_t ds(src, 1U);
    ds.add<scalar_identity_generator_t>();

    // the fitted state: pair k occupies nodes 2k, 2k+1; children of pair k (k < inner) are pairs 2k+1 (lower) and 2k+2 (upper)
    dtree_wlearner_t wl;
    wl.fit_dataset(ds); // what fit() records about the dataset it was fitted on
    wl.m_nodes.resize(static_cast<size_t>(2 * pairs));
    for (int k = 0; k < pairs; ++k)
        for (int g = 0; g < 2; ++g)
        {
            auto& nd       = wl.m_nodes[static_cast<size_t>(2 * k + g)];
            nd.m_feature   = k;
            nd.m_threshold = static_cast<double>(k % 3) + 0.5;
            if (k < inner)
            {
                nd.m_next  = static_cast<size_t>(2 * (2 * k + 1 + g));
                nd.m_table = -1;
            }
            else
            {
                nd.m_next  = 0U;
                nd.m_table = 2 * (k - inner);
            }
        }
    wl.m_tables.resize(leaves, 1, 1, 1);
    for (int l = 0; l < leaves; ++l) wl.m_tables(l) = 1.5 + static_cast<double>(l) * 2.25;
    wl.m_features.resize(pairs);
    for (int k = 0; k < pairs; ++k) wl.m_features(k) = k;

    // reference traversal
    auto ref_leaf = [&](long s)
    {
        int k = 0;
        for (;;)
        {
            if (!src.G[static_cast<size_t>(s)][static_cast<size_t>(k)]) return -1;
            const int g = tree_source_t::value(s, k) < static_cast<double>(k % 3) + 0.5 ? 0 : 1;
            if (k >= inner) return 2 * (k - inner) + g;
            k = 2 * k + 1 + g;
        }
    };

    // any sub-list of the samples (inclusion bits), optionally with a repeated sample
    std::vector<tensor_size_t> list;
    for (long s = 0; s < n; ++s)
        if (sbv_range("include", 0, 1) != 0) list.push_back(s);
    if (sbv_cfg("rep", 0) && !list.empty()) list.push_back(list.front());
    indices_t samples(static_cast<tensor_size_t>(list.size()));
    for (size_t i = 0; i < list.size(); ++i) samples(static_cast<tensor_size_t>(i)) = list[i];

    tensor4d_t out(samples.size(), 1, 1, 1);
    for (tensor_size_t i = 0; i < samples.size(); ++i) out(i) = 100.0 + static_cast<double>(i);
    wl.predict(ds, samples, out.tensor());
    int ok = 1;
    for (tensor_size_t i = 0; i < samples.size(); ++i)
    {
        const int    leaf = ref_leaf(samples(i));
        const double want = 100.0 + static_cast<double>(i) + (leaf < 0 ? 0.0 : wl.m_tables(leaf));
        ok &= (out(i) == want) ? 1 : 0;
    }
    sbv_check(ok, "tree prediction = given output + table of the leaf reached by the documented traversal (nothing when a feature on the way is missing)");

    // split() is defined on sorted unique sample lists
    if (!sbv_cfg("rep", 0))
    {
        const auto cluster = wl.split(ds, samples);
        int        okc     = cluster.samples() == n ? 1 : 0;
        if (okc)
            for (long s = 0; s < n; ++s)
            {
                bool in = false;
                for (auto v : list) in = in || v == s;
                okc &= (cluster.group(s) == (in ? ref_leaf(s) : -1)) ? 1 : 0;
            }
        sbv_check(okc, "tree split() = leaf reached by the documented traversal, -1 for samples outside the list or stopped by a missing feature");
    }

    { vector_t sc(1); sc(0) = 0.5; wl.scale(sc); }
    tensor4d_t half(samples.size(), 1, 1, 1);
    half.zero();
    wl.predict(ds, samples, half.tensor());
    int oks = 1;
    for (tensor_size_t i = 0; i < samples.size(); ++i)
    {
        const int leaf = ref_leaf(samples(i));
        oks &= (half(i) == (leaf < 0 ? 0.0 : 0.5 * (1.5 + static_cast<double>(leaf) * 2.25))) ? 1 : 0;
    }
    sbv_check(oks, "scale(s) multiplies the tree's predictions by s");
    sbv_reach("end of harness");
}
