// C15 (whole models): a gradient-boosting model and a linear model whose FITTED STATE is installed directly - bias, the list of
// fitted weak learners of several kinds (affine, stump, decision tree of depth 2, dense table) with SYMBOLIC coefficients and
// thresholds (bit patterns of finite doubles), prototypes; weights and bias of the linear model - are written through a real
// std::ostream and read through a real std::istream into ANOTHER model object that already holds a different fitted state (other
// learner kinds, other sizes). Obligations:
//   the reader succeeds; the re-read model has the written bias, the same number and kinds of weak learners / the same weights;
//   its predictions on a dataset (features with missing values) are BIT-IDENTICAL to those of the written model;
//   every strict prefix (step) of the written stream is rejected (exception or failed stream), never read silently.
// config: model=<gboost|linear>;step=<prefix step>;wl=<number of weak learners 1..4>
#include "sbv.h"
#include <cstring>
#include <istream>
#include <nano/dataset.h>
#include <nano/datasource.h>
#include <nano/gboost/model.h>
#include <nano/generator/elemwise_identity.h>
#include <nano/linear.h>
#include <nano/wlearner/affine.h>
#include <nano/wlearner/dtree.h>
#include <nano/wlearner/stump.h>
#include <nano/wlearner/table.h>
#include <ostream>
#include <streambuf>

using namespace nano;

namespace
{
struct imembuf final : std::streambuf
{
    imembuf(char* b, char* e) { setg(b, b, e); }
};
struct omembuf final : std::streambuf
{
    omembuf(char* b, char* e) { setp(b, e); }
    std::ptrdiff_t written() const { return pptr() - pbase(); }
};
constexpr int    MAXBUF = 65536;
alignas(16) char buf[MAXBUF];

double sym_double(const char* name, double lo, double hi)
{
    double v;
    sbv_make_symbolic(&v, sizeof(v), name);
    sbv_assume(v >= lo && v <= hi);
    return v;
}
uint64_t bits(double d)
{
    uint64_t u;
    std::memcpy(&u, &d, 8);
    return u;
}
struct mix_source_t final : datasource_t
{
    tensor_size_t n;
    explicit mix_source_t(tensor_size_t samples)
        : datasource_t("mix")
        , n(samples)
    {
    }
    rdatasource_t clone() const override { return std::make_unique<mix_source_t>(*this); }
    void          do_load() override
    {
        features_t fs;
        fs.push_back(feature_t{"x0"}.scalar(feature_type::float64));
        fs.push_back(feature_t{"x1"}.scalar(feature_type::float64));
        fs.push_back(feature_t{"x2"}.scalar(feature_type::float64));
        fs.push_back(feature_t{"c"}.sclass(3));
        fs.push_back(feature_t{"y"}.scalar(feature_type::float64));
        resize(n, fs, 4U);
        for (tensor_size_t s = 0; s < n; ++s)
        {
            set(s, 0, static_cast<double>(s % 4));
            if (s % 5 != 4) set(s, 1, static_cast<double>((2 * s + 1) % 4));
            set(s, 2, static_cast<double>((3 * s) % 4));
            if (s % 3 != 2) set(s, 3, static_cast<int32_t>(s % 3));
            set(s, 4, 1.0);
        }
    }
};
template <class tmodel>
long write_model(const tmodel& m)
{
    omembuf      ob(buf, buf + MAXBUF);
    std::ostream os(&ob);
    bool         thrown = false;
    try
    {
        m.write(os);
    }
    catch (...)
    {
        thrown = true;
    }
    sbv_check(!thrown && !os.fail(), "writer: succeeds");
    return static_cast<long>(ob.written());
}
template <class tmodel>
bool read_fails(tmodel& m, long len)
{
    imembuf      ib(buf, buf + len);
    std::istream is(&ib);
    try
    {
        m.read(is);
    }
    catch (...)
    {
        return true;
    }
    return is.fail();
}
tensor4d_t tables(tensor_size_t rows, const char* name)
{
    tensor4d_t t(rows, 1, 1, 1);
    for (tensor_size_t i = 0; i < t.size(); ++i) t(i) = sym_double(name, -1e6, 1e6);
    return t;
}
} // namespace

extern "C" void sbv_harness(const char*)
{
    const tensor_size_t n = 6;
    mix_source_t        src(n);
    src.load();
    dataset_t ds(src, 1U);
    ds.add<scalar_identity_generator_t>();
    ds.add<sclass_identity_generator_t>();
    indices_t samples(n);
    for (tensor_size_t i = 0; i < n; ++i) samples(i) = i;
    const long step = sbv_cfg("step", 16);

    if (sbv_cfg_is("model", "linear"))
    {
        auto a = linear_t::all().get("ordinary"), b = linear_t::all().get("ordinary");
        sbv_check(a && b, "linear model id is registered");
        if (!a || !b) return;
        a->fit_dataset(ds);
        a->m_weights.resize(1, ds.columns());
        for (tensor_size_t i = 0; i < a->m_weights.size(); ++i) a->m_weights(i) = sym_double("w", -1e3, 1e3);
        a->m_bias.resize(1);
        a->m_bias(0) = sym_double("b", -1e3, 1e3);
        // the destination holds another fitted state
        b->fit_dataset(ds);
        b->m_weights.resize(2, 3);
        b->m_weights.full(0.25);
        b->m_bias.resize(2);
        b->m_bias.full(-1.0);
        const long total = write_model(*a);
        sbv_check(!read_fails(*b, total), "round trip: reader succeeds on the writer's output");
        int same = (b->m_weights.dims() == a->m_weights.dims() && b->m_bias.size() == 1) ? 1 : 0;
        for (tensor_size_t i = 0; same && i < a->m_weights.size(); ++i) same &= bits(a->m_weights(i)) == bits(b->m_weights(i)) ? 1 : 0;
        same = same && bits(a->m_bias(0)) == bits(b->m_bias(0)) ? 1 : 0;
        sbv_check(same, "round trip: weights and bias of the linear model are read back bit-identically");
        if (same)
        {
            const auto pa = a->predict(ds, samples), pb = b->predict(ds, samples);
            int        eq = pa.size() == pb.size() ? 1 : 0;
            for (tensor_size_t i = 0; eq && i < pa.size(); ++i) eq &= bits(pa(i)) == bits(pb(i)) ? 1 : 0;
            sbv_check(eq, "round trip: the re-read linear model gives bit-identical predictions");
        }
        for (long p = 0; p < total; p += step)
        {
            auto q = linear_t::all().get("ordinary");
            sbv_check(read_fails(*q, p), "strict prefix of a valid model stream: reader reports failure");
        }
        auto q = linear_t::all().get("ordinary");
        sbv_check(read_fails(*q, total - 1), "stream without its last byte: reader reports failure");
        sbv_reach("end of harness");
        return;
    }

    const long    nwl = sbv_cfg("wl", 4);
    gboost_model_t a, b;
    a.fit_dataset(ds);
    a.m_bias.resize(1);
    a.m_bias(0) = sym_double("bias", -1e3, 1e3);
    {
        auto wl = std::make_unique<affine_wlearner_t>();
        wl->fit_dataset(ds);
        wl->m_feature = 0;
        wl->m_tables  = tables(2, "affine");
        a.m_wlearners.push_back(std::move(wl));
    }
    if (nwl > 1)
    {
        auto wl = std::make_unique<stump_wlearner_t>();
        wl->fit_dataset(ds);
        wl->m_feature   = 1;
        wl->m_threshold = sym_double("threshold", 0.25, 2.75);
        wl->m_tables    = tables(2, "stump");
        a.m_wlearners.push_back(std::move(wl));
    }
    if (nwl > 2)
    {
        auto wl = std::make_unique<dtree_wlearner_t>();
        wl->fit_dataset(ds);
        wl->m_nodes.resize(6);
        for (int k = 0; k < 3; ++k)
            for (int g = 0; g < 2; ++g)
            {
                auto& nd       = wl->m_nodes[static_cast<size_t>(2 * k + g)];
                nd.m_feature   = k;
                nd.m_threshold = k == 0 ? sym_double("tree threshold", 0.25, 2.75) : static_cast<double>(k) + 0.5;
                nd.m_next      = k == 0 ? static_cast<size_t>(2 * (1 + g)) : 0U;
                nd.m_table     = k == 0 ? -1 : 2 * (k - 1);
            }
        wl->m_tables = tables(4, "tree");
        wl->m_features.resize(3);
        for (tensor_size_t k = 0; k < 3; ++k) wl->m_features(k) = k;
        a.m_wlearners.push_back(std::move(wl));
    }
    if (nwl > 3)
    {
        auto wl = std::make_unique<dense_table_wlearner_t>();
        wl->fit_dataset(ds);
        wl->m_feature = 3;
        wl->m_tables  = tables(3, "table");
        {
            tensor_mem_t<int32_t, 1> labels(3);
            for (int32_t l = 0; l < 3; ++l) labels(l) = l;
            wl->m_hashes = make_hashes(sclass_cmap_t{labels});
        }
        wl->m_hash2tables = make_indices(0, 1, 2);
        a.m_wlearners.push_back(std::move(wl));
    }
    a.m_prototypes.push_back(std::make_unique<affine_wlearner_t>());
    a.m_prototypes.push_back(std::make_unique<dtree_wlearner_t>());

    // the destination holds another fitted state: other kinds, other sizes
    b.fit_dataset(ds);
    b.m_bias.resize(2);
    b.m_bias.full(7.0);
    {
        auto wl = std::make_unique<stump_wlearner_t>();
        wl->fit_dataset(ds);
        wl->m_feature   = 2;
        wl->m_threshold = 1.5;
        wl->m_tables.resize(2, 1, 1, 1);
        wl->m_tables.full(3.0);
        b.m_wlearners.push_back(std::move(wl));
    }
    b.m_prototypes.push_back(std::make_unique<stump_wlearner_t>());

    const long total = write_model(a);
    sbv_out("total", static_cast<uint64_t>(total));
    sbv_check(!read_fails(b, total), "round trip: reader succeeds on the writer's output");
    int same = (b.m_bias.size() == 1 && b.m_wlearners.size() == a.m_wlearners.size() && b.m_prototypes.size() == a.m_prototypes.size()) ? 1 : 0;
    if (same) same &= bits(b.m_bias(0)) == bits(a.m_bias(0)) ? 1 : 0;
    for (size_t i = 0; same && i < a.m_wlearners.size(); ++i) same &= (b.m_wlearners[i]->type_id() == a.m_wlearners[i]->type_id()) ? 1 : 0;
    sbv_check(same, "round trip: bias, number and kinds of the weak learners and prototypes are those written");
    if (same)
    {
        const auto pa = a.predict(ds, samples), pb = b.predict(ds, samples);
        int        eq = pa.size() == pb.size() ? 1 : 0;
        for (tensor_size_t i = 0; eq && i < pa.size(); ++i) eq &= bits(pa(i)) == bits(pb(i)) ? 1 : 0;
        sbv_check(eq, "round trip: the re-read gradient-boosting model gives bit-identical predictions (bias + sum of its weak learners)");
    }
    for (long p = 0; p < total; p += step)
    {
        gboost_model_t q;
        sbv_check(read_fails(q, p), "strict prefix of a valid model stream: reader reports failure");
    }
    gboost_model_t q;
    sbv_check(read_fails(q, total - 1), "stream without its last byte: reader reports failure");
    sbv_reach("end of harness");
}
