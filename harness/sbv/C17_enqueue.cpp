// C17 (enqueue path of pool_t::map, sequentialised): a pool that reports K > 1 workers makes map() take its real enqueue path
// (packaged tasks pushed under the queue lock, futures collected in a section, notify, completion barrier). No OS thread is
// started: the completion barrier section_t::block() - replaced here - first drains the queue on the calling thread and hands
// every task an ARBITRARY worker id in [0, K) (symbolic), then waits on the futures exactly like the original. With symbolic
// `elements` and `chunksize` the solver decides, for every value within the bounds: the operator is invoked exactly once per
// chunk / index, the chunks tile [0, elements) without gap or overlap, every worker id is below the pool size, and map() returns
// only after every task ran. Interleavings of concurrently running tasks are NOT covered (tasks run one after the other).
// config: mode=<chunks|each>;K=<workers>;maxchunks=<bound on the number of tasks>
#include "sbv.h"
#include <nano/core/parallel.h>
#include <vector>

using namespace nano;
using namespace nano::parallel;

namespace
{
struct pool_entry_t
{
    queue_t* queue;
    size_t   workers;
};
std::vector<pool_entry_t> g_pools;
size_t                    g_workers = 2;
long                      g_ran     = 0;
} // namespace

// pool without OS threads (the library's definitions are weak in the harness build)
pool_t::pool_t()
    : pool_t(max_size())
{
}
pool_t::pool_t(const size_t threads)
{
    const auto n = threads < 1 ? size_t(1) : (threads > g_workers ? g_workers : threads);
    for (size_t i = 0; i < n; ++i) m_threads.emplace_back();
    g_pools.push_back({&m_queue, n});
}
pool_t::~pool_t()
{
    g_pools.clear();
    m_threads.clear();
}
size_t pool_t::max_size()
{
    return g_workers;
}
void section_t::block(const bool raise)
{
    for (auto& entry : g_pools)
    {
        while (!entry.queue->m_tasks.empty())
        {
            auto task = std::move(entry.queue->m_tasks.front());
            entry.queue->m_tasks.pop_front();
            const auto tnum = static_cast<size_t>(sbv_range("worker", 0, static_cast<int64_t>(entry.workers) - 1));
            ++g_ran;
            task(tnum);
        }
    }
    for (const auto& future : *this)
    {
        if (future.valid())
        {
            raise ? future.get() : future.wait();
        }
    }
}

extern "C" void sbv_harness(const char*)
{
    g_workers            = static_cast<size_t>(sbv_cfg("K", 3));
    const long maxchunks = sbv_cfg("maxchunks", 4);
    pool_t     pool(g_workers);
    sbv_check(pool.size() == g_workers, "pool reports K workers");

    constexpr int CAP = 96;
    long          begins[CAP], ends[CAP], tnums[CAP];
    long          calls = 0;

    if (sbv_cfg_is("mode", "chunks"))
    {
        const auto elements = sbv_range("elements", 0, 1000000);
        const auto chunk    = sbv_range("chunk", 1, 1000000);
        // bound: at most `maxchunks` tasks (stated without a division)
        sbv_assume(chunk * maxchunks >= elements);
        pool.map(elements, chunk,
                 [&](const int64_t begin, const int64_t end, const size_t tnum)
                 {
                     if (calls < CAP)
                     {
                         begins[calls] = begin;
                         ends[calls]   = end;
                         tnums[calls]  = static_cast<long>(tnum);
                     }
                     ++calls;
                 });
        sbv_check(calls <= maxchunks, "number of calls within the stated bound");
        // exactly once per chunk, tiling in order (FIFO queue, tasks run in submission order by the sequentialised barrier)
        long expect = 0;
        int  ok = 1, tn = 1;
        for (long i = 0; i < calls && i < CAP; ++i)
        {
            ok &= (begins[i] == expect) ? 1 : 0;
            ok &= (ends[i] > begins[i] && ends[i] - begins[i] <= chunk && ends[i] <= elements) ? 1 : 0;
            tn &= (tnums[i] >= 0 && tnums[i] < static_cast<long>(g_workers)) ? 1 : 0;
            expect = ends[i];
        }
        sbv_check(ok, "chunks tile [0, elements) without gap or overlap, each non-empty and at most chunksize long");
        sbv_check(expect == elements, "the last chunk ends at `elements` (every element processed exactly once)");
        sbv_check(tn, "every task receives a worker id below the pool size");
        sbv_check(calls * chunk >= elements && (calls == 0 ? elements == 0 : (calls - 1) * chunk < elements), "operator invoked once per chunk: ceil(elements/chunksize) calls");
    }
    else
    {
        const auto elements = sbv_range("elements", 0, maxchunks);
        pool.map(elements,
                 [&](const int64_t index, const size_t tnum)
                 {
                     if (calls < CAP)
                     {
                         begins[calls] = index;
                         tnums[calls]  = static_cast<long>(tnum);
                     }
                     ++calls;
                 });
        sbv_check(calls == elements, "operator invoked exactly once per index");
        int ok = 1, tn = 1;
        for (long i = 0; i < calls && i < CAP; ++i)
        {
            ok &= (begins[i] == i) ? 1 : 0;
            tn &= (tnums[i] >= 0 && tnums[i] < static_cast<long>(g_workers)) ? 1 : 0;
        }
        sbv_check(ok, "every index is passed exactly once");
        sbv_check(tn, "every task receives a worker id below the pool size");
    }
    if (g_ran > 0) sbv_reach("enqueue path taken (tasks drained by the completion barrier)");
    else sbv_reach("inline path taken");
    sbv_check(g_ran == 0 || g_ran == calls, "every enqueued task ran before map() returned");
    sbv_out("calls", static_cast<uint64_t>(calls));
    sbv_reach("end of harness");
}
