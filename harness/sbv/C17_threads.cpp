// C17 (interleavings): the REAL pool - constructor starting K std::threads, worker loops (predicate wait, stop handling, pop under
// lock, run outside the lock), enqueue + notify, map() with its completion barrier over futures, destructor (stop under lock,
// notify_all, join) - executed by the SBV interpreter's cooperative thread model: every std::thread is an interpreter context,
// context switches happen at the visible operations (thread start / exit / join, mutex lock, condition wait / notify, future
// wait, sbv_yield inside the tasks) and WHICH runnable thread goes next is a symbolic choice explored by forking, within the
// preemption bound. Obligations, on every explored schedule:
//   - the operator is invoked exactly once per index / chunk, chunks tile [0, elements)
//   - worker ids are below the pool size and never used by two tasks at the same time
//   - map() returns only after all its tasks finished; with raise = true a task's exception is re-thrown in the caller
//   - no deadlock (map, concurrent submitters, destructor of an idle / busy pool / pool with queued tasks)
// config: mode=<each|chunks|throw|two|queued>;K=<workers>;n=<elements>;chunk=<chunk size>;symn=<1: elements in [0,n] and chunk size in [1,chunk] symbolic>
#include "sbv.h"
#include <atomic>
#include <nano/core/parallel.h>
#include <stdexcept>
#include <thread>

using namespace nano;
using namespace nano::parallel;

namespace
{
size_t g_workers = 2;
}
// pool size independent of the machine (the library's definition is weak in the harness build)
size_t pool_t::max_size()
{
    return g_workers;
}

namespace
{
constexpr int CAP = 8;
struct record_t
{
    std::atomic<int> count[CAP];  // invocations per index
    std::atomic<int> busy[CAP];   // worker id currently inside a task
    std::atomic<int> overlap{0};  // two tasks inside with the same worker id
    std::atomic<int> badtnum{0};  // worker id >= pool size
    std::atomic<int> finished{0}; // tasks that ran to completion
    record_t()
    {
        for (auto& c : count) c = 0;
        for (auto& b : busy) b = 0;
    }
    void enter(size_t tnum)
    {
        if (tnum >= g_workers)
        {
            badtnum = 1;
            return;
        }
        if (busy[tnum].exchange(1) != 0) overlap = 1;
        sbv_yield(); // other threads may run while this task is inside
        busy[tnum] = 0;
    }
};
} // namespace

extern "C" void sbv_harness(const char*)
{
    g_workers      = static_cast<size_t>(sbv_cfg("K", 2));
    // symn=1: the number of elements (and the chunk size) are symbolic within [0, n] / [1, chunk]: the solver decides which of the
    // inline / enqueue paths and how many tasks a schedule is explored with
    const long nmax = sbv_cfg("n", 2);
    const long n    = sbv_cfg("symn", 0) ? sbv_range("elements", 0, nmax) : nmax;
    const long chk  = sbv_cfg("symn", 0) ? sbv_range("chunksize", 1, sbv_cfg("chunk", 1)) : sbv_cfg("chunk", 1);
    record_t   rec;

    if (sbv_cfg_is("mode", "each") || sbv_cfg_is("mode", "chunks") || sbv_cfg_is("mode", "throw"))
    {
        bool rethrown = false;
        {
            pool_t pool(g_workers);
            sbv_check(pool.size() == g_workers, "pool has K workers");
            if (sbv_cfg_is("mode", "each"))
            {
                pool.map(n,
                         [&](const long index, const size_t tnum)
                         {
                             rec.enter(tnum);
                             rec.count[index]++;
                             rec.finished++;
                         });
                sbv_check(rec.finished == n, "map() returns only after all its tasks finished");
            }
            else if (sbv_cfg_is("mode", "chunks"))
            {
                pool.map(n, chk,
                         [&](const long begin, const long end, const size_t tnum)
                         {
                             rec.enter(tnum);
                             for (long i = begin; i < end; ++i) rec.count[i]++;
                             rec.finished++;
                         });
                sbv_check(rec.finished == (n + chk - 1) / chk, "map() returns only after all its tasks finished");
            }
            else
            {
                // ONE task (any of them: symbolic choice) throws: with raise = true the exception reaches the caller whichever task
                // it was and whenever it finished, and the barrier still waits for every task
                const long thrower = n > 0 ? sbv_range("thrower", 0, n - 1) : 0;
                try
                {
                    pool.map(
                        n,
                        [&](const long index, const size_t tnum)
                        {
                            rec.enter(tnum);
                            rec.count[index]++;
                            rec.finished++;
                            if (index == thrower) throw std::runtime_error("task failed");
                        },
                        true);
                }
                catch (const std::runtime_error&)
                {
                    rethrown = true;
                }
                sbv_check(rethrown == (n > 0), "a task's exception is re-thrown in the caller when asked to");
                sbv_check(rec.finished == n, "map() returns only after all its tasks finished");
            }
            int once = 1;
            for (long i = 0; i < nmax; ++i) once &= rec.count[i] == (i < n ? 1 : 0) ? 1 : 0;
            sbv_check(once, "the operator is invoked exactly once for every index");
            sbv_check(rec.overlap == 0, "a worker id is never used by two tasks at the same time");
            sbv_check(rec.badtnum == 0, "worker ids are below the pool size");
        } // ~pool_t: stop + join
        sbv_reach("pool destroyed without deadlock");
    }
    else if (sbv_cfg_is("mode", "two"))
    {
        // two threads submit to the same pool at the same time
        record_t rec2;
        {
            pool_t pool(g_workers);
            auto   submit = [&](record_t& r)
            {
                pool.map(n,
                         [&r](const long index, const size_t tnum)
                         {
                             r.enter(tnum);
                             r.count[index]++;
                             r.finished++;
                         });
            };
            std::thread other([&] { submit(rec2); });
            submit(rec);
            sbv_check(rec.finished == n, "map() returns only after all its tasks finished (concurrent submitters)");
            other.join();
            sbv_check(rec2.finished == n, "the other submitter's map() completed");
            int once = 1;
            for (long i = 0; i < n; ++i) once &= (rec.count[i] == 1 && rec2.count[i] == 1) ? 1 : 0;
            sbv_check(once, "the operator is invoked exactly once for every index (concurrent submitters)");
            sbv_check(rec.overlap == 0 && rec2.overlap == 0, "a worker id is never used by two tasks of the same call at the same time");
        }
        sbv_reach("pool destroyed without deadlock");
    }
    else
    {
        // destruction while tasks are queued / running: enqueue without waiting, destroy at once
        {
            pool_t pool(g_workers);
            for (long i = 0; i < n; ++i)
                pool.enqueue(
                    [&rec, i](const size_t tnum)
                    {
                        rec.enter(tnum);
                        rec.count[i]++;
                        rec.finished++;
                    });
        }
        sbv_reach("busy pool destroyed without deadlock");
        int atmost = 1;
        for (long i = 0; i < n; ++i) atmost &= rec.count[i] <= 1 ? 1 : 0;
        sbv_check(atmost, "no task runs more than once (pool destroyed with queued tasks)");
        sbv_check(rec.overlap == 0 && rec.badtnum == 0, "worker ids valid and exclusive (pool destroyed with queued tasks)");
    }
    sbv_reach("end of harness");
}
