// C20 (histograms over INTEGRAL value lists, bit-precise): for symbolic integer values (int32 / int16 / int64) and symbolic
// finite double thresholds / ratios the histogram's bins partition the values by the counting rule (bin of v = number of
// thresholds <= v, compared as reals), each bin's count / mean / median are those of the values that fall in it, and bin(v)
// returns the bin in which v was counted. Integer -> double conversions and double comparisons are decided through z3's FP theory.
// config: type=<i32|i16|i64>;n=<values>;t=<thresholds>;how=<0 thresholds | 1 ratios>;means=<1: also the floating-point mean / median obligations>
#include "sbv.h"
#include <cmath>
#include <nano/core/histogram.h>
#include <vector>

using namespace nano;

namespace
{
template <class T>
void run()
{
    const long n = sbv_cfg("n", 3), nt = sbv_cfg("t", 2);
    const long how = sbv_cfg("how", 0);
    std::vector<T> values(static_cast<size_t>(n));
    for (auto& v : values) v = static_cast<T>(sbv_range("v", -6, 6));
    std::vector<T> original = values;

    tensor_mem_t<scalar_t, 1> spec(nt);
    for (tensor_size_t i = 0; i < nt; ++i)
    {
        double t;
        sbv_make_symbolic(&t, sizeof(t), "t");
        if (how == 0) sbv_assume(t >= -8.0 && t <= 8.0);
        else sbv_assume(t > 0.0 && t < 1.0);
        spec(i) = t;
    }
    const auto hist = how == 0 ? histogram_t::make_from_thresholds(values.begin(), values.end(), spec) : histogram_t::make_from_ratios(values.begin(), values.end(), spec);

    const auto& th   = hist.thresholds();
    const auto  bins = hist.bins();
    sbv_check(bins == th.size() + 1, "bins = thresholds + 1");
    int sorted = 1;
    for (tensor_size_t i = 0; i + 1 < th.size(); ++i) sorted &= (th(i) <= th(i + 1)) ? 1 : 0;
    sbv_check(sorted, "thresholds are sorted");

    // counting rule on the ORIGINAL values: bin(v) = number of thresholds <= v
    std::vector<long> rule(static_cast<size_t>(n), 0);
    for (long i = 0; i < n; ++i)
    {
        long b = 0;
        for (tensor_size_t k = 0; k < th.size(); ++k) b += (static_cast<double>(original[static_cast<size_t>(i)]) >= th(k)) ? 1 : 0;
        rule[static_cast<size_t>(i)] = b;
    }
    long total = 0;
    for (tensor_size_t b = 0; b < bins; ++b)
    {
        long   cnt = 0, viabin = 0;
        double sum = 0.0;
        for (long i = 0; i < n; ++i)
        {
            const auto ui = static_cast<size_t>(i);
            cnt += rule[ui] == b ? 1 : 0;
            viabin += hist.bin(original[ui]) == b ? 1 : 0;
        }
        // values are sorted by the histogram: sum in that order (same association as the implementation)
        for (long i = 0; i < n; ++i)
            if (hist.bin(values[static_cast<size_t>(i)]) == b) sum = sum + static_cast<double>(values[static_cast<size_t>(i)]);
        sbv_check(hist.count(b) == cnt, "count(bin) = number of values the counting rule assigns to the bin");
        sbv_check(hist.count(b) == viabin, "bin(v) returns the bin in which v was counted");
        total += hist.count(b);
        if (cnt > 0 && sbv_cfg("means", 0))
        {
            sbv_check(hist.mean(b) == sum / static_cast<double>(cnt), "mean(bin) = mean of the values that fall in it");
            // median of the bin's values (they are a contiguous run of the sorted list)
            long first = -1;
            for (long i = 0; i < n; ++i)
                if (first < 0 && hist.bin(values[static_cast<size_t>(i)]) == b) first = i;
            const long   lo = first + (cnt - 1) / 2, hi = first + cnt / 2;
            const double md = 0.5 * (static_cast<double>(values[static_cast<size_t>(lo)]) + static_cast<double>(values[static_cast<size_t>(hi)]));
            sbv_check(hist.median(b) == md, "median(bin) = median of the values that fall in it");
        }
        else if (cnt == 0) sbv_check(hist.mean(b) != hist.mean(b) && hist.median(b) != hist.median(b), "empty bin: mean and median are NaN");
    }
    sbv_check(total == n, "the bins partition the values");
    sbv_out("bins", static_cast<uint64_t>(bins));
    for (tensor_size_t b = 0; b < bins; ++b) sbv_out("count", static_cast<uint64_t>(hist.count(b)));
}
} // namespace

extern "C" void sbv_harness(const char*)
{
    if (sbv_cfg_is("type", "i16")) run<int16_t>();
    else if (sbv_cfg_is("type", "i64")) run<int64_t>();
    else run<int32_t>();
    sbv_reach("end of harness");
}
