// C08 (storage types and missing values): through the real datasource -> feature storage -> dataset -> generator stack, for a
// data source whose cells are SYMBOLIC integers / labels / label sets / floats of several storage types and whose
// missing-value mask is SYMBOLIC (every given/missing pattern), the per-feature view and the flattened view of every
// feature agree with the stored values under the documented encodings, missing cells are NaN / -1, targets equal the
// stored target, and the column bookkeeping is consistent.
// config: f=<kinds of the input features>;n=<samples>;cls=<classes of 's' features>;rep=<1: sample list reversed with a repetition>;bad=<1: labels of 's' features range over [-70000,70000]>
//   tdims=1: the target is a structured float64 feature of dims (2, 1, 3) with symbolic components
//   gen=product: the pairwise product generator is added too; kind E = float32 with concrete decimal values
//   kinds: a int8, b uint16, c int32, d int64, e float32, r float64, s single-label (cls classes), m multi-label (3 labels)
#include "sbv.h"
#include <cmath>
#include <cstring>
#include <nano/dataset.h>
#include <nano/datasource.h>
#include <nano/generator/elemwise_identity.h>
#include <nano/generator/pairwise_product.h>

using namespace nano;

namespace
{
struct symstore_t final : datasource_t
{
    std::string                       kinds;
    tensor_size_t                     n{0};
    tensor_size_t                     classes{3};
    std::vector<std::vector<int64_t>> I; ///< [sample][feature]: integer value / label / label bit set
    std::vector<std::vector<double>>  D; ///< [sample][feature]: floating point value (kinds e, r and the target)
    std::vector<std::vector<int>>     G; ///< [sample][feature]: given (1) or missing (0)
    bool                              bad{false};
    int                               td1{1}, td2{1}, td3{1};     ///< dims of the (structured) target
    std::vector<std::vector<double>>  T;                          ///< [sample][component]: structured target values (tdims=1)
    int                               rejected_wrongly{0}, accepted_wrongly{0};

    symstore_t(std::string k, tensor_size_t samples, tensor_size_t cls)
        : datasource_t("symstore")
        , kinds(std::move(k))
        , n(samples)
        , classes(cls)
    {
    }
    rdatasource_t clone() const override { return std::make_unique<symstore_t>(*this); }

    size_t target() const { return kinds.size(); } // the target (float64) is stored after the inputs

    void make_symbolic()
    {
        I.assign(static_cast<size_t>(n), std::vector<int64_t>(kinds.size() + 1, 0));
        D.assign(static_cast<size_t>(n), std::vector<double>(kinds.size() + 1, 0.0));
        G.assign(static_cast<size_t>(n), std::vector<int>(kinds.size() + 1, 1));
        for (tensor_size_t s = 0; s < n; ++s)
            for (size_t f = 0; f <= kinds.size(); ++f)
            {
                const char k  = f < kinds.size() ? kinds[f] : 'r';
                auto&      iv = I[static_cast<size_t>(s)][f];
                auto&      dv = D[static_cast<size_t>(s)][f];
                switch (k)
                {
                case 'a': iv = sbv_range("i8", -128, 127); break;
                case 'b': iv = sbv_range("u16", 0, 65535); break;
                case 'c': iv = sbv_range("i32", -2147483647LL - 1, 2147483647LL); break;
                case 'd': iv = sbv_range("i64", -(1LL << 52), 1LL << 52); break; // exactly representable as float64
                case 's':
                    // bad=1: ANY int32 label; the out-of-range ones must be rejected by set() and leave the cell missing
                    iv = bad ? sbv_range("label", -70000, 70000) : sbv_range("label", 0, classes - 1);
                    break;
                case 'm': iv = sbv_range("hits", 0, 7); break;
                case 'E': dv = static_cast<double>(0.1F * static_cast<float>(3 * s + static_cast<tensor_size_t>(f) + 1)); break; // concrete float32 decimals
                case 'e':
                {
                    float v;
                    sbv_make_symbolic(&v, sizeof(v), "f32");
                    sbv_assume(v >= -1e6F && v <= 1e6F);
                    dv = static_cast<double>(v);
                    break;
                }
                default:
                {
                    double v;
                    sbv_make_symbolic(&v, sizeof(v), "f64");
                    sbv_assume(v >= -1e6 && v <= 1e6);
                    dv = v;
                    break;
                }
                }
                // every given/missing pattern of the inputs (targets cannot be optional)
                if (f < kinds.size()) G[static_cast<size_t>(s)][f] = sbv_range("given", 0, 1) != 0 ? 1 : 0;
            }
    }

    void do_load() override
    {
        features_t fs;
        for (size_t f = 0; f < kinds.size(); ++f)
        {
            const auto name = "f" + std::to_string(f);
            switch (kinds[f])
            {
            case 'a': fs.push_back(feature_t{name}.scalar(feature_type::int8)); break;
            case 'b': fs.push_back(feature_t{name}.scalar(feature_type::uint16)); break;
            case 'c': fs.push_back(feature_t{name}.scalar(feature_type::int32)); break;
            case 'd': fs.push_back(feature_t{name}.scalar(feature_type::int64)); break;
            case 'e':
            case 'E': fs.push_back(feature_t{name}.scalar(feature_type::float32)); break;
            case 'r': fs.push_back(feature_t{name}.scalar(feature_type::float64)); break;
            case 's': fs.push_back(feature_t{name}.sclass(static_cast<size_t>(classes))); break;
            default: fs.push_back(feature_t{name}.mclass(static_cast<size_t>(3))); break;
            }
        }
        fs.push_back(feature_t{"target"}.scalar(feature_type::float64, make_dims(td1, td2, td3)));
        resize(n, fs, target());
        for (tensor_size_t s = 0; s < n; ++s)
            for (size_t f = 0; f <= kinds.size(); ++f)
            {
                if (!G[static_cast<size_t>(s)][f]) continue;
                const auto fi = static_cast<tensor_size_t>(f);
                const char k  = f < kinds.size() ? kinds[f] : 'r';
                const auto iv = I[static_cast<size_t>(s)][f];
                const auto dv = D[static_cast<size_t>(s)][f];
                if (f == kinds.size() && td1 * td2 * td3 > 1)
                {
                    // structured target: one symbolic double per component, stored in row-major order of (td1, td2, td3)
                    tensor_mem_t<double, 3> t(td1, td2, td3);
                    for (tensor_size_t c = 0; c < t.size(); ++c) t(c) = T[static_cast<size_t>(s)][static_cast<size_t>(c)];
                    set(s, fi, t);
                }
                else if (k == 'm')
                {
                    tensor_mem_t<int8_t, 1> t(3);
                    for (tensor_size_t c = 0; c < 3; ++c) t(c) = static_cast<int8_t>((iv >> c) & 1);
                    set(s, fi, t);
                }
                else if (k == 'e' || k == 'E') set(s, fi, static_cast<float>(dv));
                else if (k == 'r') set(s, fi, dv);
                else if (k == 's' && bad)
                {
                    const bool valid = iv >= 0 && iv < classes;
                    bool       threw = false;
                    try
                    {
                        set(s, fi, iv);
                    }
                    catch (...)
                    {
                        threw = true;
                    }
                    if (valid && threw) rejected_wrongly = 1;
                    if (!valid && !threw) accepted_wrongly = 1;
                    if (threw) G[static_cast<size_t>(s)][f] = 0; // a rejected value leaves the cell missing
                }
                else set(s, fi, iv);
            }
    }
};

inline int isnan_(double v) { return v != v ? 1 : 0; }
} // namespace

extern "C" void sbv_harness(const char*)
{
    const std::string   kinds = [&]
    {
        const std::string c = std::string(";") + sbv_config() + ";";
        const auto        p = c.find(";f=");
        return p == std::string::npos ? std::string("sa") : c.substr(p + 3, c.find(';', p + 3) - p - 3);
    }();
    const tensor_size_t n   = sbv_cfg("n", 2);
    const tensor_size_t cls = sbv_cfg("cls", 3);

    symstore_t src(kinds, n, cls);
    src.bad = sbv_cfg("bad", 0) != 0;
    if (sbv_cfg("tdims", 0))
    {
        // tdims=1: a structured target with three different extents (2, 1, 3) instead of a scalar one
        src.td1 = 2, src.td2 = 1, src.td3 = 3;
        src.T.assign(static_cast<size_t>(n), std::vector<double>(6, 0.0));
        for (auto& row : src.T)
            for (auto& v : row)
            {
                sbv_make_symbolic(&v, sizeof(v), "target");
                sbv_assume(v >= -1e6 && v <= 1e6);
            }
    }
    src.make_symbolic();
    src.load();
    if (src.bad)
    {
        sbv_check(!src.accepted_wrongly, "a label outside [0, classes) is rejected with an exception (any int32 label)");
        sbv_check(!src.rejected_wrongly, "a label inside [0, classes) is accepted");
    }
    dataset_t ds(src, 1);
    ds.add<sclass_identity_generator_t>();
    ds.add<mclass_identity_generator_t>();
    ds.add<scalar_identity_generator_t>();
    ds.add<struct_identity_generator_t>();
    // gen=product: additionally the pairwise product of the scalar features ("product features are the product of their two sources")
    const bool with_products = sbv_cfg_is("gen", "product");
    if (with_products) ds.add<pairwise_product_generator_t>();

    indices_t samples(n);
    for (tensor_size_t i = 0; i < n; ++i) samples(i) = i;
    if (sbv_cfg("rep", 1))
    {
        samples.resize(n + 1);
        for (tensor_size_t i = 0; i < n; ++i) samples(i) = n - 1 - i;
        samples(n) = n - 1;
    }
    const auto m = samples.size();

    const auto nk = static_cast<tensor_size_t>(kinds.size());
    sbv_check(ds.features() == (with_products ? nk + nk * (nk + 1) / 2 : nk), "one dataset feature per input feature (plus one product feature per unordered pair of scalar features)");
    // value of a stored scalar cell as the library sees it: converted from its STORAGE type to scalar_t
    auto stored = [&](size_t su, size_t k)
    {
        const auto iv = src.I[su][k];
        const auto dv = src.D[su][k];
        switch (kinds[k])
        {
        case 'a': return static_cast<double>(static_cast<int8_t>(iv));
        case 'b': return static_cast<double>(static_cast<uint16_t>(iv));
        case 'c': return static_cast<double>(static_cast<int32_t>(iv));
        case 'd': return static_cast<double>(iv);
        case 'e':
        case 'E': return static_cast<double>(static_cast<float>(dv));
        default: return dv;
        }
    };
    auto storage_of = [&](tensor_size_t i) { return static_cast<size_t>(std::atol(ds.feature(i).name().c_str() + 1)); };

    tensor2d_t fbuf;
    const auto flat = ds.flatten(samples, fbuf);
    sbv_check(flat.size<0>() == m && flat.size<1>() == ds.columns(), "flatten has one row per requested sample and columns() columns");

    tensor_size_t col = 0;
    for (tensor_size_t i = 0; i < ds.features(); ++i)
    {
        if (ds.feature(i).name().rfind("product(", 0) == 0)
        {
            // "product(f<A>,f<B>)"
            const auto&  nm = ds.feature(i).name();
            const size_t ka = static_cast<size_t>(std::atol(nm.c_str() + 9));
            const size_t kb = static_cast<size_t>(std::atol(nm.c_str() + nm.find(',') + 2));
            sbv_check(ds.column2feature(col) == i, "column -> feature map is consistent with the column blocks");
            scalar_mem_t buf;
            const auto   v = ds.select(samples, i, buf);
            for (tensor_size_t r = 0; r < m; ++r)
            {
                const auto su = static_cast<size_t>(samples(r));
                if (src.G[su][ka] != 0 && src.G[su][kb] != 0)
                {
                    const double expected = stored(su, ka) * stored(su, kb);
                    sbv_check(v(r) == expected, "select(product feature) = product of its two sources converted to scalar_t (symbolic values, mixed storage types)");
                    sbv_check(flat(r, col) == expected, "flatten(product feature) column = product of its two sources (symbolic values, mixed storage types)");
                }
                else sbv_check(isnan_(v(r)) & isnan_(flat(r, col)), "product feature is missing (NaN in both views) when one of its sources is missing");
            }
            col += 1;
            continue;
        }
        const auto k    = storage_of(i);
        const char kind = kinds[k];
        const auto cols = kind == 's' ? cls - 1 : kind == 'm' ? 3 : 1;
        for (tensor_size_t c = 0; c < cols; ++c) sbv_check(ds.column2feature(col + c) == i, "column -> feature map is consistent with the column blocks");
        for (tensor_size_t r = 0; r < m; ++r)
        {
            const auto su    = static_cast<size_t>(samples(r));
            const bool given = src.G[su][k] != 0;
            const auto iv    = src.I[su][k];
            const auto dv    = src.D[su][k];
            if (kind == 's')
            {
                sclass_mem_t buf;
                const auto   v = ds.select(samples, i, buf);
                if (given)
                {
                    sbv_check(v(r) == iv, "select(sclass) returns the stored label (symbolic label)");
                    int ok = 1;
                    for (tensor_size_t c = 0; c < cols; ++c) ok &= (flat(r, col + c) == (c == iv ? 1.0 : -1.0)) ? 1 : 0;
                    sbv_check(ok, "flatten(sclass) is the +-1 one-hot encoding with C-1 columns (symbolic label)");
                }
                else
                {
                    int ok = v(r) == -1 ? 1 : 0;
                    for (tensor_size_t c = 0; c < cols; ++c) ok &= isnan_(flat(r, col + c));
                    sbv_check(ok, "missing sclass is -1 / NaN");
                }
            }
            else if (kind == 'm')
            {
                mclass_mem_t buf;
                const auto   v  = ds.select(samples, i, buf);
                int          ok = 1;
                for (tensor_size_t c = 0; c < 3; ++c)
                {
                    const auto hit = (iv >> c) & 1;
                    if (given) ok &= (v(r, c) == hit && flat(r, col + c) == (hit ? 1.0 : -1.0)) ? 1 : 0;
                    else ok &= (v(r, c) == -1 ? 1 : 0) & isnan_(flat(r, col + c));
                }
                sbv_check(ok, "mclass: select = hits, flatten = 2*hit-1 (missing: -1 / NaN), symbolic label sets");
            }
            else
            {
                scalar_mem_t buf;
                const auto   v = ds.select(samples, i, buf);
                const double expected = (kind == 'e' || kind == 'E' || kind == 'r') ? dv : static_cast<double>(iv);
                if (given)
                {
                    sbv_check(v(r) == expected, "select(scalar) returns the stored value converted to scalar_t (symbolic value, every storage type)");
                    sbv_check(flat(r, col) == expected, "flatten(scalar) column holds the stored value (symbolic value, every storage type)");
                }
                else sbv_check(isnan_(v(r)) & isnan_(flat(r, col)), "missing scalar is NaN in both views");
            }
        }
        col += cols;
    }
    sbv_check(col == ds.columns(), "column blocks add up to columns()");
    tensor4d_t tbuf;
    const auto targ = ds.targets(samples, tbuf);
    if (sbv_cfg("tdims", 0))
    {
        sbv_check(targ.size<0>() == m && targ.size<1>() == 2 && targ.size<2>() == 1 && targ.size<3>() == 3, "targets view of a structured target has the shape (samples, dims of the target)");
        const auto td = ds.target_dims();
        sbv_check(std::get<0>(td) == 2 && std::get<1>(td) == 1 && std::get<2>(td) == 3, "target_dims() reports the dims of the stored target");
        if (targ.size<0>() == m && targ.size<1>() == 2 && targ.size<2>() == 1 && targ.size<3>() == 3)
            for (tensor_size_t r = 0; r < m; ++r)
            {
                int ok = 1;
                for (tensor_size_t a = 0; a < 2; ++a)
                    for (tensor_size_t c = 0; c < 3; ++c) ok &= (targ(r, a, 0, c) == src.T[static_cast<size_t>(samples(r))][static_cast<size_t>(a * 3 + c)]) ? 1 : 0;
                sbv_check(ok, "targets(sample, a, b, c) = stored component (a, b, c) of the structured target (row-major)");
            }
    }
    else
        for (tensor_size_t r = 0; r < m; ++r) sbv_check(targ(r, 0, 0, 0) == src.D[static_cast<size_t>(samples(r))][src.target()], "targets equal the stored target values");
    sbv_reach("end of harness");
}
