// C14 (constant columns, bit-precise): a column whose n samples all hold the same SYMBOLIC finite double (any value of the
// property's magnitude range) goes through the real datasource -> dataset -> flatten -> scalar_stats_t::make_flatten_stats stack
// in IEEE arithmetic (z3 floating-point theory): the statistics must be finite (the one-pass variance sum(x^2) - sum(x)^2/n must
// not round below zero before the square root), and for every scaling mode scaling followed by up-scaling returns the original
// value (up to a relative 1e-12).
// config: n=<samples>;mode=<0 none|1 mean|2 minmax|3 standard>;grid=<K: value = k/10 with symbolic k in 1..K instead of any double in [1e-6, 1e6]>
#include "sbv.h"
#include <cmath>
#include <nano/dataset.h>
#include <nano/dataset/stats.h>
#include <nano/datasource.h>
#include <nano/generator/elemwise_identity.h>

using namespace nano;

namespace
{
struct const_source_t final : datasource_t
{
    tensor_size_t n;
    double        value;
    const_source_t(tensor_size_t samples, double v)
        : datasource_t("const")
        , n(samples)
        , value(v)
    {
    }
    rdatasource_t clone() const override { return std::make_unique<const_source_t>(*this); }
    void          do_load() override
    {
        features_t fs;
        fs.push_back(feature_t{"x"}.scalar(feature_type::float64));
        fs.push_back(feature_t{"y"}.scalar(feature_type::float64));
        resize(n, fs, 1U);
        for (tensor_size_t s = 0; s < n; ++s)
        {
            set(s, 0, value);
            set(s, 1, static_cast<double>(s));
        }
    }
};
} // namespace

extern "C" void sbv_harness(const char*)
{
    const tensor_size_t n    = sbv_cfg("n", 3);
    const auto          mode = static_cast<scaling_type>(sbv_cfg("mode", 3));
    double              v;
    if (sbv_cfg("grid", 0) > 0)
    {
        // decimal grid: v = k / 10 for a symbolic k (few free bits: the floating-point queries are decided quickly either way)
        // (the value is made concrete per path by forking on k: z3's bit-blasting of the division / square-root chain does not finish
        // within the budget even for a 10-bit input, see DESIGN.md)
        const long K = sbv_cfg("grid", 0), kk = sbv_range("tenths", 1, K);
        v            = 0.1;
        for (long k = 1; k <= K; ++k)
            if (kk == k)
            {
                v = static_cast<double>(k) / 10.0;
                break;
            }
    }
    else
    {
        sbv_make_symbolic(&v, sizeof(v), "value");
        sbv_assume(v >= 1e-6 && v <= 1e6);
    }

    const_source_t src(n, v);
    src.load();
    dataset_t ds(src, 1U);
    ds.add<scalar_identity_generator_t>();
    indices_t samples(n);
    for (tensor_size_t i = 0; i < n; ++i) samples(i) = i;

    const auto stats = scalar_stats_t::make_flatten_stats(ds, samples);
    sbv_check(stats.m_min(0) == v && stats.m_max(0) == v, "constant column: min = max = the value");
    sbv_check(stats.m_stdev(0) == stats.m_stdev(0), "constant column: the standard deviation is not NaN");
    sbv_check(stats.m_div_stdev(0) == stats.m_div_stdev(0) && stats.m_mul_stdev(0) == stats.m_mul_stdev(0), "constant column: the deviation scaling factors are not NaN");

    tensor2d_t buf;
    tensor2d_t flat   = ds.flatten(samples, buf);
    tensor2d_t scaled = flat;
    stats.scale(mode, scaled.tensor());
    tensor2d_t back = scaled;
    stats.upscale(mode, back.tensor());
    int ok = 1;
    for (tensor_size_t i = 0; i < n; ++i)
    {
        const double d = back(i, 0) - flat(i, 0);
        ok &= (d <= 1e-12 * (1.0 + v) && -d <= 1e-12 * (1.0 + v)) ? 1 : 0;
    }
    sbv_check(ok, "constant column: scaling followed by up-scaling returns the original value");
    sbv_reach("end of harness");
}
