// C12: splitters and samplers return index sets with the promised set structure.
// The real split()/sample_*() code is executed symbolically: the sample indices are symbolic distinct integers, every
// draw of std::uniform_int_distribution is an arbitrary value of its range (contract), so "any seed" and "any
// permutation" are literal quantifiers; std::shuffle, Eigen segment copies and std::sort run as compiled.
#include "sbv.h"
#include <nano/core/sampling.h>
#include <nano/core/numeric.h>
#include <nano/gboost/sampler.h>
#include <splitter/kfold.h>
#include <splitter/random.h>

using namespace nano;

namespace
{
// fork-free boolean helpers (bitwise, no short-circuit)
inline int member(const indices_t& set, tensor_size_t v)
{
    int m = 0;
    for (tensor_size_t i = 0; i < set.size(); ++i) m |= (set(i) == v) ? 1 : 0;
    return m;
}
inline int count(const indices_t& set, tensor_size_t v)
{
    int m = 0;
    for (tensor_size_t i = 0; i < set.size(); ++i) m += (set(i) == v) ? 1 : 0;
    return m;
}
inline int strictly_sorted(const indices_t& set)
{
    int ok = 1;
    for (tensor_size_t i = 0; i + 1 < set.size(); ++i) ok &= (set(i) < set(i + 1)) ? 1 : 0;
    return ok;
}
inline int sorted(const indices_t& set)
{
    int ok = 1;
    for (tensor_size_t i = 0; i + 1 < set.size(); ++i) ok &= (set(i) <= set(i + 1)) ? 1 : 0;
    return ok;
}

indices_t make_samples(tensor_size_t n, bool ordered)
{
    indices_t samples(n);
    for (tensor_size_t i = 0; i < n; ++i) samples(i) = sbv_range("s", 0, 1000000);
    // distinct (the property's precondition); optionally given in increasing order (as arange() would)
    for (tensor_size_t i = 0; i < n; ++i)
        for (tensor_size_t j = i + 1; j < n; ++j) sbv_assume(ordered ? (samples(i) < samples(j)) : (samples(i) != samples(j)));
    return samples;
}

void check_splits(const splitter_t::splits_t& splits, const indices_t& samples, tensor_size_t folds)
{
    const auto n = samples.size();
    sbv_check(static_cast<tensor_size_t>(splits.size()) == folds, "split(): one (train, valid) pair per fold");
    for (const auto& [train, valid] : splits)
    {
        sbv_check(train.size() + valid.size() == n, "train and valid sizes add up to the input size");
        sbv_check(strictly_sorted(train), "train is sorted (strictly: no repetition)");
        sbv_check(strictly_sorted(valid), "valid is sorted (strictly: no repetition)");
        int all_members = 1, disjoint = 1, covered = 1;
        for (tensor_size_t i = 0; i < train.size(); ++i) all_members &= member(samples, train(i));
        for (tensor_size_t i = 0; i < valid.size(); ++i) all_members &= member(samples, valid(i));
        for (tensor_size_t i = 0; i < valid.size(); ++i) disjoint &= member(train, valid(i)) ? 0 : 1;
        for (tensor_size_t i = 0; i < n; ++i) covered &= (member(train, samples(i)) | member(valid, samples(i)));
        sbv_check(all_members, "every returned index is a member of the input");
        sbv_check(disjoint, "train and valid are disjoint");
        sbv_check(covered, "train and valid together are exactly the input set");
    }
}
} // namespace

extern "C" void sbv_harness(const char*)
{
    const auto n       = static_cast<tensor_size_t>(sbv_cfg("n", 5));
    const auto folds   = static_cast<tensor_size_t>(sbv_cfg("folds", 2));
    const auto ordered = sbv_cfg("ordered", 0) != 0;

    if (sbv_cfg_is("mode", "kfold"))
    {
        const auto samples  = make_samples(n, ordered);
        auto       splitter = kfold_splitter_t{};
        splitter.parameter("splitter::folds") = folds;
        splitter.parameter("splitter::seed")  = static_cast<int64_t>(sbv_cfg("seed", 42));
        const auto splits = splitter.split(samples);
        check_splits(splits, samples, folds);
        // the validation folds partition the input, sizes differ by less than k
        for (tensor_size_t i = 0; i < n; ++i)
        {
            int c = 0;
            for (const auto& tv : splits) c += count(tv.second, samples(i));
            sbv_check(c == 1, "k-fold: every sample is in exactly one validation fold");
        }
        for (const auto& a : splits)
            for (const auto& b : splits)
            {
                const auto d = a.second.size() - b.second.size();
                sbv_check(d < folds && -d < folds, "k-fold: validation fold sizes differ by less than k");
            }
        sbv_out("folds", static_cast<uint64_t>(splits.size()));
        for (const auto& tv : splits)
        {
            for (tensor_size_t i = 0; i < tv.first.size(); ++i) sbv_out("train", static_cast<uint64_t>(tv.first(i)));
            for (tensor_size_t i = 0; i < tv.second.size(); ++i) sbv_out("valid", static_cast<uint64_t>(tv.second(i)));
        }
    }
    else if (sbv_cfg_is("mode", "random"))
    {
        const auto samples  = make_samples(n, ordered);
        const auto perc     = static_cast<tensor_size_t>(sbv_cfg("perc", 80));
        auto       splitter = random_splitter_t{};
        splitter.parameter("splitter::folds")             = folds;
        splitter.parameter("splitter::seed")              = static_cast<int64_t>(sbv_cfg("seed", 42));
        splitter.parameter("splitter::random::train_per") = perc;
        const auto splits = splitter.split(samples);
        check_splits(splits, samples, folds);
        // round(perc * n / 100), half up
        const auto expected = (2 * perc * n + 100) / 200;
        for (const auto& tv : splits) sbv_check(tv.first.size() == expected, "random: the training part has round(percentage*n/100) elements");
        for (const auto& tv : splits)
        {
            for (tensor_size_t i = 0; i < tv.first.size(); ++i) sbv_out("train", static_cast<uint64_t>(tv.first(i)));
            for (tensor_size_t i = 0; i < tv.second.size(); ++i) sbv_out("valid", static_cast<uint64_t>(tv.second(i)));
        }
    }
    else if (sbv_cfg_is("mode", "determ"))
    {
        // "equal seeds give equal splits": the draws are a function of the engine state (contract mode 2: the real
        // std::minstd_rand steps, each draw is an arbitrary but FIXED value per (state, range)), so two splits agree for
        // every such function exactly when they consume the same engine states with the same ranges in the same roles.
        // which=0: k-fold, 1: random; twice=0: two splitter objects with the same seed, 1: the same object twice,
        // 2: a clone, 3/4: other splits in between (a different seed and a shorter / longer input) must not disturb the second one
        sbv_set_contract("udist", 2);
        const auto samples = make_samples(n, ordered);
        const auto which   = sbv_cfg("which", 0);
        const auto twice   = sbv_cfg("twice", 0);
        const auto seed    = static_cast<int64_t>(sbv_cfg("seed", 42));
        const auto make    = [&](int64_t the_seed) -> rsplitter_t
        {
            rsplitter_t splitter;
            if (which == 0) splitter = std::make_unique<kfold_splitter_t>();
            else
            {
                splitter = std::make_unique<random_splitter_t>();
                splitter->parameter("splitter::random::train_per") = static_cast<tensor_size_t>(sbv_cfg("perc", 60));
            }
            splitter->parameter("splitter::folds") = folds;
            splitter->parameter("splitter::seed")  = the_seed;
            return splitter;
        };
        const auto first = make(seed);
        if (twice == 4)
        {
            // the compared input is the SHORTER list, with splits of the longer one (same and other seed) in between
            const indices_t fewer   = samples.slice(0, n - 1);
            const auto      splits1 = first->split(fewer);
            (void)make(seed + 1)->split(samples);
            (void)first->split(samples);
            const auto splits2 = make(seed)->split(fewer);
            sbv_check(splits1.size() == splits2.size(), "equal seeds: same number of splits");
            for (size_t f = 0; f < splits1.size() && f < splits2.size(); ++f)
            {
                const auto& [t1, v1] = splits1[f];
                const auto& [t2, v2] = splits2[f];
                sbv_check(t1.size() == t2.size() && v1.size() == v2.size(), "equal seeds: same sizes");
                if (t1.size() != t2.size() || v1.size() != v2.size()) continue;
                int same = 1;
                for (tensor_size_t i = 0; i < t1.size(); ++i) same &= (t1(i) == t2(i)) ? 1 : 0;
                for (tensor_size_t i = 0; i < v1.size(); ++i) same &= (v1(i) == v2(i)) ? 1 : 0;
                sbv_check(same, "equal seeds give equal splits");
            }
            return;
        }
        const auto splits1 = first->split(samples);
        rsplitter_t second;
        if (twice == 0) second = make(seed);
        if (twice == 2) second = first->clone();
        if (twice == 3)
        {
            const auto other = make(seed + 1);
            indices_t  fewer = samples.slice(0, n - 1);
            (void)other->split(fewer);
            (void)first->split(fewer);
            second = make(seed);
        }
        const auto splits2 = (twice == 1 ? first : second)->split(samples);
        sbv_check(splits1.size() == splits2.size(), "equal seeds: same number of splits");
        if (splits1.size() == splits2.size())
            for (size_t f = 0; f < splits1.size(); ++f)
            {
                const auto& [t1, v1] = splits1[f];
                const auto& [t2, v2] = splits2[f];
                sbv_check(t1.size() == t2.size() && v1.size() == v2.size(), "equal seeds: same sizes");
                if (t1.size() != t2.size() || v1.size() != v2.size()) continue;
                int same = 1;
                for (tensor_size_t i = 0; i < t1.size(); ++i) same &= (t1(i) == t2(i)) ? 1 : 0;
                for (tensor_size_t i = 0; i < v1.size(); ++i) same &= (v1(i) == v2(i)) ? 1 : 0;
                sbv_check(same, "equal seeds give equal splits");
            }
        check_splits(splits1, samples, folds);
        for (const auto& tv : splits2)
        {
            for (tensor_size_t i = 0; i < tv.first.size(); ++i) sbv_out("train", static_cast<uint64_t>(tv.first(i)));
            for (tensor_size_t i = 0; i < tv.second.size(); ++i) sbv_out("valid", static_cast<uint64_t>(tv.second(i)));
        }
    }
    else if (sbv_cfg_is("mode", "randsize"))
    {
        // size clause for EVERY train percentage of the parameter domain (symbolic) on larger inputs: the random source is
        // irrelevant to the sizes, so the contract returns its lower bound and the samples are the concrete 0..n-1
        sbv_set_contract("udist", 1);
        indices_t samples(n);
        for (tensor_size_t i = 0; i < n; ++i) samples(i) = i;
        const auto perc     = static_cast<tensor_size_t>(sbv_range("perc", 10, 90));
        auto       splitter = random_splitter_t{};
        splitter.parameter("splitter::folds")             = folds;
        splitter.parameter("splitter::random::train_per") = perc;
        const auto splits   = splitter.split(samples);
        const auto expected = (2 * perc * n + 100) / 200;
        sbv_check(static_cast<tensor_size_t>(splits.size()) == folds, "split(): one (train, valid) pair per fold");
        for (const auto& tv : splits)
        {
            sbv_check(tv.first.size() == expected, "random: the training part has round(percentage*n/100) elements (every percentage in 10..90)");
            sbv_check(tv.first.size() + tv.second.size() == n, "train and valid sizes add up to the input size");
            sbv_out("train_size", static_cast<uint64_t>(tv.first.size()));
        }
    }
    else if (sbv_cfg_is("mode", "without"))
    {
        const auto samples = make_samples(n, ordered);
        const auto count   = static_cast<tensor_size_t>(sbv_cfg("count", 2));
        auto       rng     = make_rng(7);
        const auto sel     = sample_without_replacement(samples, count, rng);
        sbv_check(sel.size() == count, "without replacement: `count` elements");
        sbv_check(strictly_sorted(sel), "without replacement: sorted and distinct");
        int all_members = 1;
        for (tensor_size_t i = 0; i < sel.size(); ++i) all_members &= member(samples, sel(i));
        sbv_check(all_members, "without replacement: members of the input");
        for (tensor_size_t i = 0; i < sel.size(); ++i) sbv_out("sel", static_cast<uint64_t>(sel(i)));
    }
    else if (sbv_cfg_is("mode", "with"))
    {
        const auto samples = make_samples(n, ordered);
        const auto count   = static_cast<tensor_size_t>(sbv_cfg("count", 3));
        auto       rng     = make_rng(7);
        const auto sel     = sample_with_replacement(samples, count, rng);
        sbv_check(sel.size() == count, "with replacement: `count` elements");
        sbv_check(sorted(sel), "with replacement: sorted");
        int all_members = 1;
        for (tensor_size_t i = 0; i < sel.size(); ++i) all_members &= member(samples, sel(i));
        sbv_check(all_members, "with replacement: members of the input");
        for (tensor_size_t i = 0; i < sel.size(); ++i) sbv_out("sel", static_cast<uint64_t>(sel(i)));
    }
    else if (sbv_cfg_is("mode", "weighted"))
    {
        // weighted sampling with replacement: EVERY pattern of zero / positive weights (at least one positive), every draw of
        // std::discrete_distribution an arbitrary index of positive probability (contract): no index of zero weight is returned
        const auto samples = make_samples(n, ordered);
        const auto count   = static_cast<tensor_size_t>(sbv_cfg("count", 3));
        tensor_mem_t<scalar_t, 1> weights(n);
        int                       positives = 0;
        for (tensor_size_t i = 0; i < n; ++i)
        {
            if (sbv_range("wpos", 0, 1) != 0) // forks: the weight pattern is concrete on each path
            {
                weights(i) = 0.25 + static_cast<scalar_t>(i);
                ++positives;
            }
            else weights(i) = 0.0;
        }
        if (positives == 0) sbv_prune();
        auto       rng = make_rng(7);
        const auto sel = sample_with_replacement(samples, weights, count, rng);
        sbv_check(sel.size() == count, "weighted: `count` elements");
        sbv_check(sorted(sel), "weighted: sorted");
        int all_members = 1, nonzero = 1;
        for (tensor_size_t i = 0; i < sel.size(); ++i)
        {
            all_members &= member(samples, sel(i));
            // weight of the returned index
            int ok = 0;
            for (tensor_size_t k = 0; k < n; ++k) ok |= (samples(k) == sel(i) && weights(k) > 0.0) ? 1 : 0;
            nonzero &= ok;
        }
        sbv_check(all_members, "weighted: members of the input");
        sbv_check(nonzero, "weighted: no index of zero weight is returned");
        for (tensor_size_t i = 0; i < sel.size(); ++i) sbv_out("sel", static_cast<uint64_t>(sel(i)));
    }
    else if (sbv_cfg_is("mode", "gsampler"))
    {
        // the gradient-boosting sampler over a symbolic subset of the dataset's samples: type=1 subsample, 2 bootstrap,
        // 3 loss-weighted, 4 gradient-weighted bootstrap; the weights live per DATASET sample (symbolic zero / positive pattern)
        const tensor_size_t N = sbv_cfg("N", 6);
        // every subset of size n of the N dataset samples (membership decided by forking: the indices are concrete on a path)
        indices_t     samples(n);
        tensor_size_t taken = 0;
        for (tensor_size_t s = 0; s < N; ++s)
            if (sbv_range("in", 0, 1) != 0)
            {
                if (taken == n) sbv_prune();
                samples(taken++) = s;
            }
        if (taken != n) sbv_prune();
        const auto type = static_cast<gboost_subsample>(sbv_cfg("type", 1));
        tensor2d_t errors_losses(2, N);
        tensor4d_t gradients(N, 1, 1, 1);
        int        haspos[16] = {0};
        for (tensor_size_t s = 0; s < N; ++s)
        {
            errors_losses(0, s) = 1.0;
            if (sbv_range("wpos", 0, 1) != 0) // a real branch (the call keeps it from becoming a select): concrete weights per path
            {
                sbv_note("positive weight");
                haspos[s]             = 1;
                errors_losses(1, s)   = 0.5 + static_cast<scalar_t>(s);
                gradients(s, 0, 0, 0) = -1.0 - static_cast<scalar_t>(s);
            }
            else
            {
                haspos[s]             = 0;
                errors_losses(1, s)   = 0.0;
                gradients(s, 0, 0, 0) = 0.0;
            }
        }
        if (type == gboost_subsample::wei_loss_bootstrap || type == gboost_subsample::wei_grad_bootstrap)
        {
            int any = 0;
            for (tensor_size_t i = 0; i < n; ++i)
                for (tensor_size_t s = 0; s < N; ++s) any |= (samples(i) == s && haspos[s]) ? 1 : 0;
            if (!any) sbv_prune(); // at least one sample of the subset has a positive weight
        }
        const scalar_t    ratio = 0.5;
        gboost::sampler_t sampler(samples, type, 42U, ratio);
        const auto        sel      = sampler.sample(errors_losses, gradients);
        const auto        expected = type == gboost_subsample::off ? n : static_cast<tensor_size_t>(ratio * static_cast<scalar_t>(n));
        sbv_check(sel.size() == expected, "gboost sampler: floor(ratio * n) samples");
        sbv_check(type == gboost_subsample::subsample ? strictly_sorted(sel) : sorted(sel), "gboost sampler: sorted (distinct for subsampling)");
        int all_members = 1, nonzero = 1;
        for (tensor_size_t i = 0; i < sel.size(); ++i)
        {
            all_members &= member(samples, sel(i));
            int ok = 0;
            for (tensor_size_t s = 0; s < N; ++s) ok |= (sel(i) == s && haspos[s]) ? 1 : 0;
            nonzero &= ok;
        }
        sbv_check(all_members, "gboost sampler: members of the given samples");
        if (type == gboost_subsample::wei_loss_bootstrap || type == gboost_subsample::wei_grad_bootstrap)
            sbv_check(nonzero, "gboost sampler: weighted variants never return a sample of zero weight");
        for (tensor_size_t i = 0; i < sel.size(); ++i) sbv_out("sel", static_cast<uint64_t>(sel(i)));
    }
    sbv_reach("end of harness");
}
