// C18 (shared const objects): the REAL library objects are used through their const interface by several threads of the interpreted
// program - std::threads started by the harness and / or the workers of the real thread pool that the dataset owns - under the SBV
// interpreter's thread model with the happens-before DATA-RACE analysis switched on (SBV_RACE=1, engine/sbv/sbv_race.inc). The schedule
// is a symbolic choice at every visible operation (bounded by SBV_PREEMPT); on every explored schedule
//   - no two conflicting accesses of interpreted code to the same byte are unordered by happens-before (no data race), and
//   - every concurrent call returns BIT-IDENTICAL results to the same call executed alone before the threads were started.
// modes:
//   selftest  deliberately racy counter (vacuity guard: the analysis must report it)
//   loss      one shared loss object (loss=<id>), shared target / output tensors, T threads: error / value / vgrad into own buffers
//   solver    one shared solver (solver=<id>), T threads minimise their OWN function objects (fn=<id>, d=<dims>) from own starts
//   views     one shared dataset (pool of K workers): T threads call flatten / select / targets with per-thread buffers
//   iter      one shared dataset (pool of K workers): flatten / targets / select iterators loop over batches on the pool's workers
//   linear    linear::function_t (loss=<id>) evaluated over the pool's workers (per-thread accumulators), twice
//   gboost    gboost bias / scale / grads functions over the pool's workers
//   tune      the real model-tuning driver ml::tune (k-fold splitter, tuner=<id>, own pool of K workers): the warm start handed to every
//             (trial, fold) callback and the stored result are those of the run with one worker
//   fit       whole fit() of a linear model (model=<id>, loss mse, k-fold, solver lbfgs with a small budget): folds run on the tuning pool's
//             workers and submit their batches to the dataset's pool; fitted weights / bias / stored statistics = those of the one-worker run within 1e-5 relative (re-association of the per-worker sums)
//   wlearner  fit of a weak learner (wl=<id>) on the shared dataset over the pool's workers, then predict from T threads
// config: mode=..;T=<threads>;K=<dataset pool workers>;n=<samples>;batch=<batch size>
#include "sbv.h"
#include <cstring>
#include <nano/dataset.h>
#include <nano/dataset/iterator.h>
#include <nano/datasource.h>
#include <nano/function.h>
#include <nano/gboost/function.h>
#include <nano/gboost/model.h>
#include <nano/wlearner/affine.h>
#include <nano/wlearner/stump.h>
#include <nano/wlearner/table.h>
#include <nano/generator/elemwise_identity.h>
#include <nano/linear/function.h>
#include <nano/linear.h>
#include <any>
#include <nano/loss.h>
#include <nano/machine/tune.h>
#include <nano/solver.h>
#include <nano/wlearner.h>
#include <thread>

using namespace nano;

namespace
{
size_t g_workers = 2;
}
// pool size independent of the machine (the library's definition is weak in the harness build)
size_t parallel::pool_t::max_size()
{
    return g_workers;
}
rng_t nano::make_rng(seed_t seed)
{
    return rng_t{static_cast<rng_t::result_type>(seed ? *seed : 42U)};
}

namespace
{
uint64_t bits(double d)
{
    uint64_t u;
    std::memcpy(&u, &d, 8);
    return u;
}
template <class ta, class tb>
int same(const ta& a, const tb& b)
{
    if (a.size() != b.size()) return 0;
    int ok = 1;
    for (tensor_size_t i = 0; i < a.size(); ++i) ok &= bits(static_cast<double>(a(i))) == bits(static_cast<double>(b(i))) ? 1 : 0;
    return ok;
}
// deterministic pseudo-values (concrete): the subject of this unit is the schedule, not the arithmetic
double pv(long i, long salt)
{
    const long h = (i * 37 + salt * 101 + 13) % 41;
    return static_cast<double>(h - 20) / 8.0;
}

struct mix_source_t final : datasource_t
{
    tensor_size_t n;
    explicit mix_source_t(tensor_size_t samples)
        : datasource_t("mix")
        , n(samples)
    {
    }
    rdatasource_t clone() const override { return std::make_unique<mix_source_t>(*this); }
    void          do_load() override
    {
        features_t fs;
        fs.push_back(feature_t{"x0"}.scalar(feature_type::float64));
        fs.push_back(feature_t{"x1"}.scalar(feature_type::float32));
        fs.push_back(feature_t{"c"}.sclass(3));
        // categorical features with DIFFERENT numbers of classes, the more informative one (2 classes) last: per-worker scratch state
        // sized by an earlier feature must not leak into a later one
        fs.push_back(feature_t{"c5"}.sclass(5));
        fs.push_back(feature_t{"c2"}.sclass(2));
        fs.push_back(feature_t{"y"}.scalar(feature_type::float64));
        resize(n, fs, 5U);
        for (tensor_size_t s = 0; s < n; ++s)
        {
            set(s, 0, pv(s, 1));
            if (s % 4 != 3) set(s, 1, static_cast<float>(pv(s, 2)));
            if (s % 5 != 4) set(s, 2, static_cast<int32_t>(s % 3));
            set(s, 3, static_cast<int32_t>(s % 5));
            set(s, 4, static_cast<int32_t>((s / 2) % 2));
            set(s, 5, pv(s, 3) + 0.5 * pv(s, 1) + 3.0 * static_cast<double>((s / 2) % 2));
        }
    }
};

template <class tfun>
void run_threads(long T, const tfun& f)
{
    std::vector<std::thread> ts;
    for (long t = 1; t < T; ++t) ts.emplace_back([&f, t] { f(t); });
    f(0);
    for (auto& t : ts) t.join();
}
} // namespace

extern "C" void sbv_harness(const char* cfg)
{
    const long T = sbv_cfg("T", 2), n = sbv_cfg("n", 6);
    g_workers    = static_cast<size_t>(sbv_cfg("K", 2));
    auto cfgstr  = [&](const char* key, const char* dflt)
    {
        std::string s = cfg ? cfg : "", k = std::string(key) + "=";
        auto        p = s.find(k);
        while (p != std::string::npos && p != 0 && s[p - 1] != ';') p = s.find(k, p + 1);
        if (p == std::string::npos) return std::string(dflt);
        auto e = s.find(';', p);
        return s.substr(p + k.size(), e == std::string::npos ? std::string::npos : e - p - k.size());
    };

    if (sbv_cfg_is("mode", "selftest"))
    {
        long counter = 0;
        run_threads(T, [&](long) { counter = counter + 1; });
        sbv_out("counter", static_cast<uint64_t>(counter));
        sbv_reach("end of harness");
        return;
    }

    if (sbv_cfg_is("mode", "loss"))
    {
        const auto loss = loss_t::all().get(cfgstr("loss", "mse"));
        sbv_check(loss != nullptr, "loss id is registered");
        if (!loss) return;
        const long k = sbv_cfg("k", 3);
        tensor4d_t targets(n, k, 1, 1), outputs(n, k, 1, 1);
        for (long s = 0; s < n; ++s)
            for (long j = 0; j < k; ++j)
            {
                targets(s, j, 0, 0) = (j == s % k) ? +1.0 : -1.0;
                outputs(s, j, 0, 0) = pv(s * k + j, 7);
            }
        tensor1d_t e0, v0;
        tensor4d_t g0;
        loss->error(targets, outputs, e0);
        loss->value(targets, outputs, v0);
        loss->vgrad(targets, outputs, g0);
        std::vector<int> ok(static_cast<size_t>(T), 0);
        run_threads(T,
                    [&](long t)
                    {
                        tensor1d_t e, v;
                        tensor4d_t g;
                        loss->value(targets, outputs, v);
                        loss->vgrad(targets, outputs, g);
                        loss->error(targets, outputs, e);
                        ok[static_cast<size_t>(t)] = same(e, e0) & same(v, v0) & same(g, g0);
                    });
        int all = 1;
        for (auto o : ok) all &= o;
        sbv_check(all, "shared loss: concurrent error / value / vgrad are bit-identical to the calls executed alone");
    }
    else if (sbv_cfg_is("mode", "solver"))
    {
        const auto solver = solver_t::all().get(cfgstr("solver", "lbfgs"));
        const auto proto  = function_t::all().get(cfgstr("fn", "sphere"));
        sbv_check(solver != nullptr && proto != nullptr, "solver and function ids are registered");
        if (!solver || !proto) return;
        solver->parameter("solver::max_evals") = sbv_cfg("evals", 30);
        const long d                           = sbv_cfg("d", 2);
        auto       start                       = [&](long t)
        {
            vector_t x0(d);
            for (long i = 0; i < d; ++i) x0(i) = pv(i, 11 + t);
            return x0;
        };
        // each thread owns its function object; the reference runs use further objects of their own
        std::vector<solver_state_t> alone;
        for (long t = 0; t < T; ++t)
        {
            const auto f = proto->make(d, 4);
            alone.push_back(solver->minimize(*f, start(t), make_null_logger()));
        }
        std::vector<rfunction_t> fs;
        for (long t = 0; t < T; ++t) fs.push_back(proto->make(d, 4));
        std::vector<int> ok(static_cast<size_t>(T), 0);
        run_threads(T,
                    [&](long t)
                    {
                        const auto  st = solver->minimize(*fs[static_cast<size_t>(t)], start(t), make_null_logger());
                        const auto& rf = alone[static_cast<size_t>(t)];
                        ok[static_cast<size_t>(t)] = (bits(st.fx()) == bits(rf.fx()) && st.status() == rf.status() && st.fcalls() == rf.fcalls() && st.gcalls() == rf.gcalls()) ? 1 : 0;
                        ok[static_cast<size_t>(t)] &= same(st.x(), rf.x());
                    });
        int all = 1;
        for (auto o : ok) all &= o;
        sbv_check(all, "shared solver: concurrent minimize() calls return bit-identical states to the calls executed alone");
    }
    else if (sbv_cfg_is("mode", "tune"))
    {
        const long folds = sbv_cfg("folds", 2), g = sbv_cfg("g", 3), dims = sbv_cfg("dims", 1);
        sbv_set_contract("udist", 1); // the random source is irrelevant here: every shuffle of the splitter draws the same values in both runs
        indices_t  samples(n);
        for (tensor_size_t i = 0; i < n; ++i) samples(i) = i;
        struct rec_t
        {
            int    calls = 0, warm = -1; // warm: -1 = no warm start given, else the id stored by the trial it came from
        };
        auto run = [&](size_t workers, std::vector<rec_t>& recs, std::vector<double>& values, tensor_size_t& optimum, tensor_size_t& trials)
        {
            g_workers   = workers;
            auto params = ml::params_t{};
            auto split  = splitter_t::all().get("k-fold");
            split->parameter("splitter::folds") = folds;
            params.splitter(*split);
            const auto expected = split->split(samples); // deterministic (fixed seed): identifies the fold of a callback call
            auto tuner = tuner_t::all().get(cfgstr("tuner", "local-search"));
            tuner->parameter("tuner::max_evals") = sbv_cfg("evals", 10);
            params.tuner(*tuner);
            param_spaces_t spaces;
            for (long d = 0; d < dims; ++d)
            {
                tensor1d_t vals(g);
                for (tensor_size_t k = 0; k < g; ++k) vals(k) = static_cast<double>(k) + 1.0;
                spaces.emplace_back(d == 0 ? "p0" : "p1", param_space_t::type::linear, vals);
            }
            recs.assign(static_cast<size_t>(g * g * folds), rec_t{});
            const ml::tune_callback_t callback = [&](const indices_t&, const indices_t& vd, tensor1d_cmap_t p, const std::any& closest, const logger_t&)
            {
                const long i0 = static_cast<long>(p(0) - 0.5), i1 = dims > 1 ? static_cast<long>(p(1) - 0.5) : 0;
                long fold = 0;
                for (size_t f = 0; f < expected.size(); ++f)
                    if (expected[f].second.size() == vd.size() && vd.size() > 0 && expected[f].second(0) == vd(0)) fold = static_cast<long>(f);
                const long id = (i0 * g + i1) * folds + fold;
                rec_t&     r  = recs[static_cast<size_t>(id)];
                r.calls++;
                r.warm = closest.has_value() ? std::any_cast<std::vector<int>>(closest)[0] : -1;
                tensor2d_t trv(2, 1), vdv(2, 1);
                trv(0, 0) = 1.0 + pv(id, 21);
                trv(1, 0) = 2.0 + pv(id, 22);
                vdv(0, 0) = 3.0 + (static_cast<double>(i0) - 2.0) * (static_cast<double>(i0) - 2.0) + 0.25 * static_cast<double>(i1) + 0.01 * static_cast<double>(fold);
                vdv(1, 0) = 4.0 + pv(id, 23);
                return std::make_tuple(trv, vdv, std::any{std::vector<int>{static_cast<int>(id), 7}});
            };
            const auto result = ml::tune("verif", samples, params, spaces, callback);
            trials            = result.trials();
            optimum           = result.optimum_trial();
            values.clear();
            for (tensor_size_t t = 0; t < trials; ++t) values.push_back(result.value(t));
        };
        std::vector<rec_t>  r1, rk;
        std::vector<double> v1, vk;
        tensor_size_t       o1 = 0, ok1 = 0, t1 = 0, tk = 0;
        run(1U, r1, v1, o1, t1);
        run(static_cast<size_t>(sbv_cfg("K", 2)), rk, vk, ok1, tk);
        int same = (t1 == tk && o1 == ok1 && v1.size() == vk.size()) ? 1 : 0;
        for (size_t i = 0; same && i < v1.size(); ++i) same &= bits(v1[i]) == bits(vk[i]) ? 1 : 0;
        sbv_check(same, "tuning with K workers stores the same trials, values and optimum as with one worker");
        int once = 1, warm = 1;
        for (size_t i = 0; i < r1.size(); ++i)
        {
            once &= (r1[i].calls <= 1 && rk[i].calls == r1[i].calls) ? 1 : 0;
            warm &= (rk[i].warm == r1[i].warm) ? 1 : 0;
        }
        sbv_check(once, "the model callback runs once per (trial, fold), for the same trials as with one worker");
        sbv_check(warm, "the warm start handed to every (trial, fold) callback does not depend on the schedule (same as with one worker)");
    }
    else
    {
        mix_source_t src(n);
        src.load();
        dataset_t ds(src, g_workers);
        ds.add<scalar_identity_generator_t>();
        ds.add<sclass_identity_generator_t>();
        indices_t samples(n);
        for (tensor_size_t i = 0; i < n; ++i) samples(i) = (i * 5 + 1) % n; // a permutation when gcd(5, n) = 1, else repetitions
        const long batch = sbv_cfg("batch", 2);

        if (sbv_cfg_is("mode", "views"))
        {
            tensor2d_t   fb0;
            tensor4d_t   tb0;
            scalar_mem_t sb0;
            sclass_mem_t cb0;
            const tensor2d_t f0 = ds.flatten(samples, fb0);
            const tensor4d_t t0 = ds.targets(samples, tb0);
            const tensor1d_t s0 = ds.select(samples, 0, sb0);
            const auto       c0 = ds.select(samples, 2, cb0);
            std::vector<int32_t> c0v(c0.begin(), c0.end());
            std::vector<int> ok(static_cast<size_t>(T), 0);
            run_threads(T,
                        [&](long t)
                        {
                            tensor2d_t   fb;
                            tensor4d_t   tb;
                            scalar_mem_t sb;
                            sclass_mem_t cb;
                            int          o = same(ds.flatten(samples, fb), f0) & same(ds.targets(samples, tb), t0) & same(ds.select(samples, 0, sb), s0);
                            const auto   c = ds.select(samples, 2, cb);
                            for (tensor_size_t i = 0; i < c.size(); ++i) o &= (c(i) == c0v[static_cast<size_t>(i)]) ? 1 : 0;
                            ok[static_cast<size_t>(t)] = o;
                        });
            int all = 1;
            for (auto o : ok) all &= o;
            sbv_check(all, "shared dataset: concurrent flatten / targets / select are bit-identical to the calls executed alone");
        }
        else if (sbv_cfg_is("mode", "iter"))
        {
            tensor2d_t       fb0;
            tensor4d_t       tb0;
            tensor2d_t       f0 = ds.flatten(samples, fb0);
            const tensor4d_t t0 = ds.targets(samples, tb0);
            for (tensor_size_t i = 0; i < f0.size(); ++i)
                if (f0(i) != f0(i)) f0(i) = 0.0; // the iterator hands out missing values as zeros
            auto             it = flatten_iterator_t(ds, samples);
            it.batch(batch);
            it.scaling(scaling_type::none);
            if (sbv_cfg("cache", 0)) it.cache_flatten(1 << 20), it.cache_targets(1 << 20);
            tensor2d_t fl(f0.dims());
            tensor4d_t tg(t0.dims());
            fl.full(-77.0);
            tg.full(-77.0);
            std::vector<int> badtnum(1, 0);
            it.loop(
                [&](tensor_range_t range, size_t tnum, tensor2d_cmap_t flatten, tensor4d_cmap_t targets)
                {
                    if (tnum >= g_workers) badtnum[0] = 1;
                    for (tensor_size_t i = range.begin(); i < range.end(); ++i)
                    {
                        for (tensor_size_t c = 0; c < flatten.cols(); ++c) fl(i, c) = flatten(i - range.begin(), c);
                        for (tensor_size_t c = 0; c < targets.size<1>(); ++c) tg(i, c, 0, 0) = targets(i - range.begin(), c, 0, 0);
                    }
                });
            sbv_check(same(fl, f0) & same(tg, t0), "flatten iterator over the pool's workers delivers every sample's flatten values and targets");
            sbv_check(badtnum[0] == 0, "worker ids are below the pool size");
            // per-feature loop
            auto             sit = select_iterator_t(ds);
            scalar_mem_t     sb0;
            const tensor1d_t s0 = ds.select(samples, 0, sb0), s1 = ds.select(samples, 1, sb0);
            tensor2d_t       got(2, n);
            got.full(-77.0);
            sit.loop(samples,
                     [&](tensor_size_t feature, size_t, scalar_cmap_t values)
                     {
                         if (feature < 2)
                             for (tensor_size_t i = 0; i < values.size(); ++i) got(feature, i) = values(i);
                     });
            sbv_check(same(got.tensor(0), s0) & same(got.tensor(1), s1), "select iterator over the pool's workers delivers every feature's values");
        }
        else if (sbv_cfg_is("mode", "linear"))
        {
            const auto loss = loss_t::all().get(cfgstr("loss", "mse"));
            auto       it   = flatten_iterator_t(ds, samples);
            it.batch(batch);
            it.scaling(scaling_type::none);
            const auto       fun = linear::function_t(it, *loss, 0.1, 0.2);
            vector_t         x(fun.size()), g1(fun.size()), g2(fun.size());
            for (tensor_size_t i = 0; i < x.size(); ++i) x(i) = pv(i, 5);
            const auto v1 = fun.vgrad(x, g1);
            const auto v2 = fun.vgrad(x, g2);
            const auto v3 = fun.vgrad(x);
            // a second iterator with one batch = one task: same sum in a different association
            auto it1 = flatten_iterator_t(ds, samples);
            it1.batch(n);
            it1.scaling(scaling_type::none);
            const auto fun1 = linear::function_t(it1, *loss, 0.1, 0.2);
            vector_t   g0(fun.size());
            const auto v0  = fun1.vgrad(x, g0);
            auto       tol = [](double a, double b) { return (a - b <= 1e-9 * (1 + (b < 0 ? -b : b)) && b - a <= 1e-9 * (1 + (b < 0 ? -b : b))) ? 1 : 0; };
            int        ok  = tol(v1, v0) & tol(v2, v0) & tol(v3, v0);
            for (tensor_size_t i = 0; i < x.size(); ++i) ok &= tol(g1(i), g0(i)) & tol(g2(i), g0(i));
            sbv_check(ok, "linear objective over the pool's workers = the single-batch evaluation (1e-9 relative)");
        }
        else if (sbv_cfg_is("mode", "gboost"))
        {
            const auto loss = loss_t::all().get(cfgstr("loss", "mse"));
            auto       it   = targets_iterator_t(ds, samples);
            it.batch(batch);
            it.scaling(scaling_type::none);
            auto it1 = targets_iterator_t(ds, samples);
            it1.batch(n);
            it1.scaling(scaling_type::none);
            auto tol = [](double a, double b) { return (a - b <= 1e-9 * (1 + (b < 0 ? -b : b)) && b - a <= 1e-9 * (1 + (b < 0 ? -b : b))) ? 1 : 0; };
            {
                const auto fun = gboost::bias_function_t(it, *loss), fun1 = gboost::bias_function_t(it1, *loss);
                vector_t   x(fun.size()), g(fun.size()), g0(fun.size());
                for (tensor_size_t i = 0; i < x.size(); ++i) x(i) = pv(i, 6);
                const auto v = fun.vgrad(x, g), v0 = fun1.vgrad(x, g0);
                int        ok = tol(v, v0);
                for (tensor_size_t i = 0; i < x.size(); ++i) ok &= tol(g(i), g0(i));
                sbv_check(ok, "gboost bias objective over the pool's workers = the single-batch evaluation (1e-9 relative)");
            }
            {
                const auto fun = gboost::grads_function_t(it, *loss), fun1 = gboost::grads_function_t(it1, *loss);
                tensor4d_t outputs(n, 1, 1, 1);
                for (long i = 0; i < n; ++i) outputs(i) = pv(i, 8);
                const auto& gr  = fun.gradients(outputs);
                const auto& gr1 = fun1.gradients(outputs);
                sbv_check(same(gr, gr1), "gboost per-sample gradients over the pool's workers = the single-batch evaluation (bit-identical)");
            }
            {
                cluster_t cluster(n, 2);
                for (long i = 0; i < n; ++i)
                    if (i % 3 != 2) cluster.assign(samples(i), i % 3);
                tensor4d_t so(n, 1, 1, 1), wo(n, 1, 1, 1);
                for (long i = 0; i < n; ++i) so(i) = pv(i, 9), wo(i) = pv(i, 10);
                const auto fun = gboost::scale_function_t(it, *loss, cluster, so, wo), fun1 = gboost::scale_function_t(it1, *loss, cluster, so, wo);
                vector_t   x(fun.size()), g(fun.size()), g0(fun.size());
                for (tensor_size_t i = 0; i < x.size(); ++i) x(i) = 0.5 + pv(i, 4);
                const auto v = fun.vgrad(x, g), v0 = fun1.vgrad(x, g0);
                int        ok = tol(v, v0);
                for (tensor_size_t i = 0; i < x.size(); ++i) ok &= tol(g(i), g0(i));
                sbv_check(ok, "gboost scale objective over the pool's workers = the single-batch evaluation (1e-9 relative)");
            }
        }
        else if (sbv_cfg_is("mode", "fit"))
        {
            sbv_set_contract("udist", 1);
            const auto loss = loss_t::all().get(cfgstr("loss", "mse"));
            indices_t  sorted(n);
            for (tensor_size_t i = 0; i < n; ++i) sorted(i) = i;
            auto run = [&](size_t workers, tensor2d_t& weights, tensor1d_t& bias, std::vector<double>& stats)
            {
                g_workers = workers;
                dataset_t dsw(src, workers);
                dsw.add<scalar_identity_generator_t>();
                dsw.add<sclass_identity_generator_t>();
                if (sbv_cfg_is("model", "gboost"))
                {
                    // gradient boosting: bias, gradients, weak-learner selection over the dataset pool, scaling, early stopping
                    auto model = gboost_model_t{};
                    rwlearners_t protos;
                    protos.push_back(std::make_unique<affine_wlearner_t>());
                    protos.push_back(std::make_unique<stump_wlearner_t>());
                    protos.push_back(std::make_unique<dense_table_wlearner_t>());
                    model.prototypes(std::move(protos));
                    model.parameter("gboost::batch")      = batch < 10 ? 10 : batch;
                    model.parameter("gboost::max_rounds") = 10;
                    model.parameter("gboost::patience")   = sbv_cfg("patience", 1);
                    model.parameter("gboost::epsilon")    = 1e-3;
                    auto params = ml::params_t{};
                    auto split  = splitter_t::all().get("k-fold");
                    split->parameter("splitter::folds") = sbv_cfg("folds", 2);
                    params.splitter(*split);
                    auto solver = solver_t::all().get("lbfgs");
                    solver->parameter("solver::max_evals") = sbv_cfg("evals", 12);
                    params.solver(*solver);
                    const auto result = model.fit(dsw, sorted, *loss, params);
                    const auto pred   = model.predict(dsw, sorted);
                    weights.resize(1, pred.size());
                    for (tensor_size_t i = 0; i < pred.size(); ++i) weights(0, i) = pred(i);
                    bias = model.bias();
                    stats.clear();
                    for (tensor_size_t t = 0; t < result.trials(); ++t) stats.push_back(result.value(t));
                    stats.push_back(static_cast<double>(model.wlearners().size()));
                    return;
                }
                auto model = linear_t::all().get(cfgstr("model", "ordinary"));
                model->parameter("linear::batch") = batch < 10 ? 10 : batch;
                auto params = ml::params_t{};
                auto split  = splitter_t::all().get("k-fold");
                split->parameter("splitter::folds") = sbv_cfg("folds", 2);
                params.splitter(*split);
                auto solver = solver_t::all().get("lbfgs");
                solver->parameter("solver::max_evals") = sbv_cfg("evals", 12);
                params.solver(*solver);
                auto tuner = tuner_t::all().get("local-search");
                tuner->parameter("tuner::max_evals") = 10;
                params.tuner(*tuner);
                const auto result = model->fit(dsw, sorted, *loss, params);
                weights           = model->weights();
                bias              = model->bias();
                stats.clear();
                for (tensor_size_t t = 0; t < result.trials(); ++t) stats.push_back(result.value(t));
                stats.push_back(static_cast<double>(result.optimum_trial()));
            };
            tensor2d_t          w1, wk;
            tensor1d_t          b1, bk;
            std::vector<double> s1, sk;
            run(1U, w1, b1, s1);
            run(static_cast<size_t>(sbv_cfg("K", 2)), wk, bk, sk);
            // several batches per loop are summed per worker and then reduced: which worker took which batch changes the association of
            // the floating-point sums, so the comparison is the property's own ("up to floating-point re-association ... within 1e-5
            // relative"), not bit for bit
            auto close = [](double a, double b) { const double m = (b < 0 ? -b : b); return (a - b <= 1e-5 * (1.0 + m) && b - a <= 1e-5 * (1.0 + m)) ? 1 : 0; };
            int  ok    = (s1.size() == sk.size() && w1.size() == wk.size() && b1.size() == bk.size()) ? 1 : 0;
            for (tensor_size_t i = 0; ok && i < w1.size(); ++i) ok &= close(wk(i), w1(i));
            for (tensor_size_t i = 0; ok && i < b1.size(); ++i) ok &= close(bk(i), b1(i));
            for (size_t i = 0; ok && i < s1.size(); ++i) ok &= close(sk[i], s1[i]);
            sbv_check(ok, "fit() with K workers (tuning pool and dataset pool) = fit() with one worker up to floating-point re-association (1e-5 relative): fitted model (weights / predictions, bias), per-trial values, optimum");
        }
        else if (sbv_cfg_is("mode", "wlearner"))
        {
            auto wl = wlearner_t::all().get(cfgstr("wl", "stump"));
            sbv_check(wl != nullptr, "weak learner id is registered");
            if (!wl) return;
            tensor4d_t grads(n, 1, 1, 1);
            for (long i = 0; i < n; ++i) grads(i) = 0.125 * pv(i, 12) + 3.0 * static_cast<double>((i / 2) % 2); // mostly explained by feature c2
            indices_t sorted(n);
            for (tensor_size_t i = 0; i < n; ++i) sorted(i) = i;
            const auto score = wl->fit(ds, sorted, grads);
            // the same fit on a dataset without worker threads
            dataset_t ds1(src, 1U);
            ds1.add<scalar_identity_generator_t>();
            ds1.add<sclass_identity_generator_t>();
            auto       wl1    = wlearner_t::all().get(cfgstr("wl", "stump"));
            const auto score1 = wl1->fit(ds1, sorted, grads);
            sbv_check(bits(score) == bits(score1), "weak learner fitted over the pool's workers: same score as with one worker");
            tensor4d_t o0(n, 1, 1, 1);
            o0.zero();
            if (score < 1e300) wl1->predict(ds1, sorted, o0.tensor());
            std::vector<int> ok(static_cast<size_t>(T), 0);
            run_threads(T,
                        [&](long t)
                        {
                            tensor4d_t o(n, 1, 1, 1);
                            o.zero();
                            if (score < 1e300) wl->predict(ds, sorted, o.tensor());
                            ok[static_cast<size_t>(t)] = same(o, o0);
                        });
            int all = 1;
            for (auto o : ok) all &= o;
            sbv_check(all, "shared fitted weak learner: concurrent predictions are bit-identical to those of the learner fitted with one worker");
        }
    }
    sbv_reach("end of harness");
}
