// C15 (weak learners): serialization of the FITTED STATE of every weak learner kind through real std::ostream / std::istream
// objects. The learner is taken from the factory and its fitted state is installed directly with SYMBOLIC contents (any feature
// index, any double threshold / table coefficients - bit patterns of finite doubles -, any hinge type, any tree node fields, any
// label hashes); then write -> read into a second object of the same kind that holds ANOTHER fitted state:
//   the reader succeeds; every field of the fitted state is read back BIT-IDENTICALLY (so predictions are identical);
//   every strict prefix of the written stream is rejected (exception or failed stream).
// config: wl=<affine|stump|hinge|dense-table|dstep-table|kbest-table|dtree>;step=<prefix step>;nodes=<tree nodes>
#include "sbv.h"
#include <cstring>
#include <istream>
#include <nano/wlearner.h>
#include <nano/wlearner/affine.h>
#include <nano/wlearner/dtree.h>
#include <nano/wlearner/hinge.h>
#include <nano/wlearner/stump.h>
#include <nano/wlearner/table.h>
#include <ostream>
#include <streambuf>

using namespace nano;

namespace
{
struct imembuf final : std::streambuf
{
    imembuf(char* b, char* e) { setg(b, b, e); }
};
struct omembuf final : std::streambuf
{
    omembuf(char* b, char* e) { setp(b, e); }
    std::ptrdiff_t written() const { return pptr() - pbase(); }
};
constexpr int    MAXBUF = 16384;
alignas(16) char buf[MAXBUF];

double sym_double(const char* name)
{
    double v;
    sbv_make_symbolic(&v, sizeof(v), name);
    sbv_assume(v >= -1e300 && v <= 1e300); // any finite double (excludes NaN)
    return v;
}
uint64_t bits(double d)
{
    uint64_t u;
    std::memcpy(&u, &d, 8);
    return u;
}
int same_tensor(const tensor4d_t& a, const tensor4d_t& b)
{
    int ok = (a.dims() == b.dims()) ? 1 : 0;
    if (!ok) return 0;
    for (tensor_size_t i = 0; i < a.size(); ++i) ok &= (bits(a(i)) == bits(b(i))) ? 1 : 0;
    return ok;
}
tensor4d_t sym_tables(tensor_size_t rows, const char* name)
{
    tensor4d_t t(rows, 2, 1, 1);
    for (tensor_size_t i = 0; i < t.size(); ++i) t(i) = sym_double(name);
    return t;
}
tensor4d_t other_tables(tensor_size_t rows)
{
    tensor4d_t t(rows, 1, 1, 1);
    for (tensor_size_t i = 0; i < t.size(); ++i) t(i) = 0.5 + static_cast<double>(i);
    return t;
}

template <class tlearner>
long write_learner(const tlearner& wl)
{
    omembuf      ob(buf, buf + MAXBUF);
    std::ostream os(&ob);
    bool         thrown = false;
    try
    {
        wl.write(os);
    }
    catch (...)
    {
        thrown = true;
    }
    sbv_check(!thrown && !os.fail(), "writer: succeeds");
    return static_cast<long>(ob.written());
}
template <class tlearner>
bool read_fails(tlearner& wl, long len)
{
    imembuf      ib(buf, buf + len);
    std::istream is(&ib);
    try
    {
        wl.read(is);
    }
    catch (...)
    {
        return true;
    }
    return is.fail();
}
void check_prefixes(const wlearner_t& proto, long total)
{
    const long step = sbv_cfg("step", 8);
    for (long p = 0; p < total; p += step)
    {
        auto q = proto.clone();
        sbv_check(read_fails(*q, p), "strict prefix of a valid weak learner stream: reader reports failure");
    }
    {
        auto q = proto.clone();
        sbv_check(read_fails(*q, total - 1), "stream without its last byte: reader reports failure");
    }
}
} // namespace

extern "C" void sbv_harness(const char*)
{
    if (sbv_cfg_is("wl", "affine"))
    {
        affine_wlearner_t a, b;
        a.m_feature = sbv_range("feature", -1, 1000000);
        a.m_tables  = sym_tables(2, "coef");
        b.m_feature = 7;
        b.m_tables  = other_tables(3);
        const long total = write_learner(a);
        sbv_check(!read_fails(b, total), "round trip: reader succeeds on the writer's output");
        sbv_check(b.m_feature == a.m_feature && same_tensor(a.m_tables, b.m_tables), "round trip: feature and coefficients are read back bit-identically");
        check_prefixes(a, total);
    }
    else if (sbv_cfg_is("wl", "stump"))
    {
        stump_wlearner_t a, b;
        a.m_feature   = sbv_range("feature", -1, 1000000);
        a.m_tables    = sym_tables(2, "coef");
        a.m_threshold = sym_double("threshold");
        b.m_feature   = 7;
        b.m_tables    = other_tables(3);
        b.m_threshold = 0.25;
        const long total = write_learner(a);
        sbv_check(!read_fails(b, total), "round trip: reader succeeds on the writer's output");
        sbv_check(b.m_feature == a.m_feature && same_tensor(a.m_tables, b.m_tables), "round trip: feature and coefficients are read back bit-identically");
        sbv_check(bits(b.m_threshold) == bits(a.m_threshold), "round trip: the threshold is read back bit-identically");
        check_prefixes(a, total);
    }
    else if (sbv_cfg_is("wl", "hinge"))
    {
        hinge_wlearner_t a, b;
        a.m_feature   = sbv_range("feature", -1, 1000000);
        a.m_tables    = sym_tables(2, "coef");
        a.m_threshold = sym_double("threshold");
        a.m_hinge     = sbv_range("hinge", 0, 1) != 0 ? hinge_type::right : hinge_type::left;
        b.m_feature   = 7;
        b.m_tables    = other_tables(3);
        b.m_threshold = 0.25;
        b.m_hinge     = hinge_type::left;
        const long total = write_learner(a);
        sbv_check(!read_fails(b, total), "round trip: reader succeeds on the writer's output");
        sbv_check(b.m_feature == a.m_feature && same_tensor(a.m_tables, b.m_tables), "round trip: feature and coefficients are read back bit-identically");
        sbv_check(bits(b.m_threshold) == bits(a.m_threshold) && b.m_hinge == a.m_hinge, "round trip: threshold and hinge type are read back bit-identically");
        check_prefixes(a, total);
    }
    else if (sbv_cfg_is("wl", "dense-table") || sbv_cfg_is("wl", "dstep-table") || sbv_cfg_is("wl", "kbest-table"))
    {
        auto pa = wlearner_t::all().get(sbv_cfg_is("wl", "dense-table") ? "dense-table" : sbv_cfg_is("wl", "dstep-table") ? "dstep-table" : "kbest-table");
        auto pb = pa->clone();
        auto& a = dynamic_cast<table_wlearner_t&>(*pa);
        auto& b = dynamic_cast<table_wlearner_t&>(*pb);
        a.m_feature = sbv_range("feature", -1, 1000000);
        a.m_tables  = sym_tables(2, "coef");
        a.m_hashes.resize(2);
        for (tensor_size_t i = 0; i < a.m_hashes.size(); ++i) a.m_hashes(i) = sbv_u64("hash");
        a.m_hash2tables.resize(2);
        for (tensor_size_t i = 0; i < a.m_hash2tables.size(); ++i) a.m_hash2tables(i) = sbv_range("h2t", -1, 5);
        b.m_feature = 7;
        b.m_tables  = other_tables(3);
        b.m_hashes.resize(1);
        b.m_hashes(0) = 12345U;
        b.m_hash2tables.resize(3);
        b.m_hash2tables.full(0);
        const long total = write_learner(a);
        sbv_check(!read_fails(b, total), "round trip: reader succeeds on the writer's output");
        sbv_check(b.m_feature == a.m_feature && same_tensor(a.m_tables, b.m_tables), "round trip: feature and coefficients are read back bit-identically");
        int ok = (a.m_hashes.size() == b.m_hashes.size() && a.m_hash2tables.size() == b.m_hash2tables.size()) ? 1 : 0;
        if (ok)
        {
            for (tensor_size_t i = 0; i < a.m_hashes.size(); ++i) ok &= (a.m_hashes(i) == b.m_hashes(i)) ? 1 : 0;
            for (tensor_size_t i = 0; i < a.m_hash2tables.size(); ++i) ok &= (a.m_hash2tables(i) == b.m_hash2tables(i)) ? 1 : 0;
        }
        sbv_check(ok, "round trip: label hashes and the hash -> table map are read back identically");
        check_prefixes(a, total);
    }
    else
    {
        const long       n = sbv_cfg("nodes", 2);
        dtree_wlearner_t a, b;
        for (long i = 0; i < n; ++i)
        {
            dtree_node_t node;
            node.m_feature   = sbv_range("feature", -1, 1000000);
            node.m_threshold = sym_double("threshold");
            node.m_next      = static_cast<size_t>(sbv_range("next", 0, 1000000));
            node.m_table     = sbv_range("table", -1, 1000000);
            a.m_nodes.push_back(node);
        }
        a.m_tables = sym_tables(2, "coef");
        a.m_features.resize(2);
        for (tensor_size_t i = 0; i < 2; ++i) a.m_features(i) = sbv_range("sel", 0, 1000000);
        b.m_nodes.resize(3);
        b.m_tables = other_tables(3);
        b.m_features.resize(1);
        b.m_features(0)  = 3;
        const long total = write_learner(a);
        sbv_check(!read_fails(b, total), "round trip: reader succeeds on the writer's output");
        int ok = (static_cast<long>(b.m_nodes.size()) == n) ? 1 : 0;
        if (ok)
            for (long i = 0; i < n; ++i)
            {
                const auto& x = a.m_nodes[static_cast<size_t>(i)];
                const auto& y = b.m_nodes[static_cast<size_t>(i)];
                ok &= (x.m_feature == y.m_feature && bits(x.m_threshold) == bits(y.m_threshold) && x.m_next == y.m_next && x.m_table == y.m_table) ? 1 : 0;
            }
        sbv_check(ok, "round trip: every tree node (feature, threshold, next, table) is read back bit-identically");
        int okf = (b.m_features.size() == a.m_features.size()) ? 1 : 0;
        if (okf)
            for (tensor_size_t i = 0; i < a.m_features.size(); ++i) okf &= (a.m_features(i) == b.m_features(i)) ? 1 : 0;
        sbv_check(okf && same_tensor(a.m_tables, b.m_tables), "round trip: selected features and leaf tables are read back bit-identically");
        check_prefixes(a, total);
    }
    sbv_reach("end of harness");
}
