// C16 (allocating / owning-storage clauses, rank 5): executed symbolically from the real headers.
//  mode=indexed   : index-gather copies exactly the sub-tensors named by a symbolic index list (incl. scalar conversion)
//  mode=removeif  : remove_if compacts the un-flagged sub-tensors in order, for every flag pattern, several tensors at once
//  mode=stack     : stack() lays blocks out row-major without gaps
//  mode=storage   : owning -> mapping -> constant mapping -> owning conversions keep shape and contents; copies are deep
//  mode=rank5     : rank-5 offset = row-major bijection; partial-index views, slices and reshape alias the right elements
#include "sbv.h"
#include <utility>
#include <nano/tensor/algorithm.h>
#include <nano/tensor/stack.h>
#include <nano/tensor/tensor.h>

using namespace nano;

namespace
{
template <class ttensor>
void fill_symbolic(ttensor& t, const char* name)
{
    using T = std::remove_reference_t<decltype(*t.data())>;
    for (tensor_size_t i = 0; i < t.size(); ++i)
    {
        T v;
        sbv_make_symbolic(&v, sizeof(T), name);
        t.data()[i] = v;
    }
}

void mode_indexed()
{
    const auto d0 = sbv_cfg("d0", 3), d1 = sbv_cfg("d1", 2), d2 = sbv_cfg("d2", 2), k = sbv_cfg("k", 3);
    const auto rank = sbv_cfg("rank", 2);
    indices_t  idx(k);
    for (tensor_size_t i = 0; i < k; ++i) idx(i) = sbv_range("idx", 0, d0 - 1);
    if (rank == 1)
    {
        tensor_mem_t<int32_t, 1> src(d0);
        fill_symbolic(src, "x");
        const auto sub = src.indexed<int64_t>(idx);
        sbv_check(sub.size() == k, "indexed: result has one entry per index");
        int ok = 1;
        for (tensor_size_t i = 0; i < k; ++i)
            for (tensor_size_t s = 0; s < d0; ++s) ok &= (idx(i) != s || sub(i) == static_cast<int64_t>(src(s))) ? 1 : 0;
        sbv_check(ok, "indexed: rank 1, element i is the (converted) element idx(i) of the source");
    }
    else if (rank == 2)
    {
        tensor_mem_t<int32_t, 2> src(d0, d1);
        fill_symbolic(src, "x");
        const auto sub = src.indexed(idx);
        sbv_check(sub.size<0>() == k && sub.size<1>() == d1, "indexed: result dims = (#indices, remaining dims)");
        int ok = 1;
        for (tensor_size_t i = 0; i < k; ++i)
            for (tensor_size_t s = 0; s < d0; ++s)
                for (tensor_size_t j = 0; j < d1; ++j) ok &= (idx(i) != s || sub(i, j) == src(s, j)) ? 1 : 0;
        sbv_check(ok, "indexed: rank 2, row i is row idx(i) of the source");
        // the caller-provided buffer is re-used for a gather of a different shape (also: same element count, different shape)
        {
            tensor_mem_t<int32_t, 2> buf;
            src.indexed(idx, buf);
            const auto d1b = sbv_cfg("d1b", 3), k2 = sbv_cfg("k2", 2);
            tensor_mem_t<int32_t, 2> src2(d0, d1b);
            fill_symbolic(src2, "y");
            indices_t idx2(k2);
            for (tensor_size_t i = 0; i < k2; ++i) idx2(i) = sbv_range("idx2", 0, d0 - 1);
            src2.indexed(idx2, buf);
            int ok2 = (buf.size<0>() == k2 && buf.size<1>() == d1b) ? 1 : 0;
            sbv_check(ok2, "indexed into a re-used buffer: result dims = (#indices, remaining dims)");
            if (ok2)
            {
                int same = 1;
                for (tensor_size_t i = 0; i < k2; ++i)
                    for (tensor_size_t s = 0; s < d0; ++s)
                        for (tensor_size_t j = 0; j < d1b; ++j) same &= (idx2(i) != s || buf(i, j) == src2(s, j)) ? 1 : 0;
                sbv_check(same, "indexed into a re-used buffer: row i is row idx(i) of the source");
            }
        }
    }
    else
    {
        tensor_mem_t<int16_t, 3> src(d0, d1, d2);
        fill_symbolic(src, "x");
        tensor_mem_t<int16_t, 3> sub;
        {
            // the buffer has been used before (empty index list on the same source): dims must follow the new request
            indices_t none(0);
            src.indexed(none, sub);
            sbv_check(sub.size<0>() == 0 && sub.size<1>() == d1 && sub.size<2>() == d2, "indexed with an empty index list: dims = (0, remaining dims)");
        }
        src.indexed(idx, sub);
        sbv_check(sub.size<0>() == k && sub.size<1>() == d1 && sub.size<2>() == d2, "indexed: result dims = (#indices, remaining dims)");
        int ok = 1;
        for (tensor_size_t i = 0; i < k; ++i)
            for (tensor_size_t s = 0; s < d0; ++s)
                for (tensor_size_t j = 0; j < d1; ++j)
                    for (tensor_size_t l = 0; l < d2; ++l) ok &= (idx(i) != s || sub(i, j, l) == src(s, j, l)) ? 1 : 0;
        sbv_check(ok, "indexed: rank 3, sub-tensor i is sub-tensor idx(i) of the source");
    }
}

void mode_removeif()
{
    const auto n = sbv_cfg("n", 4), d1 = sbv_cfg("d1", 2);
    tensor_mem_t<int32_t, 1> a(n);
    tensor_mem_t<int8_t, 2>  b(n, d1);
    fill_symbolic(a, "a");
    fill_symbolic(b, "b");
    const auto a0 = a;
    const auto b0 = b;
    const auto flags = sbv_range("flags", 0, (1 << n) - 1);
    const auto op    = [&](const tensor_size_t i) { return ((flags >> i) & 1) != 0; };
    const auto kept  = remove_if(op, a, b);
    // reference: order-preserving filter
    tensor_size_t expected = 0;
    int           ok       = 1;
    for (tensor_size_t i = 0; i < n; ++i)
    {
        if (((flags >> i) & 1) == 0)
        {
            // by construction `expected` is concrete on each path (flags are branched on by remove_if itself)
            if (expected < kept)
            {
                ok &= (a(expected) == a0(i)) ? 1 : 0;
                for (tensor_size_t j = 0; j < d1; ++j) ok &= (b(expected, j) == b0(i, j)) ? 1 : 0;
            }
            ++expected;
        }
    }
    sbv_check(kept == expected, "remove_if: returns the number of sub-tensors that are not flagged");
    sbv_check(ok, "remove_if: the kept sub-tensors are compacted at the front in their original order, in every tensor");
}

void mode_stack()
{
    const auto r1 = sbv_cfg("r1", 2), r2 = sbv_cfg("r2", 1), c1 = sbv_cfg("c1", 2), c2 = sbv_cfg("c2", 1);
    tensor_mem_t<int64_t, 2> m1(r1, c1), m2(r1, c2), m3(r2, c1), m4(r2, c2);
    tensor_mem_t<int64_t, 1> v(c1 + c2);
    fill_symbolic(m1, "m1");
    fill_symbolic(m2, "m2");
    fill_symbolic(m3, "m3");
    fill_symbolic(m4, "m4");
    fill_symbolic(v, "v");
    const auto s = stack<int64_t>(r1 + r2 + 1, c1 + c2, m1, m2, m3, m4, v.vector().transpose());
    sbv_check(s.rows() == r1 + r2 + 1 && s.cols() == c1 + c2, "stack: result has the requested shape");
    int ok = 1;
    for (tensor_size_t r = 0; r < r1; ++r)
    {
        for (tensor_size_t c = 0; c < c1; ++c) ok &= (s(r, c) == m1(r, c)) ? 1 : 0;
        for (tensor_size_t c = 0; c < c2; ++c) ok &= (s(r, c1 + c) == m2(r, c)) ? 1 : 0;
    }
    for (tensor_size_t r = 0; r < r2; ++r)
    {
        for (tensor_size_t c = 0; c < c1; ++c) ok &= (s(r1 + r, c) == m3(r, c)) ? 1 : 0;
        for (tensor_size_t c = 0; c < c2; ++c) ok &= (s(r1 + r, c1 + c) == m4(r, c)) ? 1 : 0;
    }
    for (tensor_size_t c = 0; c < c1 + c2; ++c) ok &= (s(r1 + r2, c) == v(c)) ? 1 : 0;
    sbv_check(ok, "stack: every block lands at its row-major position, nothing else is written");
    const auto sv = stack<int64_t>(m1.size() + v.size(), m1.reshape(-1).vector(), v.vector());
    int        okv = sv.size() == m1.size() + v.size() ? 1 : 0;
    for (tensor_size_t i = 0; i < m1.size(); ++i) okv &= (sv(i) == m1.data()[i]) ? 1 : 0;
    for (tensor_size_t i = 0; i < v.size(); ++i) okv &= (sv(m1.size() + i) == v(i)) ? 1 : 0;
    sbv_check(okv, "stack (vectors): segments are concatenated in order");
}

void mode_storage()
{
    const auto d0 = sbv_cfg("d0", 2), d1 = sbv_cfg("d1", 3);
    tensor_mem_t<int32_t, 2> a(d0, d1);
    fill_symbolic(a, "a");
    tensor_map_t<int32_t, 2>  m  = a.tensor();
    tensor_cmap_t<int32_t, 2> cm = m;
    tensor_mem_t<int32_t, 2>  b  = cm; // deep copy from a constant mapping
    tensor_mem_t<int32_t, 2>  c;
    c = m; // assignment from a mapping
    sbv_check(m.data() == a.data() && cm.data() == a.data(), "storage: mappings alias the owning tensor's buffer");
    sbv_check(b.data() != a.data() && c.data() != a.data(), "storage: owning copies have their own buffer");
    int ok = (b.dims() == a.dims() && c.dims() == a.dims() && m.dims() == a.dims() && cm.dims() == a.dims()) ? 1 : 0;
    for (tensor_size_t i = 0; i < d0; ++i)
        for (tensor_size_t j = 0; j < d1; ++j) ok &= (m(i, j) == a(i, j) && cm(i, j) == a(i, j) && b(i, j) == a(i, j) && c(i, j) == a(i, j)) ? 1 : 0;
    sbv_check(ok, "storage: owning -> mapping -> constant mapping -> owning conversions keep shape and contents");
    // writes through the mapping reach the owner, not the copies
    int32_t w;
    sbv_make_symbolic(&w, sizeof(w), "w");
    const auto i = sbv_range("wi", 0, d0 - 1), j = sbv_range("wj", 0, d1 - 1);
    const auto old_b = b(i, j);
    m(i, j) = w;
    sbv_check(a(i, j) == w, "storage: a write through the mapping is seen by the owner");
    sbv_check(b(i, j) == old_b, "storage: a write through the mapping does not reach a deep copy");
    // assignment from a view of the tensor itself (the source aliases the destination's buffer): slices of different size
    {
        tensor_mem_t<int32_t, 2> s1 = a, s2 = a, s3 = a;
        const auto               e  = sbv_cfg("e", d0 > 1 ? d0 - 1 : 0);
        s1 = s1.slice(0, e);                 // from a mutable mapping of itself
        s2 = std::as_const(s2).slice(0, e);  // from a constant mapping of itself
        s3 = s3.tensor();                    // from a full mapping of itself
        int okv = (s1.size<0>() == e && s1.size<1>() == d1 && s2.size<0>() == e && s2.size<1>() == d1 && s3.dims() == a.dims()) ? 1 : 0;
        sbv_check(okv, "storage: assigning a view of the tensor to the tensor itself yields the view's shape");
        if (okv)
        {
            int same = 1;
            for (tensor_size_t r = 0; r < e; ++r)
                for (tensor_size_t c2 = 0; c2 < d1; ++c2) same &= (s1(r, c2) == a(r, c2) && s2(r, c2) == a(r, c2)) ? 1 : 0;
            for (tensor_size_t r = 0; r < d0; ++r)
                for (tensor_size_t c2 = 0; c2 < d1; ++c2) same &= (s3(r, c2) == a(r, c2)) ? 1 : 0;
            sbv_check(same, "storage: assigning a (mutable or constant) view of the tensor to the tensor itself keeps the viewed contents");
        }
    }
    // move keeps the buffer
    const auto* pa = a.data();
    tensor_mem_t<int32_t, 2> mv = std::move(a);
    sbv_check(mv.data() == pa && mv.size<0>() == d0 && mv.size<1>() == d1, "storage: move construction keeps buffer and shape");
}

void mode_rank5()
{
    const auto hi = sbv_cfg("dmax", 3);
    const auto d0 = sbv_cfg("d0", 2), d1 = sbv_cfg("d1", 3), d2 = sbv_cfg("d2", 2), d3 = sbv_cfg("d3", 2), d4 = sbv_cfg("d4", 3);
    (void)hi;
    tensor_mem_t<int8_t, 5> t(d0, d1, d2, d3, d4);
    const auto i0 = sbv_range("i0", 0, d0 - 1), i1 = sbv_range("i1", 0, d1 - 1), i2 = sbv_range("i2", 0, d2 - 1), i3 = sbv_range("i3", 0, d3 - 1),
               i4 = sbv_range("i4", 0, d4 - 1);
    const auto off = (((i0 * d1 + i1) * d2 + i2) * d3 + i3) * d4 + i4;
    sbv_check(&t(i0, i1, i2, i3, i4) == t.data() + off, "rank 5: operator() addresses the row-major offset");
    sbv_check(off >= 0 && off < t.size(), "rank 5: the offset of a valid index tuple lies in [0, size)");
    const auto j0 = sbv_range("j0", 0, d0 - 1), j1 = sbv_range("j1", 0, d1 - 1), j2 = sbv_range("j2", 0, d2 - 1), j3 = sbv_range("j3", 0, d3 - 1),
               j4 = sbv_range("j4", 0, d4 - 1);
    const auto offj = (((j0 * d1 + j1) * d2 + j2) * d3 + j3) * d4 + j4;
    const int  same = (i0 == j0 && i1 == j1 && i2 == j2 && i3 == j3 && i4 == j4) ? 1 : 0;
    sbv_check((&t(i0, i1, i2, i3, i4) == &t(j0, j1, j2, j3, j4)) == (same != 0), "rank 5: distinct index tuples address distinct elements (injective)");
    (void)offj;
    // partial-index views
    auto v3 = t.tensor(i0, i1);
    sbv_check(v3.size<0>() == d2 && v3.size<1>() == d3 && v3.size<2>() == d4 && &v3(i2, i3, i4) == &t(i0, i1, i2, i3, i4), "rank 5: tensor(i0,i1) is the rank-3 sub-tensor");
    auto v1 = t.vector(i0, i1, i2, i3);
    sbv_check(v1.size() == d4 && &v1(i4) == &t(i0, i1, i2, i3, i4), "rank 5: vector(i0..i3) is the innermost row");
    auto m2 = t.matrix(i0, i1, i2);
    sbv_check(m2.rows() == d3 && m2.cols() == d4 && &m2(i3, i4) == &t(i0, i1, i2, i3, i4), "rank 5: matrix(i0,i1,i2) is the innermost matrix");
    // slice along the first axis
    const auto b = sbv_range("b", 0, d0), e = sbv_range("e", 0, d0);
    sbv_assume(b <= e);
    auto s = t.slice(b, e);
    sbv_check(s.size<0>() == e - b && s.size<4>() == d4 && s.data() == t.data() + b * d1 * d2 * d3 * d4, "rank 5: slice [b,e) aliases the sub-tensors b..e-1");
    // reshape with one inferred dimension
    auto r = t.reshape(d0 * d1, -1, d4);
    sbv_check(r.size<0>() == d0 * d1 && r.size<1>() == d2 * d3 && r.size<2>() == d4 && &r(i0 * d1 + i1, i2 * d3 + i3, i4) == &t(i0, i1, i2, i3, i4),
              "rank 5: reshape(d0*d1, -1, d4) aliases the same elements in row-major order");
}
} // namespace

extern "C" void sbv_harness(const char*)
{
    if (sbv_cfg_is("mode", "indexed")) mode_indexed();
    else if (sbv_cfg_is("mode", "removeif")) mode_removeif();
    else if (sbv_cfg_is("mode", "stack")) mode_stack();
    else if (sbv_cfg_is("mode", "storage")) mode_storage();
    else if (sbv_cfg_is("mode", "rank5")) mode_rank5();
    sbv_reach("end of harness");
}
