// C15 (parameters, strings, configurable objects): serialization through real std::ostream / std::istream objects.
//  mode=param;kind=<f|i|fp|ip|s|e> : a parameter with SYMBOLIC in-domain value(s) and bounds is written and read back: the reader
//                                    succeeds, the objects compare equal and the value is read back bit-identically;
//                                    every strict prefix of the written stream is rejected (exception or failed stream)
//  mode=config;id=<solver id>      : a registered solver (its whole parameter list, one parameter set to a symbolic in-domain value):
//                                    write/read round trip gives equal parameters; every strict prefix is rejected
//  mode=feature;kind=<s|m|r|t>;dst=<0..3> : a feature (single-label / multi-label with symbolic label characters, scalar, structured with
//                                    SYMBOLIC dims; categorical features also with non-default dims) is written and read back into a
//                                    destination that holds ANOTHER feature (dst: 0 fresh, 1 structured, 2 categorical, 3 scalar): type,
//                                    dims, name and labels are those written; every strict prefix is rejected
//  mode=string                     : nano::write/read of a string with symbolic characters; prefixes rejected
#include "sbv.h"
#include <cstring>
#include <istream>
#include <nano/configurable.h>
#include <nano/core/stream.h>
#include <nano/feature.h>
#include <nano/solver.h>
#include <ostream>
#include <streambuf>

using namespace nano;

namespace
{
struct imembuf final : std::streambuf
{
    imembuf(char* b, char* e) { setg(b, b, e); }
};
struct omembuf final : std::streambuf
{
    omembuf(char* b, char* e) { setp(b, e); }
    std::ptrdiff_t written() const { return pptr() - pbase(); }
};
constexpr int         MAXBUF = 8192;
alignas(16) char      buf[MAXBUF];

double sym_double(const char* name, double lo, double hi)
{
    double v;
    sbv_make_symbolic(&v, sizeof(v), name);
    sbv_assume(v >= lo && v <= hi); // excludes NaN
    return v;
}
uint64_t bits(double d)
{
    uint64_t u;
    std::memcpy(&u, &d, 8);
    return u;
}

template <class tobject>
long write_object(const tobject& object)
{
    omembuf      ob(buf, buf + MAXBUF);
    std::ostream os(&ob);
    bool         thrown = false;
    try
    {
        object.write(os);
    }
    catch (...)
    {
        thrown = true;
    }
    sbv_check(!thrown && !os.fail(), "writer: succeeds");
    return static_cast<long>(ob.written());
}

// reads `len` bytes of the buffer into object; returns true if the reader reported failure
template <class tobject>
bool read_fails(tobject& object, long len)
{
    imembuf      ib(buf, buf + len);
    std::istream is(&ib);
    try
    {
        object.read(is);
    }
    catch (...)
    {
        return true;
    }
    return is.fail();
}

void check_prefixes(const parameter_t& proto, long total, long step)
{
    for (long p = 0; p < total; p += step)
    {
        parameter_t q = proto;
        sbv_check(read_fails(q, p), "strict prefix of a valid parameter stream: reader reports failure");
    }
}

void mode_param()
{
    const auto  lt   = sbv_cfg("lt", 0) != 0;
    const LEorLT cmin = lt ? LEorLT{LT} : LEorLT{LE};
    const bool   ltmax = sbv_cfg("ltmax", 0) != 0;
    const LEorLT cmax = ltmax ? LEorLT{LT} : LEorLT{LE};
    const long  step = sbv_cfg("step", 1);
    parameter_t param;
    if (sbv_cfg_is("kind", "f"))
    {
        const double lo = sym_double("min", -1e6, 1e6), hi = sym_double("max", -1e6, 1e6), v = sym_double("value", -1e6, 1e6);
        sbv_assume(lt ? (lo < v) : (lo <= v));
        sbv_assume(ltmax ? (v < hi) : (v <= hi));
        param = parameter_t::make_scalar("scalar::param", lo, cmin, v, cmax, hi);
        const long total = write_object(param);
        parameter_t back = sbv_cfg("dst", 1) ? parameter_t::make_string("some::other::parameter", "old value") : parameter_t{};
        sbv_check(!read_fails(back, total), "round trip: reader succeeds on the writer's output");
        sbv_check(back == param, "round trip: parameters compare equal (name, value, domain, comparators)");
        sbv_check(bits(back.value<scalar_t>()) == bits(v), "round trip: the value is read back bit-identically");
        check_prefixes(param, total, step);
    }
    else if (sbv_cfg_is("kind", "i"))
    {
        const int64_t lo = sbv_range("min", -1000, 1000), hi = sbv_range("max", -1000, 1000), v = sbv_range("value", -1000, 1000);
        sbv_assume(lt ? (lo < v) : (lo <= v));
        sbv_assume(ltmax ? (v < hi) : (v <= hi));
        param = parameter_t::make_integer("integer::param", lo, cmin, v, cmax, hi);
        const long total = write_object(param);
        parameter_t back = sbv_cfg("dst", 1) ? parameter_t::make_string("some::other::parameter", "old value") : parameter_t{};
        sbv_check(!read_fails(back, total), "round trip: reader succeeds on the writer's output");
        sbv_check(back == param, "round trip: parameters compare equal (name, value, domain, comparators)");
        sbv_check(back.value<int64_t>() == v, "round trip: the value is read back bit-identically");
        check_prefixes(param, total, step);
    }
    else if (sbv_cfg_is("kind", "fp"))
    {
        const double lo = sym_double("min", -1e6, 1e6), hi = sym_double("max", -1e6, 1e6), v1 = sym_double("value1", -1e6, 1e6), v2 = sym_double("value2", -1e6, 1e6);
        sbv_assume(lt ? (lo < v1) : (lo <= v1));
        sbv_assume(v1 <= v2);
        sbv_assume(ltmax ? (v2 < hi) : (v2 <= hi));
        param = parameter_t::make_scalar_pair("pair::param", lo, cmin, v1, LE, v2, cmax, hi);
        const long total = write_object(param);
        parameter_t back = sbv_cfg("dst", 1) ? parameter_t::make_string("some::other::parameter", "old value") : parameter_t{};
        sbv_check(!read_fails(back, total), "round trip: reader succeeds on the writer's output");
        sbv_check(back == param, "round trip: parameters compare equal (name, value, domain, comparators)");
        const auto [b1, b2] = back.value_pair<scalar_t>();
        sbv_check(bits(b1) == bits(v1) && bits(b2) == bits(v2), "round trip: the value is read back bit-identically");
        check_prefixes(param, total, step);
    }
    else if (sbv_cfg_is("kind", "ip"))
    {
        const int64_t lo = sbv_range("min", -100, 100), hi = sbv_range("max", -100, 100), v1 = sbv_range("value1", -100, 100), v2 = sbv_range("value2", -100, 100);
        sbv_assume(lo <= v1 && v1 < v2 && v2 <= hi);
        param = parameter_t::make_integer_pair("ipair::param", lo, LE, v1, LT, v2, LE, hi);
        const long total = write_object(param);
        parameter_t back = sbv_cfg("dst", 1) ? parameter_t::make_string("some::other::parameter", "old value") : parameter_t{};
        sbv_check(!read_fails(back, total), "round trip: reader succeeds on the writer's output");
        sbv_check(back == param, "round trip: parameters compare equal (name, value, domain, comparators)");
        const auto [b1, b2] = back.value_pair<int64_t>();
        sbv_check(b1 == v1 && b2 == v2, "round trip: the value is read back bit-identically");
        check_prefixes(param, total, step);
    }
    else if (sbv_cfg_is("kind", "s"))
    {
        std::string value(static_cast<size_t>(sbv_cfg("len", 5)), 'x');
        sbv_make_symbolic(value.data(), value.size(), "chars");
        param = parameter_t::make_string("string::param", value);
        const long total = write_object(param);
        parameter_t back = sbv_cfg("dst", 1) ? parameter_t::make_string("some::other::parameter", "old value") : parameter_t{};
        sbv_check(!read_fails(back, total), "round trip: reader succeeds on the writer's output");
        const auto got = back.value<string_t>();
        int        same = got.size() == value.size() ? 1 : 0;
        for (size_t i = 0; same && i < value.size(); ++i) same &= (got[i] == value[i]) ? 1 : 0;
        sbv_check(same, "round trip: the value is read back bit-identically");
        check_prefixes(param, total, step);
    }
    else
    {
        param = parameter_t::make_enum("enum::param", solver_status::max_iters);
        const long total = write_object(param);
        parameter_t back = sbv_cfg("dst", 1) ? parameter_t::make_string("some::other::parameter", "old value") : parameter_t{};
        sbv_check(!read_fails(back, total), "round trip: reader succeeds on the writer's output");
        sbv_check(back == param, "round trip: parameters compare equal (name, value, domain, comparators)");
        sbv_check(back.value<solver_status>() == solver_status::max_iters, "round trip: the value is read back bit-identically");
        check_prefixes(param, total, step);
    }
}

void mode_config()
{
    const auto* id     = sbv_cfg_is("id", "lbfgs") ? "lbfgs" : sbv_cfg_is("id", "cgd-pr") ? "cgd-pr" : sbv_cfg_is("id", "osga") ? "osga" : "gd";
    auto        solver = solver_t::all().get(id);
    sbv_check(static_cast<bool>(solver), "factory: id registered");
    const double eps = sym_double("epsilon", 1e-15, 1e-1);
    solver->parameter("solver::epsilon") = eps;
    const long total = write_object(*solver);
    auto       back  = solver_t::all().get(id);
    sbv_check(!read_fails(*back, total), "round trip: reader succeeds on the writer's output");
    int same = back->parameters().size() == solver->parameters().size() ? 1 : 0;
    for (size_t i = 0; same && i < solver->parameters().size(); ++i) same &= (back->parameters()[i] == solver->parameters()[i]) ? 1 : 0;
    sbv_check(same, "round trip: every parameter of the configurable object compares equal");
    sbv_check(bits(back->parameter("solver::epsilon").value<scalar_t>()) == bits(eps), "round trip: the value is read back bit-identically");
    const long step = sbv_cfg("step", 7);
    for (long p = 0; p < total; p += (p < 64 ? 1 : step))
    {
        auto q = solver_t::all().get(id);
        sbv_check(read_fails(*q, p), "strict prefix of a valid configurable stream: reader reports failure");
    }
    sbv_out("total", static_cast<uint64_t>(total));
}

void mode_feature()
{
    const long d0 = sbv_range("d0", 1, 3), d1 = sbv_range("d1", 1, 3), d2 = sbv_range("d2", 1, 2);
    strings_t  labels = {"aa", "bb", "cc"};
    sbv_make_symbolic(labels[1].data(), 2, "label");
    sbv_assume(labels[1][0] != 0 && labels[1][1] != 0);
    feature_t f{"src"};
    if (sbv_cfg_is("kind", "s")) f.sclass(labels);
    else if (sbv_cfg_is("kind", "m")) f.mclass(labels);
    else if (sbv_cfg_is("kind", "r")) f.scalar(feature_type::float32);
    else f.scalar(feature_type::int16, make_dims(d0, d1, d2));
    // categorical features with non-default dims are reachable through the public setters
    if (sbv_cfg("cdims", 0) && (sbv_cfg_is("kind", "s") || sbv_cfg_is("kind", "m")))
    {
        f = feature_t{"src"}.scalar(feature_type::uint8, make_dims(d0, d1, d2));
        if (sbv_cfg_is("kind", "s")) f.sclass(labels);
        else f.mclass(labels);
    }
    omembuf      ob(buf, buf + MAXBUF);
    std::ostream os(&ob);
    bool         thrown = false;
    try
    {
        f.write(os);
    }
    catch (...)
    {
        thrown = true;
    }
    sbv_check(!thrown && !os.fail(), "writer: succeeds");
    const long total = static_cast<long>(ob.written());
    auto       make_dst = [&]()
    {
        switch (sbv_cfg("dst", 0))
        {
        case 1: return feature_t{"old"}.scalar(feature_type::float64, make_dims(2, 1, 3));
        case 2: return feature_t{"old"}.sclass(strings_t{"x", "y", "z", "w"});
        case 3: return feature_t{"old"}.scalar(feature_type::int64);
        default: return feature_t{};
        }
    };
    for (long p = 0; p <= total; ++p)
    {
        imembuf      ib(buf, buf + p);
        std::istream is(&ib);
        feature_t    g = make_dst();
        bool         failed = false;
        try
        {
            g.read(is);
        }
        catch (...)
        {
            failed = true;
        }
        failed = failed || is.fail();
        if (p < total) sbv_check(failed, "strict prefix of a valid feature stream: reader reports failure");
        else
        {
            sbv_check(!failed, "round trip: reader succeeds on the writer's output");
            int same = (g.type() == f.type() && g.name() == f.name() && g.labels().size() == f.labels().size()) ? 1 : 0;
            same &= (std::get<0>(g.dims()) == std::get<0>(f.dims()) && std::get<1>(g.dims()) == std::get<1>(f.dims()) && std::get<2>(g.dims()) == std::get<2>(f.dims())) ? 1 : 0;
            for (size_t i = 0; same && i < f.labels().size(); ++i) same &= (g.labels()[i] == f.labels()[i]) ? 1 : 0;
            sbv_check(same, "round trip: type, dims, name and labels of the feature are those written (destination held another feature)");
            sbv_check(g == f, "round trip: the features compare equal");
        }
    }
}

void mode_string()
{
    std::string value(static_cast<size_t>(sbv_cfg("len", 4)), 'x');
    sbv_make_symbolic(value.data(), value.size(), "chars");
    omembuf      ob(buf, buf + MAXBUF);
    std::ostream os(&ob);
    nano::write(os, std::string_view{value});
    const long total = static_cast<long>(ob.written());
    sbv_check(total == 4 + static_cast<long>(value.size()), "string: uint32 length + characters");
    for (long p = 0; p <= total; ++p)
    {
        imembuf      ib(buf, buf + p);
        std::istream is(&ib);
        std::string  got = sbv_cfg("dst", 1) ? std::string("previous content of the destination") : std::string();
        nano::read(is, got);
        if (p < total) sbv_check(is.fail(), "strict prefix of a valid string stream: reader reports failure");
        else
        {
            int same = (!is.fail() && got.size() == value.size()) ? 1 : 0;
            for (size_t i = 0; same && i < value.size(); ++i) same &= (got[i] == value[i]) ? 1 : 0;
            sbv_check(same, "round trip: the value is read back bit-identically");
        }
    }
}
} // namespace

extern "C" void sbv_harness(const char*)
{
    if (sbv_cfg_is("mode", "param")) mode_param();
    else if (sbv_cfg_is("mode", "config")) mode_config();
    else if (sbv_cfg_is("mode", "string")) mode_string();
    else if (sbv_cfg_is("mode", "feature")) mode_feature();
    sbv_reach("end of harness");
}
