// C11 (linear models): after fitting a linear model, the per-trial/per-fold and the final error and loss statistics in the returned
// result equal those recomputed from scratch by predicting with the corresponding stored model on the corresponding samples.
// The real linear_t::fit runs (real ml::tune driver, k-fold splitter, flatten iterator, scaling, un-scaling of the model,
// linear::evaluate, result storage); the INNER SOLVER is an arbitrary-point oracle (link-time replacement of
// solver_t::minimize: it returns a state at a fresh symbolic point), so every outcome of the inner optimisation is covered.
// Targets are symbolic, feature cells concrete.
// config: model=<ordinary|ridge>;n=<samples>;folds=<k>;sc=<scaling 0..3>;sub=<1: fit on a strict subset of the dataset>
#include "hdata.h"
#include <any>
#include <nano/linear.h>
#include <nano/linear/result.h>
#include <nano/linear/util.h>
#include <nano/loss.h>
#include <nano/machine/params.h>
#include <nano/solver.h>
#include <nano/splitter.h>
using namespace nano;
using namespace h;

namespace
{
int g_min_calls = 0;
}
// inner solver = arbitrary point oracle
solver_state_t solver_t::minimize(const function_t& function, const vector_t& x0, const logger_t&) const
{
    vector_t x(x0.size());
    for (tensor_size_t i = 0; i < x.size(); ++i) x(i) = sym_box(sym_nm("opt", g_min_calls, i), -4.0, 4.0);
    ++g_min_calls;
    return solver_state_t{function, x};
}

extern "C" void sym_body()
{
    g_min_calls             = 0;
    const tensor_size_t n   = cfgi("n", 4);
    const tensor_size_t F   = cfgi("folds", 2);
    const auto          mid = cfg("model", "ordinary");

    symsource_t src("rrr", n, 2, 0, "#");
    for (tensor_size_t s = 0; s < n; ++s) src.V[static_cast<size_t>(s)][2][0] = sym_box(sym_nm("y", s), -8.0, 8.0);
    src.load();
    dataset_t ds(src, 1);
    add_identity_generators(ds);

    indices_t samples = all_samples(n);
    if (cfgi("sub", 0))
    {
        samples.resize(n - 1);
        for (tensor_size_t i = 0; i + 1 < n; ++i) samples(i) = i + 1; // sample 0 is not fitted
    }
    const auto m = samples.size();

    auto model = linear_t::all().get(mid);
    SYM_CHECK(static_cast<bool>(model), "model id registered");
    model->parameter("linear::scaling") = static_cast<scaling_type>(cfgi("sc", 0));
    auto loss = loss_t::all().get("mse");
    auto params   = ml::params_t{};
    auto splitter = splitter_t::all().get("k-fold");
    splitter->parameter("splitter::folds") = F;
    params.splitter(*splitter);
    auto tuner = tuner_t::all().get("local-search");
    tuner->parameter("tuner::max_evals") = 10;
    params.tuner(*tuner);
    const auto expected_splits = splitter->split(samples);

    const auto result = model->fit(ds, samples, *loss, params);

    auto fvalue = [&](tensor_size_t f, tensor_size_t s) { return src.V[static_cast<size_t>(s)][static_cast<size_t>(f)][0]; };
    auto recompute = [&](const tensor2d_t& W, const tensor1d_t& b, const indices_t& on, double& esum, double& lsum)
    {
        esum = 0.0, lsum = 0.0;
        for (tensor_size_t i = 0; i < on.size(); ++i)
        {
            const auto   s = on(i);
            const double o = b(0) + W(0, 0) * fvalue(0, s) + W(0, 1) * fvalue(1, s);
            const double d = o - fvalue(2, s);
            lsum           = lsum + 0.5 * d * d;
            esum           = esum + (d < 0.0 ? -d : d);
        }
    };

    // final statistics: recomputed by predicting with the final model on the samples given to fit()
    {
        const auto   outs = model->predict(ds, samples);
        double       esum = 0.0, lsum = 0.0, e2 = 0.0, l2 = 0.0;
        for (tensor_size_t i = 0; i < m; ++i)
        {
            const double d = outs(i, 0, 0, 0) - fvalue(2, samples(i));
            lsum           = lsum + 0.5 * d * d;
            esum           = esum + (d < 0.0 ? -d : d);
        }
        recompute(model->weights(), model->bias(), samples, e2, l2);
        SYM_EQ_(esum, e2, "model.predict = bias + weights * inputs on raw inputs");
        const auto es = result.stats(ml::value_type::errors), ls = result.stats(ml::value_type::losses);
        SYM_CHECK(es.m_count == static_cast<double>(m) && ls.m_count == static_cast<double>(m), "final statistics cover exactly the samples given to fit()");
        SYM_EQ_(es.m_mean * static_cast<double>(m), esum, "final error statistics = recomputed by predicting with the final model on the fitted samples");
        SYM_EQ_(ls.m_mean * static_cast<double>(m), lsum, "final loss statistics = recomputed by predicting with the final model on the fitted samples");
    }
    // per (trial, fold): recomputed with the model stored for that (trial, fold) on that fold's samples
    for (tensor_size_t t = 0; t < result.trials(); ++t)
        for (tensor_size_t f = 0; f < result.folds(); ++f)
        {
            const auto* stored = std::any_cast<linear::result_t>(&result.extra(t, f));
            SYM_CHECK(stored != nullptr, "a model is stored for every (trial, fold)");
            if (stored == nullptr) continue;
            const auto& [tr, vd] = expected_splits[static_cast<size_t>(f)];
            double e = 0.0, l = 0.0;
            recompute(stored->m_weights, stored->m_bias, tr, e, l);
            SYM_EQ_(result.stats(t, f, ml::split_type::train, ml::value_type::errors).m_mean * static_cast<double>(tr.size()), e, "per-fold training error statistics = recomputed with the stored fold model");
            SYM_EQ_(result.stats(t, f, ml::split_type::train, ml::value_type::losses).m_mean * static_cast<double>(tr.size()), l, "per-fold training loss statistics = recomputed with the stored fold model");
            recompute(stored->m_weights, stored->m_bias, vd, e, l);
            SYM_EQ_(result.stats(t, f, ml::split_type::valid, ml::value_type::errors).m_mean * static_cast<double>(vd.size()), e, "per-fold validation error statistics = recomputed with the stored fold model");
            SYM_EQ_(result.stats(t, f, ml::split_type::valid, ml::value_type::losses).m_mean * static_cast<double>(vd.size()), l, "per-fold validation loss statistics = recomputed with the stored fold model");
        }
}
