// Environment overrides linked into every SRE harness (link-time, /repo untouched):
//  * nano::parallel::pool_t is built without OS threads: its thread list holds one non-joinable std::thread, so
//    size() == 1 and pool_t::map() takes the inline path (schedules are outside every SRE claim).
//  * nano::make_rng() without seed uses a fixed seed instead of std::random_device (reproducible paths).
#include <nano/core/parallel.h>
#include <nano/core/random.h>

using namespace nano;
using namespace nano::parallel;

pool_t::pool_t()
    : pool_t(1U)
{
}
pool_t::pool_t(const size_t)
{
    m_threads.emplace_back();
}
pool_t::~pool_t()
{
    m_threads.clear();
}
size_t pool_t::max_size()
{
    return 1U;
}
rng_t nano::make_rng(seed_t seed)
{
    return rng_t{static_cast<rng_t::result_type>(seed ? *seed : 42U)};
}
