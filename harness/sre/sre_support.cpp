// Environment overrides linked into every SRE harness (link-time, /repo untouched):
//  * nano::parallel::pool_t is built without OS threads. By default its thread list holds one non-joinable std::thread, so
//    size() == 1 and pool_t::map() takes the inline path.
//  * SEQUENTIALISED MULTI-WORKER MODE (h::g_max_workers > 1, set by a harness before it builds its pools): the pool reports
//    K workers, map() takes its real enqueue path (packaged tasks, futures, queue), and section_t::block() - the completion
//    barrier of map() - first drains the queue on the calling thread, handing every task a worker id chosen by the scheduling
//    policy h::g_sched (round-robin / all on the last worker / reversed / ARBITRARY = symbolic choice per task). This covers
//    every assignment of tasks to workers, not the interleavings of concurrently running tasks.
//  * nano::make_rng() without seed uses a fixed seed instead of std::random_device (reproducible paths).
#include "sym.h"
#include <nano/core/parallel.h>
#include <nano/core/random.h>
#include <vector>

using namespace nano;
using namespace nano::parallel;

namespace h
{
size_t g_max_workers = 1; ///< upper bound on the workers of a pool (pool_t::max_size())
int    g_sched       = 0; ///< 0 round-robin, 1 all tasks on the last worker, 2 reversed round-robin, 3 arbitrary (symbolic choice)
long   g_tasks_run   = 0; ///< tasks executed by the sequentialised scheduler
long   g_drains      = 0; ///< non-empty drains (one per map() call that took the enqueue path)
long   g_arb_drain   = -1; ///< sched 3: -1 = arbitrary choice in every drain, k >= 0 = only in the k-th drain (others round-robin)
struct pool_entry_t
{
    queue_t* queue;
    size_t   workers;
};
std::vector<pool_entry_t> g_pools;
} // namespace h

pool_t::pool_t()
    : pool_t(max_size())
{
}
pool_t::pool_t(const size_t threads)
{
    const auto n = threads < 1 ? size_t(1) : (threads > h::g_max_workers ? h::g_max_workers : threads);
    for (size_t i = 0; i < n; ++i) m_threads.emplace_back();
    h::g_pools.push_back({&m_queue, n});
}
pool_t::~pool_t()
{
    for (size_t i = 0; i < h::g_pools.size(); ++i)
        if (h::g_pools[i].queue == &m_queue)
        {
            h::g_pools.erase(h::g_pools.begin() + static_cast<long>(i));
            break;
        }
    m_threads.clear();
}
size_t pool_t::max_size()
{
    return h::g_max_workers;
}
void section_t::block(const bool raise)
{
    // drain every queue on this thread (only non-empty in the sequentialised multi-worker mode)
    for (size_t p = 0; p < h::g_pools.size(); ++p)
    {
        auto*  queue   = h::g_pools[p].queue;
        auto   workers = h::g_pools[p].workers;
        size_t k       = 0;
        const bool nonempty = !queue->m_tasks.empty();
        const long drain    = h::g_drains;
        if (nonempty) ++h::g_drains;
        while (!queue->m_tasks.empty())
        {
            auto task = std::move(queue->m_tasks.front());
            queue->m_tasks.pop_front();
            size_t tnum = 0;
            switch (h::g_sched)
            {
            case 1: tnum = workers - 1; break;
            case 2: tnum = workers - 1 - (k % workers); break;
            case 3:
                if (h::g_arb_drain < 0 || h::g_arb_drain == drain) tnum = static_cast<size_t>(sym_choose(sym_nm("worker", h::g_tasks_run).c_str(), static_cast<int>(workers)));
                else tnum = k % workers;
                break;
            default: tnum = k % workers; break;
            }
            ++k;
            ++h::g_tasks_run;
            task(tnum);
        }
    }
    for (const auto& future : *this)
    {
        if (future.valid())
        {
            raise ? future.get() : future.wait();
        }
    }
}
rng_t nano::make_rng(seed_t seed)
{
    return rng_t{static_cast<rng_t::result_type>(seed ? *seed : 42U)};
}
