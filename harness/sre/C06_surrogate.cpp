// C06 (machine-learning objectives: the tuners' surrogate model): the quadratic surrogate objective q(x) = model . quadratic_terms(x)
// and the surrogate fitting objective (loss of the quadratic model on evaluated hyper-parameter points) return, with a value, the
// derivative of that value - for SYMBOLIC model coefficients, hyper-parameter values and points, p = 1..4 hyper-parameters - and the
// value-only call returns the same value.
// config: p=<hyper-parameters>;fit=<1: the fitting objective (mse loss) instead of the surrogate itself>;n=<evaluated points (fit)>
#include "hcommon.h"
#include <nano/tuner/surrogate.h>
using namespace nano;
using namespace h;

extern "C" void sym_body()
{
    const tensor_size_t p     = cfgi("p", 3);
    const tensor_size_t terms = 1 + p + p * (p + 1) / 2;
    if (cfgi("fit", 0))
    {
        const tensor_size_t n    = cfgi("n", 2);
        const auto          loss = loss_t::all().get("mse");
        tensor2d_t          P(n, p);
        tensor1d_t          y(n);
        for (tensor_size_t i = 0; i < n; ++i)
        {
            y(i) = sym_box(sym_nm("y", i), -4.0, 4.0);
            for (tensor_size_t j = 0; j < p; ++j) P(i, j) = sym_box(sym_nm("P", i, j), -2.0, 2.0);
        }
        const quadratic_surrogate_fit_t f(*loss, P, y);
        SYM_CHECK(f.size() == terms, "the fitting objective has one coefficient per quadratic term: 1 + p + p(p+1)/2");
        if (f.size() != terms) return;
        vector_t x(terms), g(terms);
        for (tensor_size_t i = 0; i < terms; ++i) x(i) = sym_box(sym_nm("m", i), -2.0, 2.0);
        const double v  = f.vgrad(x, g);
        const double v0 = f.vgrad(x);
        SYM_EQ_(v0, v, "value-only call = value+gradient call");
        for (tensor_size_t i = 0; i < terms; ++i)
        {
            if (sym_concrete())
            {
                // replay / validation on IEEE doubles: central differences
                const double hh = 1e-6;
                vector_t     xp = x, xm = x;
                xp(i) += hh;
                xm(i) -= hh;
                sym_close(g(i), (f.vgrad(xp) - f.vgrad(xm)) / (2 * hh), 1e-4, "gradient = derivative of the value (surrogate fitting objective)");
            }
            else sym_check_deriv(v, sym_nm("m", i).c_str(), g(i), "gradient = derivative of the value (surrogate fitting objective)");
        }
        return;
    }
    vector_t model(terms);
    for (tensor_size_t i = 0; i < terms; ++i) model(i) = sym_box(sym_nm("m", i), -4.0, 4.0);
    const quadratic_surrogate_t f(model);
    SYM_CHECK(f.size() == p, "the surrogate is a function of the p hyper-parameters");
    if (f.size() != p) return;
    vector_t x(p), g(p);
    for (tensor_size_t i = 0; i < p; ++i) x(i) = sym_box(sym_nm("x", i), -4.0, 4.0);
    const double v  = f.vgrad(x, g);
    const double v0 = f.vgrad(x);
    SYM_EQ_(v0, v, "value-only call = value+gradient call");
    for (tensor_size_t i = 0; i < p; ++i)
    {
        if (sym_concrete())
        {
            const double hh = 1e-6;
            vector_t     xp = x, xm = x;
            xp(i) += hh;
            xm(i) -= hh;
            sym_close(g(i), (f.vgrad(xp) - f.vgrad(xm)) / (2 * hh), 1e-4, "gradient = derivative of the value (quadratic surrogate)");
        }
        else sym_check_deriv(v, sym_nm("x", i).c_str(), g(i), "gradient = derivative of the value (quadratic surrogate)");
    }
}
