// C19 (factory clause): every object obtainable from a factory has all defaults inside their domains, reports the id it was
// registered under, and its clone has equal parameters while being independently modifiable.
// The objects and their parameter lists are enumerated concretely (they are finite); what is symbolic is the value assigned to
// a parameter of the CLONE: any real inside the parameter's declared domain (any integer of a window for integer parameters).
// Obligations per (factory, id, parameter): default inside the domain; clone().parameters() == parameters(); after assigning
// the symbolic value to the clone: the clone reads it back, the original keeps its default (independently modifiable), all
// other parameters of both objects are unchanged; an out-of-domain symbolic value is rejected by the clone and leaves it unchanged.
// config: fac=<solver|lsearch0|lsearchk|loss|splitter|tuner|wlearner|linear>;from=<first object index>;count=<objects>
#include "hcommon.h"
#include <nano/linear.h>
#include <nano/loss.h>
#include <nano/lsearch0.h>
#include <nano/lsearchk.h>
#include <nano/solver.h>
#include <nano/splitter.h>
#include <nano/tuner.h>
#include <nano/wlearner.h>
using namespace nano;
using namespace h;

namespace
{
bool in_domain(double lo, const LEorLT& cl, double v, const LEorLT& ch, double hi)
{
    const bool okl = std::holds_alternative<LE_t>(cl) ? lo <= v : lo < v;
    const bool okh = std::holds_alternative<LE_t>(ch) ? v <= hi : v < hi;
    return okl && okh;
}

template <class tobject>
void check_object(const tobject& object, const std::string& id, int oidx)
{
    SYM_CHECK(object.type_id() == id, "factory object reports the id it was registered under");
    const auto clone = object.clone();
    SYM_CHECK(static_cast<bool>(clone) && clone->type_id() == id, "clone reports the same id");
    const auto& params = object.parameters();
    SYM_CHECK(clone->parameters().size() == params.size(), "clone has the same parameter list");
    for (size_t i = 0; i < params.size() && i < clone->parameters().size(); ++i) SYM_CHECK(clone->parameters()[i] == params[i], "clone has equal parameters");

    for (size_t i = 0; i < params.size(); ++i)
    {
        const auto& p    = params[i];
        const auto  name = p.name();
        if (const auto* fr = std::get_if<parameter_t::frange_t>(&p.m_storage))
        {
            SYM_CHECK(in_domain(fr->m_min, fr->m_mincomp, fr->m_value, fr->m_maxcomp, fr->m_max), "default value lies inside the declared domain (scalar)");
            // in-domain symbolic assignment to a fresh clone
            {
                auto         c = object.clone();
                const double span = fr->m_max - fr->m_min;
                const double v = sym_real(sym_nm("v", oidx, static_cast<long>(i)));
                sym_assume_cmp(v, std::holds_alternative<LE_t>(fr->m_mincomp) ? SYM_GE : SYM_GT, fr->m_min);
                sym_assume_cmp(v, std::holds_alternative<LE_t>(fr->m_maxcomp) ? SYM_LE : SYM_LT, fr->m_max);
                (void)span;
                bool thrown = false;
                try
                {
                    c->parameter(name) = v;
                }
                catch (const std::exception&)
                {
                    thrown = true;
                }
                SYM_CHECK(!thrown, "clone accepts any value of the declared domain");
                if (!thrown) SYM_CHECK(sym_same(c->parameter(name).template value<scalar_t>(), v), "clone reads back the assigned value");
                SYM_CHECK(object.parameter(name).template value<scalar_t>() == fr->m_value, "original keeps its value when the clone is modified");
                for (size_t j = 0; j < params.size(); ++j)
                    if (j != i) SYM_CHECK(c->parameters()[j] == params[j], "other parameters of the clone are unchanged");
            }
            // out-of-domain symbolic assignment is rejected and leaves the clone unchanged
            {
                auto         c = object.clone();
                const double w = sym_real(sym_nm("w", oidx, static_cast<long>(i)));
                sym_assume_cmp(w, SYM_GT, fr->m_max); // strictly above (the boundary value of LT domains is covered by unit C19_params)
                bool thrown = false;
                try
                {
                    c->parameter(name) = w;
                }
                catch (const std::exception&)
                {
                    thrown = true;
                }
                SYM_CHECK(thrown, "clone rejects a value above the declared domain");
                SYM_CHECK(c->parameters()[i] == p, "a rejected assignment leaves the parameter unchanged");
            }
        }
        else if (const auto* ir = std::get_if<parameter_t::irange_t>(&p.m_storage))
        {
            SYM_CHECK(in_domain(static_cast<double>(ir->m_min), ir->m_mincomp, static_cast<double>(ir->m_value), ir->m_maxcomp, static_cast<double>(ir->m_max)),
                      "default value lies inside the declared domain (integer)");
            const int64_t lo  = std::holds_alternative<LE_t>(ir->m_mincomp) ? ir->m_min : ir->m_min + 1;
            const int64_t hi  = std::holds_alternative<LE_t>(ir->m_maxcomp) ? ir->m_max : ir->m_max - 1;
            const int64_t top = hi < lo + 2 ? hi : lo + 2;
            // integers of the domain window [lo, lo+2] and the upper end (concrete: integer assignments do not involve the solver)
            for (int64_t k = lo; k <= top + 1; ++k)
            {
                const int64_t kk     = k <= top ? k : hi;
                auto          c      = object.clone();
                bool          thrown = false;
                try
                {
                    c->parameter(name) = kk;
                }
                catch (const std::exception&)
                {
                    thrown = true;
                }
                SYM_CHECK(!thrown, "clone accepts any integer of the declared domain");
                if (!thrown) SYM_CHECK(c->parameter(name).template value<int64_t>() == kk, "clone reads back the assigned integer");
                SYM_CHECK(object.parameter(name).template value<int64_t>() == ir->m_value, "original keeps its value when the clone is modified");
            }
        }
        else if (const auto* fp = std::get_if<parameter_t::fprange_t>(&p.m_storage))
        {
            SYM_CHECK(in_domain(fp->m_min, fp->m_mincomp, fp->m_value1, fp->m_valcomp, fp->m_value2) && in_domain(fp->m_value1, fp->m_valcomp, fp->m_value2, fp->m_maxcomp, fp->m_max),
                      "default pair lies inside the declared domain with its ordering");
        }
        else if (const auto* ip = std::get_if<parameter_t::iprange_t>(&p.m_storage))
        {
            SYM_CHECK(in_domain(static_cast<double>(ip->m_min), ip->m_mincomp, static_cast<double>(ip->m_value1), ip->m_valcomp, static_cast<double>(ip->m_value2)) &&
                          in_domain(static_cast<double>(ip->m_value1), ip->m_valcomp, static_cast<double>(ip->m_value2), ip->m_maxcomp, static_cast<double>(ip->m_max)),
                      "default pair lies inside the declared domain with its ordering");
        }
        else if (const auto* en = std::get_if<parameter_t::enum_t>(&p.m_storage))
        {
            bool found = false;
            for (const auto& s : en->m_domain) found = found || s == en->m_value;
            SYM_CHECK(found, "default enumeration value is a member of its domain");
        }
    }
}

long g_fresh = 0;
// objects that hold other configurable objects: a clone must carry their configuration too (solver -> its two line-search objects)
void check_nested(const solver_t& object, int oidx)
{
    for (const auto& lid : lsearchk_t::all().ids())
    {
        auto lsk = lsearchk_t::all().get(lid);
        // a non-default, symbolic in-domain tolerance pair is not kept (make_lsearch() overwrites it from the solver), so vary the
        // iteration budget (integer) and, where present, a scalar parameter of the concrete line-search
        lsk->parameter("lsearchk::max_iterations") = 7;
        for (const auto& p : lsk->parameters())
            if (const auto* fr = std::get_if<parameter_t::frange_t>(&p.m_storage))
            {
                const double v = sym_real(sym_nm("nv", oidx, g_fresh++));
                sym_assume_cmp(v, std::holds_alternative<LE_t>(fr->m_mincomp) ? SYM_GE : SYM_GT, fr->m_min);
                sym_assume_cmp(v, std::holds_alternative<LE_t>(fr->m_maxcomp) ? SYM_LE : SYM_LT, fr->m_max);
                lsk->parameter(p.name()) = v;
            }
        auto solver = object.clone();
        solver->lsearchk(*lsk);
        const auto copy = solver->clone();
        SYM_CHECK(copy->lsearchk().type_id() == lid, "clone keeps the id of the installed line-search");
        const auto& a = solver->lsearchk().parameters();
        const auto& b = copy->lsearchk().parameters();
        bool same = a.size() == b.size();
        for (size_t i = 0; same && i < a.size(); ++i)
        {
            const auto* fa = std::get_if<parameter_t::frange_t>(&a[i].m_storage);
            const auto* fb = std::get_if<parameter_t::frange_t>(&b[i].m_storage);
            if (fa && fb) same = sym_same(fa->m_value, fb->m_value) && fa->m_min == fb->m_min && fa->m_max == fb->m_max;
            else same = a[i] == b[i];
        }
        SYM_CHECK(same, "clone of a solver carries the parameters of its installed line-search object (symbolic values)");
    }
    for (const auto& lid : lsearch0_t::all().ids())
    {
        auto ls0 = lsearch0_t::all().get(lid);
        for (const auto& p : ls0->parameters())
            if (const auto* fr = std::get_if<parameter_t::frange_t>(&p.m_storage))
            {
                const double v = sym_real(sym_nm("n0", oidx, g_fresh++));
                sym_assume_cmp(v, std::holds_alternative<LE_t>(fr->m_mincomp) ? SYM_GE : SYM_GT, fr->m_min);
                sym_assume_cmp(v, std::holds_alternative<LE_t>(fr->m_maxcomp) ? SYM_LE : SYM_LT, fr->m_max);
                ls0->parameter(p.name()) = v;
            }
        auto solver = object.clone();
        solver->lsearch0(*ls0);
        const auto copy = solver->clone();
        SYM_CHECK(copy->lsearch0().type_id() == lid, "clone keeps the id of the installed step-length initialiser");
        const auto& a = solver->lsearch0().parameters();
        const auto& b = copy->lsearch0().parameters();
        bool same = a.size() == b.size();
        for (size_t i = 0; same && i < a.size(); ++i)
        {
            const auto* fa = std::get_if<parameter_t::frange_t>(&a[i].m_storage);
            const auto* fb = std::get_if<parameter_t::frange_t>(&b[i].m_storage);
            if (fa && fb) same = sym_same(fa->m_value, fb->m_value) && fa->m_min == fb->m_min && fa->m_max == fb->m_max;
            else same = a[i] == b[i];
        }
        SYM_CHECK(same, "clone of a solver carries the parameters of its installed step-length initialiser (symbolic values)");
    }
}

template <class tfactory>
void check_factory(tfactory& factory)
{
    const auto ids   = factory.ids();
    const long from  = cfgi("from", 0);
    const long count = cfgi("count", 1000);
    long       idx   = 0;
    for (const auto& id : ids)
    {
        if (idx >= from && idx < from + count)
        {
            const auto object = factory.get(id);
            SYM_CHECK(static_cast<bool>(object), "factory returns an object for every registered id");
            if (object) check_object(*object, id, static_cast<int>(idx));
            if constexpr (std::is_same_v<tfactory, factory_t<solver_t>>)
                if (object && cfgi("nested", 0)) check_nested(*object, static_cast<int>(idx));
        }
        ++idx;
    }
    SYM_CHECK(!static_cast<bool>(factory.get("no-such-id-registered")), "unknown id gives no object");
}
} // namespace

extern "C" void sym_body()
{
    const auto fac = cfg("fac", "solver");
    if (fac == "solver") check_factory(solver_t::all());
    else if (fac == "lsearch0") check_factory(lsearch0_t::all());
    else if (fac == "lsearchk") check_factory(lsearchk_t::all());
    else if (fac == "loss") check_factory(loss_t::all());
    else if (fac == "splitter") check_factory(splitter_t::all());
    else if (fac == "tuner") check_factory(tuner_t::all());
    else if (fac == "wlearner") check_factory(wlearner_t::all());
    else if (fac == "linear") check_factory(linear_t::all());
}
