// C04 (restated programs, equality rows): nano::program::reduce(A, b) - what the interior-point solver applies to the caller's
// equalities before anything else - must return an EQUIVALENT system: when rows of [A|b] are linear combinations of other rows
// (duplicated rows, arbitrary combinations with SYMBOLIC coefficients), the reduced system has exactly rank([A|b]) rows and the same
// solution set as the caller's system; a system with independent rows is returned unchanged.
//   dir=0: every solution of the caller's system (x = x0 + t*k, t symbolic) solves the reduced system
//   dir=1: every x (symbolic) that solves the reduced system solves every row of the caller's system
// config: rows=<independent rows: 1|2>;extra=<dependent rows appended: 0..2>;dup=<1: the dependent rows are plain duplicates>;dir=<0|1>;pos=<position of the first dependent row>
#include "hcommon.h"
#include <nano/program/util.h>
using namespace nano;
using namespace h;

extern "C" void sym_body()
{
    const long rows = cfgi("rows", 2), extra = cfgi("extra", 1), dup = cfgi("dup", 0), dir = cfgi("dir", 0), pos = cfgi("pos", 2);
    const tensor_size_t n = 3;
    // independent rows (dyadic entries) and a particular solution / kernel direction of the two-row system
    const double R[2][4] = {{1.0, 2.0, 0.0, 3.0}, {0.0, 1.0, -1.0, 1.0}}; // [a | b]
    // rows=2: solutions x = (1, 1, 0) + t * (-2, 1, 1)
    // rows=1: solutions x = (3, 0, 0) + t * (-2, 1, 0) + u * (0, 0, 1)

    const tensor_size_t p = rows + extra;
    std::vector<std::vector<double>> M; // rows of [A | b]
    for (long r = 0; r < rows; ++r) M.push_back({R[r][0], R[r][1], R[r][2], R[r][3]});
    for (long e = 0; e < extra; ++e)
    {
        std::vector<double> row(4, 0.0);
        if (dup)
        {
            for (int c = 0; c < 4; ++c) row[static_cast<size_t>(c)] = R[e % rows][c];
        }
        else
        {
            const double al = sym_box(sym_nm("alpha", e, 0), -2.0, 2.0);
            const double be = rows > 1 ? sym_box(sym_nm("beta", e, 0), -2.0, 2.0) : 0.0;
            for (int c = 0; c < 4; ++c) row[static_cast<size_t>(c)] = al * R[0][c] + (rows > 1 ? be * R[1][c] : 0.0);
        }
        const auto at = static_cast<size_t>(std::min<long>(pos + e, static_cast<long>(M.size())));
        M.insert(M.begin() + static_cast<long>(at), row);
    }

    matrix_t A(p, n);
    vector_t b(p);
    for (tensor_size_t r = 0; r < p; ++r)
    {
        for (tensor_size_t c = 0; c < n; ++c) A(r, c) = M[static_cast<size_t>(r)][static_cast<size_t>(c)];
        b(r) = M[static_cast<size_t>(r)][3];
    }
    const matrix_t A0 = A;
    const vector_t b0 = b;

    program::reduce(A, b);

    SYM_CHECK(A.rows() == b.size() && A.cols() == n, "reduce keeps the number of variables and one right-hand side per row");
    SYM_CHECK(A.rows() == rows, "reduce returns exactly rank([A|b]) rows (dependent rows removed, independent rows kept)");
    if (A.rows() != b.size() || A.cols() != n) return;

    if (dir == 0)
    {
        const double t = sym_box("t", -4.0, 4.0), u = sym_box("u", -4.0, 4.0);
        vector_t     x(n);
        if (rows == 2)
        {
            x(0) = 1.0 - 2.0 * t;
            x(1) = 1.0 + t;
            x(2) = t;
        }
        else
        {
            x(0) = 3.0 - 2.0 * t;
            x(1) = t;
            x(2) = u;
        }
        for (tensor_size_t r = 0; r < A.rows(); ++r)
        {
            double lhs = 0.0;
            for (tensor_size_t c = 0; c < n; ++c) lhs = lhs + A(r, c) * x(c);
            SYM_EQ_(lhs, b(r), "every solution of the caller's equalities satisfies the reduced system");
        }
    }
    else
    {
        vector_t x(n);
        for (tensor_size_t c = 0; c < n; ++c) x(c) = sym_box(sym_nm("x", c, 0), -8.0, 8.0);
        for (tensor_size_t r = 0; r < A.rows(); ++r)
        {
            double lhs = 0.0;
            for (tensor_size_t c = 0; c < n; ++c) lhs = lhs + A(r, c) * x(c);
            sym_assume_cmp(lhs, SYM_EQ, b(r));
        }
        for (tensor_size_t r = 0; r < p; ++r)
        {
            double lhs = 0.0;
            for (tensor_size_t c = 0; c < n; ++c) lhs = lhs + A0(r, c) * x(c);
            SYM_EQ_(lhs, b0(r), "every solution of the reduced system satisfies every equality the caller stated");
        }
    }
}
