// C03 (outer loops of the bundle solvers): the real solver_t::minimize -> do_minimize of RQB / FPBA1 / FPBA2 with the CURVE SEARCH
// replaced by an arbitrary one at link time: every call of csearch_t::search records the bundle's stability centre, evaluates the
// (oracle) function at a fresh arbitrary point y and returns an ARBITRARY status (failed / max_iters / converged / null / descent /
// cutting-plane step; the two serious steps only with f(y) <= f(centre), which is what the real curve search guarantees through
// its sufficient-decrease test). Everything else is real code: bundle moveto / append, proximity update, Nesterov sequences,
// state bookkeeping, solver_t::done.
// The curve search certifies eps-optimality of the CENTRE it was given (C03_bundle checks that certificate); the outer loop owes
// the caller that the state it returns is at least as good as that centre and truthful:
//   converged => f(returned) <= f(centre of the converging search call); RQB: returned point == that centre
//   the reported value is the function's answer at the returned point, which was evaluated
//   RQB: the centre after a serious step is the point the curve search returned; centre values never increase
//   bundle representation invariant 1 <= size() < capacity() at every curve-search call, for ANY multipliers (the stub installs an
//   arbitrary point of the simplex as the real curve search's bundle_t::solve would) - bundle::max_size from the configuration
// config: solver=<rqb|fpba1|fpba2>;d=<dims>;evals=<max_evals>;bsize=<bundle::max_size>;alphas=<0: multipliers left untouched>
#include "horacle.h"
#include <nano/solver.h>
#include <nano/solver/csearch.h>
using namespace nano;
using namespace h;

namespace
{
struct call_t
{
    std::vector<double> cx;     // centre when search was called
    double              cfx{0}; // its value
    int                 status{0};
    std::vector<double> y;
    double              fy{0};
};
std::vector<call_t> g_calls;
int                 g_overflow = 0; // a curve-search call saw a bundle with size() >= capacity()
int                 g_empty    = 0; // ... or an empty bundle
const csearch_status g_statuses[6] = {csearch_status::failed,    csearch_status::max_iters,    csearch_status::converged,
                                      csearch_status::null_step, csearch_status::descent_step, csearch_status::cutting_plane_step};
} // namespace

const csearch_t::point_t& csearch_t::search(bundle_t& bundle, const scalar_t, const tensor_size_t, const scalar_t, const logger_t&)
{
    const auto k = static_cast<long>(g_calls.size());
    const auto n = bundle.x().size();
    call_t     c;
    for (tensor_size_t i = 0; i < n; ++i) c.cx.push_back(bundle.x()(i));
    c.cfx    = bundle.fx();
    c.status = sym_choose(sym_nm("cs", k).c_str(), 6);
    // representation invariant of the bundle (the code's own assert): 1 <= size() < capacity(); the slot at capacity() - 1 is
    // reserved for the aggregate, the next append writes at index size()
    if (bundle.size() >= bundle.capacity()) g_overflow = 1;
    if (bundle.size() < 1) g_empty = 1;
    // the real curve search updates the multipliers (bundle_t::solve) before it returns: an ARBITRARY point of the simplex here,
    // so that every pattern of active / inactive cuts reaches delete_inactive / delete_largest
    if (cfgi("alphas", 1) && bundle.size() >= 1 && bundle.size() < bundle.capacity())
    {
        double rest = 1.0;
        for (tensor_size_t i = 0; i + 1 < bundle.size(); ++i)
        {
            bundle.m_alphas(i) = sym_real_in(sym_nm("al", k, i).c_str(), 0.0, 1.0, 0);
            rest               = rest - bundle.m_alphas(i);
        }
        sym_assume_cmp(rest, SYM_GE, 0.0);
        bundle.m_alphas(bundle.size() - 1) = rest;
    }

    auto& p = m_point;
    p.m_y.resize(n);
    p.m_gy.resize(n);
    for (tensor_size_t i = 0; i < n; ++i) p.m_y(i) = sym_real(sym_nm("y", k, i));
    p.m_fy     = m_function.vgrad(p.m_y, p.m_gy);
    p.m_t      = sym_real_in(sym_nm("t", k).c_str(), 0.0, 1e6, 1);
    p.m_status = g_statuses[c.status];
    // serious steps are taken only after the sufficient decrease test fx - fy >= m1 * delta (delta >= 0)
    if (c.status >= 4) sym_assume_cmp(p.m_fy, SYM_LE, c.cfx);
    for (tensor_size_t i = 0; i < n; ++i) c.y.push_back(p.m_y(i));
    c.fy = p.m_fy;
    g_calls.push_back(c);
    return m_point;
}

extern "C" void sym_body()
{
    g_calls.clear();
    g_overflow = 0;
    g_empty    = 0;
    const tensor_size_t n     = cfgi("d", 1);
    const long          evals = cfgi("evals", 10);
    const std::string   id    = cfg("solver", "rqb");

    oracle_t f(n, true, false);
    auto     solver = solver_t::all().get(id);
    SYM_CHECK(static_cast<bool>(solver), "solver id registered");
    const double eps = sym_real_in("eps", 0.0, 0.1, 1);
    solver->parameter("solver::epsilon")   = eps;
    solver->parameter("solver::max_evals") = evals;
    if (cfgi("bsize", 0) > 0) solver->parameter("solver::" + id + "::bundle::max_size") = cfgi("bsize", 0);

    const vector_t x0    = sym_vector("x", n);
    const auto     state = solver->minimize(f, x0, make_null_logger());
    const auto     st    = state.status();

    SYM_CHECK(st == solver_status::converged || st == solver_status::max_iters || st == solver_status::failed, "status is one of converged/max_iters/failed");
    SYM_CHECK(!g_overflow, "bundle invariant: size() < capacity() whenever the curve search is called (the next cut is written at index size())");
    SYM_CHECK(!g_empty, "bundle invariant: at least one cut whenever the curve search is called");
    if (g_calls.empty()) return;
    const auto& last = g_calls.back();

    // status reported by the solver follows the curve search's verdict
    if (st == solver_status::converged) SYM_CHECK(last.status == 2, "solver reports converged only when the curve search reported converged");
    if (last.status == 2) SYM_CHECK(st == solver_status::converged, "curve search converged => solver reports converged");

    const long k = f.find(state.x());
    if (st != solver_status::failed) SYM_CHECK(k >= 0, "returned point is a point the function was evaluated at");
    if (k >= 0) SYM_EQ_X(state.fx(), f.fs[static_cast<size_t>(k)], "reported value = function value at the returned point");

    if (st == solver_status::converged)
    {
        SYM_LE_X(state.fx(), last.cfx, "converged => returned value <= value of the centre certified by the converging curve search");
        if (id == "rqb")
            for (tensor_size_t i = 0; i < n; ++i) SYM_EQ_X(state.x()(i), last.cx[static_cast<size_t>(i)], "RQB: converged => returned point = the certified centre");
    }
    // any exit: the returned value is not worse than any centre's value (the solvers are monotone in their best state)
    for (const auto& c : g_calls) SYM_LE_X(state.fx(), c.cfx, "returned value <= value of every stability centre visited");

    if (id == "rqb")
        for (size_t j = 0; j + 1 < g_calls.size(); ++j)
        {
            const auto& a = g_calls[j];
            const auto& b = g_calls[j + 1];
            if (a.status >= 4)
            {
                for (tensor_size_t i = 0; i < n; ++i) SYM_EQ_X(b.cx[static_cast<size_t>(i)], a.y[static_cast<size_t>(i)], "RQB: after a serious step the centre is the point returned by the curve search");
                SYM_EQ_X(b.cfx, a.fy, "RQB: after a serious step the centre value is the value returned by the curve search");
            }
            else
            {
                for (tensor_size_t i = 0; i < n; ++i) SYM_EQ_X(b.cx[static_cast<size_t>(i)], a.cx[static_cast<size_t>(i)], "RQB: a null step leaves the centre unchanged");
            }
        }
}
