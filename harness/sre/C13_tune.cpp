// C13 (second sentence): the model-tuning driver nano::ml::tune calls the model callback exactly once per (trial, fold) with
// that fold's training and validation indices from the splitter, stores the returned statistics under that (trial, fold), and
// reports as optimum the trial with the smallest mean validation error across folds - for EVERY error landscape (the values
// returned by the callback are symbolic reals).
// config: n=<samples>;folds=<k>;g=<grid size>;evals=<max_evals>;per=<values per returned tensor: 1|2>;order=<0|1>;uneven=<1: fold f returns per+f values>
//   order=1: validation errors decrease with the grid index (forces the tuner to walk), order=0: unconstrained
#include "hcommon.h"
#include <any>
#include <map>
#include <nano/machine/tune.h>
using namespace nano;
using namespace h;

extern "C" void sym_body()
{
    const tensor_size_t n     = cfgi("n", 4);
    const tensor_size_t folds = cfgi("folds", 2);
    const long          g     = cfgi("g", 3);
    const long          evals = cfgi("evals", 10);
    const long          per   = cfgi("per", 1);
    const long          order = cfgi("order", 0);

    indices_t samples(n);
    for (tensor_size_t i = 0; i < n; ++i) samples(i) = 10 + 3 * i; // non-contiguous indices

    auto params = ml::params_t{};
    params.splitter("k-fold").tuner("local-search");
    auto splitter = splitter_t::all().get("k-fold");
    splitter->parameter("splitter::folds") = folds;
    params.splitter(*splitter);
    auto tuner = tuner_t::all().get("local-search");
    tuner->parameter("tuner::max_evals") = evals;
    params.tuner(*tuner);

    // the splitter is deterministic (seed parameter): these are the folds the driver must hand to the callback
    const auto expected_splits = splitter->split(samples);
    SYM_CHECK(static_cast<tensor_size_t>(expected_splits.size()) == folds, "splitter returns `folds` splits");

    param_spaces_t spaces;
    if (g > 0)
    {
        tensor1d_t vals(g);
        for (tensor_size_t k = 0; k < g; ++k) vals(k) = 0.5 * static_cast<double>(k) + 1.0;
        spaces.emplace_back("p0", param_space_t::type::linear, vals);
    }

    struct call_t
    {
        double              param;
        tensor_size_t       fold;
        bool                fold_ok;
        std::vector<double> tr_err, tr_loss, vd_err, vd_loss;
        int                 id;
    };
    std::vector<call_t> calls;

    const ml::tune_callback_t callback = [&](const indices_t& tr, const indices_t& vd, tensor1d_cmap_t p, const std::any&, const logger_t&)
    {
        call_t c;
        c.param   = p.size() > 0 ? p(0) : 0.0;
        c.fold    = -1;
        c.fold_ok = false;
        for (tensor_size_t f = 0; f < folds; ++f)
        {
            const auto& [etr, evd] = expected_splits[static_cast<size_t>(f)];
            if (etr.size() == tr.size() && evd.size() == vd.size())
            {
                bool same = true;
                for (tensor_size_t i = 0; i < tr.size(); ++i) same = same && etr(i) == tr(i);
                for (tensor_size_t i = 0; i < vd.size(); ++i) same = same && evd(i) == vd(i);
                if (same)
                {
                    c.fold    = f;
                    c.fold_ok = true;
                }
            }
        }
        c.id = static_cast<int>(calls.size());
        const long gi = g > 0 ? static_cast<long>((c.param - 1.0) / 0.5 + 0.25) : 0;
        // uneven=1: the folds return tensors of DIFFERENT lengths (validation folds of different sizes, as k-fold produces whenever
        // the sample count is not a multiple of the fold count): the trial value is still the plain mean of the per-fold means
        const long cnt = per + (cfgi("uneven", 0) && c.fold > 0 ? c.fold : 0);
        tensor2d_t trv(2, cnt), vdv(2, cnt);
        for (tensor_size_t s = 0; s < cnt; ++s)
        {
            trv(0, s) = sym_box(sym_nm("te", gi, c.fold * 4 + s), 0.0, 100.0);
            trv(1, s) = sym_box(sym_nm("tl", gi, c.fold * 4 + s), -100.0, 100.0);
            vdv(0, s) = sym_box(sym_nm("ve", gi, c.fold * 4 + s), 0.0, 100.0);
            vdv(1, s) = sym_box(sym_nm("vl", gi, c.fold * 4 + s), -100.0, 100.0);
            if (order)
            {
                // landscape shape: validation errors in [10*(g-gi), 10*(g-gi)+5]: strictly better towards the last grid point
                sym_assume_cmp(vdv(0, s), SYM_GE, 10.0 * static_cast<double>(g - gi));
                sym_assume_cmp(vdv(0, s), SYM_LE, 10.0 * static_cast<double>(g - gi) + 5.0);
            }
            c.tr_err.push_back(trv(0, s));
            c.tr_loss.push_back(trv(1, s));
            c.vd_err.push_back(vdv(0, s));
            c.vd_loss.push_back(vdv(1, s));
        }
        calls.push_back(c);
        return std::make_tuple(trv, vdv, std::any{c.id});
    };

    ml::result_t result{param_spaces_t{}, folds};
    bool         thrown = false;
    try
    {
        result = ml::tune("verif", samples, params, spaces, callback);
    }
    catch (const std::exception&)
    {
        thrown = true;
    }
    SYM_CHECK(!thrown, "finite callback values: tune() completes without an exception");
    if (thrown) return;

    const auto trials = result.trials();
    SYM_CHECK(result.folds() == folds, "result has one slot per fold");
    SYM_CHECK(static_cast<tensor_size_t>(calls.size()) == trials * folds, "callback invoked trials x folds times in total");
    bool all_fold_ok = true;
    for (const auto& c : calls) all_fold_ok = all_fold_ok && c.fold_ok;
    SYM_CHECK(all_fold_ok, "every callback call receives exactly the (training, validation) indices of one fold of the splitter");

    auto mean = [](const std::vector<double>& v)
    {
        double s = 0.0;
        for (const auto x : v) s = s + x;
        return s / static_cast<double>(v.size());
    };

    std::vector<double> trial_value(static_cast<size_t>(trials), 0.0);
    for (tensor_size_t t = 0; t < trials; ++t)
    {
        const double p = g > 0 ? result.params(t)(0) : 0.0;
        for (tensor_size_t f = 0; f < folds; ++f)
        {
            int found = 0;
            const call_t* hit = nullptr;
            for (const auto& c : calls)
                if (c.fold == f && (g == 0 || c.param == p))
                {
                    ++found;
                    hit = &c;
                }
            SYM_CHECK(found == 1, "exactly one callback call per (trial, fold)");
            if (found != 1) continue;
            using ml::split_type;
            using ml::value_type;
            SYM_EQ_(result.stats(t, f, split_type::valid, value_type::errors).m_mean, mean(hit->vd_err), "stats(trial,fold,valid,errors) = statistics of what the callback returned for that (trial,fold)");
            SYM_EQ_(result.stats(t, f, split_type::valid, value_type::losses).m_mean, mean(hit->vd_loss), "stats(trial,fold,valid,losses) = statistics of what the callback returned for that (trial,fold)");
            SYM_EQ_(result.stats(t, f, split_type::train, value_type::errors).m_mean, mean(hit->tr_err), "stats(trial,fold,train,errors) = statistics of what the callback returned for that (trial,fold)");
            SYM_EQ_(result.stats(t, f, split_type::train, value_type::losses).m_mean, mean(hit->tr_loss), "stats(trial,fold,train,losses) = statistics of what the callback returned for that (trial,fold)");
            const auto* ex = std::any_cast<int>(&result.extra(t, f));
            SYM_CHECK(ex != nullptr && *ex == hit->id, "extra(trial,fold) is the object the callback returned for that (trial,fold)");
            trial_value[static_cast<size_t>(t)] = trial_value[static_cast<size_t>(t)] + mean(hit->vd_err) / static_cast<double>(folds);
        }
    }
    // no grid point tried twice
    bool twice = false;
    for (tensor_size_t a = 0; a < trials && g > 0; ++a)
        for (tensor_size_t b = a + 1; b < trials; ++b) twice = twice || result.params(a)(0) == result.params(b)(0);
    SYM_CHECK(!twice, "no hyper-parameter value is tried twice");
    const auto opt = result.optimum_trial();
    SYM_CHECK(opt >= 0 && opt < trials, "optimum trial is a valid trial");
    for (tensor_size_t t = 0; t < trials; ++t)
        SYM_LE_(trial_value[static_cast<size_t>(opt)], trial_value[static_cast<size_t>(t)], "optimum trial has the smallest mean validation error across folds");
    if (order && g > 0)
    {
        // the landscape improves towards the last grid point: the optimum must be the best point that was evaluated
        for (tensor_size_t t = 0; t < trials; ++t) SYM_CHECK(result.params(opt)(0) >= result.params(t)(0), "ordered landscape: optimum is the largest evaluated grid value");
    }
}
