// C10 (merge clause): merging a list of weak learners leaves the sum of their predictions unchanged.
// The learners are real fitted learners whose internal state is then varied by the harness: table values become fresh
// symbols and (for table learners) the label -> table mapping is set to the concrete mappings given in the configuration,
// which reproduces the states that k-split / k-best fitting can produce. Lists of 2-3 learners over 1-2 features.
// config: kind=<table|affine|mixed>;n=<samples>;map1=<abc>;map2=<abc>;map3=<abc or ->;f2=<feature of the 2nd learner: 0|1>
#include "hdata.h"
#include <nano/wlearner/affine.h>
#include <nano/wlearner/criterion.h>
#include <nano/wlearner/table.h>
#include <nano/wlearner/util.h>
using namespace nano;
using namespace h;

namespace
{
int g_id = 0;
rwlearner_t make_table(const dataset_t& ds, const indices_t& samples, const tensor4d_t& G, tensor_size_t feature, const std::string& map)
{
    auto wl = std::make_unique<dense_table_wlearner_t>();
    wl->parameter("wlearner::criterion") = wlearner_criterion::rss;
    wl->fit(ds, samples, G);
    // re-target to the requested feature keeping the label hashes of that feature (fit again on a single-feature view is not
    // needed: all categorical features of the harness data source have the same 3 labels)
    wl->m_feature = feature;
    tensor_size_t ntables = 0;
    for (size_t i = 0; i < map.size(); ++i)
    {
        wl->m_hash2tables(static_cast<tensor_size_t>(i)) = map[i] - 'a';
        ntables = std::max<tensor_size_t>(ntables, map[i] - 'a' + 1);
    }
    tensor4d_t tables(cat_dims(ntables, ds.target_dims()));
    for (tensor_size_t t = 0; t < ntables; ++t) tables(t, 0, 0, 0) = sym_real(sym_nm("tab", g_id, t));
    ++g_id;
    wl->m_tables = tables;
    return wl;
}
rwlearner_t make_affine(const dataset_t& ds, const indices_t& samples, const tensor4d_t& G, tensor_size_t feature)
{
    auto wl = std::make_unique<affine_wlearner_t>();
    wl->parameter("wlearner::criterion") = wlearner_criterion::rss;
    wl->fit(ds, samples, G);
    wl->m_feature = feature;
    wl->m_tables(0, 0, 0, 0) = sym_real(sym_nm("aw", g_id));
    wl->m_tables(1, 0, 0, 0) = sym_real(sym_nm("ab", g_id));
    ++g_id;
    return wl;
}
} // namespace

extern "C" void sym_body()
{
    g_id = 0;
    const std::string   kind = cfg("kind", "table");
    const tensor_size_t n    = cfgi("n", 4);
    // features: 0,1 categorical (3 labels), 2,3 scalar (concrete cells), target regression
    symsource_t src("ssrrr", n, 4, static_cast<int>(cfgi("miss", 0)), "#");
    src.load();
    dataset_t ds(src, 1);
    add_identity_generators(ds);
    const auto samples = all_samples(n);
    tensor4d_t G(cat_dims(n, ds.target_dims()));
    for (tensor_size_t i = 0; i < n; ++i) G(i, 0, 0, 0) = static_cast<double>((i * 5 + 1) % 7) - 3.0; // concrete gradients for the initial fits

    rwlearners_t list;
    const auto   f2 = cfgi("f2", 0);
    if (kind == "table" || kind == "mixed")
    {
        list.push_back(make_table(ds, samples, G, 0, cfg("map1", "abc")));
        list.push_back(make_table(ds, samples, G, f2, cfg("map2", "abc")));
        if (cfg("map3", "-") != "-") list.push_back(make_table(ds, samples, G, 0, cfg("map3", "abc")));
    }
    if (kind == "affine" || kind == "mixed")
    {
        list.push_back(make_affine(ds, samples, G, 2));
        list.push_back(make_affine(ds, samples, G, 2 + f2));
        list.push_back(make_affine(ds, samples, G, 2));
    }
    auto predict_sum = [&](const rwlearners_t& ls)
    {
        tensor4d_t out(cat_dims(n, ds.target_dims()));
        out.zero();
        for (const auto& l : ls) l->predict(ds, samples, out.tensor());
        return out;
    };
    const auto before = predict_sum(list);
    const auto count0 = list.size();
    wlearner::merge(list);
    const auto after = predict_sum(list);
    SYM_CHECK(list.size() <= count0 && !list.empty(), "merging does not add learners");
    for (tensor_size_t i = 0; i < n; ++i) SYM_EQ_(after(i, 0, 0, 0), before(i, 0, 0, 0), "merging a list of learners leaves the sum of their predictions unchanged (every sample)");
}
