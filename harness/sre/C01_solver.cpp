// C01 (truthfulness clause) / C02 (self-consistency): the real solver_t::minimize of the configured solver on an ORACLE
// function (fresh symbolic value/gradient per evaluation, functionally consistent). For line-search solvers the whole
// line-search (lsearch_t::get) is replaced by an arbitrary move: the state is updated at `lsevals` arbitrary fresh points
// and an arbitrary boolean is returned, so every behaviour of every lsearch0 x lsearchk pairing and tolerance is covered.
// config: solver=<id>;d=<dims>;evals=<max_evals>;lsevals=<evaluations per line-search>;conv=<0|1 convex flag>;ls=<0 override|1 real>
#include "horacle.h"
#include <nano/solver.h>
#include <nano/solver/lsearch.h>
using namespace nano;
using namespace h;

namespace
{
int                              g_moves   = 0;
int                              g_lsevals = 1;
std::vector<std::vector<double>> g_descents; // descent directions handed to the line-search
std::vector<std::vector<double>> g_from;     // x of the state when the line-search was called
} // namespace

#ifndef REAL_LSEARCH
bool lsearch_t::get(solver_state_t& state, const vector_t& descent, const logger_t&) const
{
    std::vector<double> dd, xx;
    for (tensor_size_t i = 0; i < descent.size(); ++i)
    {
        dd.push_back(descent(i));
        xx.push_back(state.x()(i));
    }
    g_descents.push_back(dd);
    g_from.push_back(xx);
    bool valid = true;
    for (int e = 0; e < g_lsevals; ++e)
    {
        vector_t y(state.x().size());
        for (tensor_size_t i = 0; i < y.size(); ++i) y(i) = sym_real(sym_nm("y", g_moves, i));
        ++g_moves;
        valid = state.update(y);
    }
    const int ok = sym_choose(sym_nm("lsok", g_moves).c_str(), 2);
    return ok == 1 && valid;
}
#endif

extern "C" void sym_body()
{
    g_moves = 0;
    g_descents.clear();
    g_from.clear();
    const std::string   id    = cfg("solver", "gd");
    const tensor_size_t n     = cfgi("d", 1);
    const long          evals = cfgi("evals", 10);
    g_lsevals                 = static_cast<int>(cfgi("lsevals", 1));

    oracle_t f(n, cfgi("conv", 0) != 0, cfgi("smooth", 1) != 0);
    f.inf_at = cfgi("inf", -1);
    auto solver = solver_t::all().get(id);
    SYM_CHECK(static_cast<bool>(solver), "solver id registered");
    const double eps = sym_real_in("eps", 0.0, 0.1, 1);
    solver->parameter("solver::epsilon")   = eps;
    solver->parameter("solver::max_evals") = evals;
    if (cfgi("hist", 0) > 0 && id == "lbfgs") solver->parameter("solver::lbfgs::history") = cfgi("hist", 0);
    // bundle solvers: bundle::max_size = 2 keeps the multiplier update in its analytic branch (no inner QP on symbolic data)
    if (cfgi("bsize", 0) > 0) solver->parameter("solver::" + id + "::bundle::max_size") = cfgi("bsize", 0);

    const vector_t x0    = sym_vector("x", n);
    const auto     state = solver->minimize(f, x0, make_null_logger());

    const auto st = state.status();
    SYM_CHECK(st == solver_status::converged || st == solver_status::max_iters || st == solver_status::failed, "status is one of converged/max_iters/failed");
    SYM_CHECK(state.x().size() == n, "returned point has the function's dimension");
    SYM_CHECK(state.fcalls() <= static_cast<tensor_size_t>(f.xs.size()) && state.gcalls() <= static_cast<tensor_size_t>(f.gcount),
              "reported evaluation counts do not exceed the evaluations performed");
    SYM_CHECK(static_cast<long>(f.xs.size()) <= evals + 1100 + 8 * n, "evaluations performed <= max_evals + one outer iteration's worth");

    // a run that reports `max_iters` must have exhausted its evaluation budget (otherwise it stopped for another reason and
    // owes the caller `converged` or `failed`): bounded necessary condition of the "always reports converged" clauses
    if (cfgi("budget", 0) && st == solver_status::max_iters)
        SYM_CHECK(static_cast<long>(f.xs.size() + static_cast<size_t>(f.gcount)) >= evals, "status max_iters only when the evaluation budget is exhausted");
    const long k = f.find(state.x());
    if (st != solver_status::failed || k >= 0)
    {
        SYM_CHECK(k >= 0, "returned point is a point the function was evaluated at");
    }
    if (k < 0) return;
    const auto  ku = static_cast<size_t>(k);
    const bool  is_ls = solver->type() == solver_type::line_search;
    // the same point may have been evaluated several times: the oracle is consistent, so compare by value
    SYM_EQ_(state.fx(), f.fs[ku], "reported value = function value at the returned point");
    if (is_ls)
        for (tensor_size_t i = 0; i < n; ++i) SYM_EQ_(state.gx()(i), f.gs[ku][static_cast<size_t>(i)], "reported gradient = function gradient at the returned point");

    if (st == solver_status::converged && is_ls)
    {
        // independently recomputed stopping criterion: max|g_i| / max(1,|f|) < eps
        auto         ab    = [](double v) { return v >= 0.0 ? v : -v; };
        const double fa    = ab(f.fs[ku]);
        const double scale = fa > 1.0 ? fa : 1.0;
        for (tensor_size_t i = 0; i < n; ++i)
            SYM_LT_(ab(f.gs[ku][static_cast<size_t>(i)]), eps * scale, "converged => recomputed |g_i| < eps * max(1,|f|) at the returned point");
    }
    if (st != solver_status::failed)
    {
        SYM_CHECK(f.fs[ku] == f.fs[ku] && f.fs[ku] != std::numeric_limits<double>::infinity(), "non-failed status: returned value is finite");
    }
}
