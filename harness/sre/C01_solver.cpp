// C01 (truthfulness clause) / C02 (self-consistency): the real solver_t::minimize of the configured solver on an ORACLE
// function (fresh symbolic value/gradient per evaluation, functionally consistent). For line-search solvers the whole
// line-search (lsearch_t::get) is replaced by an arbitrary move: the state is updated at `lsevals` arbitrary fresh points
// and an arbitrary boolean is returned, so every behaviour of every lsearch0 x lsearchk pairing and tolerance is covered.
// config: solver=<id>;d=<dims>;evals=<max_evals>;lsevals=<evaluations per line-search>;conv=<0|1 convex flag>;ls=<0 override|1 real>
#include "horacle.h"
#include <nano/solver.h>
#include <nano/solver/lsearch.h>
#include <solver/quasi.h>
using namespace nano;
using namespace h;

namespace
{
int                              g_moves   = 0;
int                              g_lsevals = 1;
int                              g_prex    = 0;  // number of leading line-search moves that go to concrete points (direction units)
const double                     g_pre_moves[4][2] = {{1.0, 0.5}, {1.5, 1.25}, {2.75, 1.5}, {3.0, 2.5}};
const double                     g_pre_grads[5][2] = {{-2.0, -1.0}, {-1.0, -1.5}, {-0.5, 0.25}, {0.25, -0.125}, {0.125, 0.0625}};
std::vector<std::vector<double>> g_descents; // descent directions handed to the line-search
std::vector<std::vector<double>> g_from;     // x of the state when the line-search was called
std::vector<std::vector<double>> g_grads;    // gradient of the state when the line-search was called
} // namespace

#ifndef REAL_LSEARCH
bool lsearch_t::get(solver_state_t& state, const vector_t& descent, const logger_t&) const
{
    std::vector<double> dd, xx, gg;
    for (tensor_size_t i = 0; i < descent.size(); ++i)
    {
        dd.push_back(descent(i));
        xx.push_back(state.x()(i));
        gg.push_back(state.gx()(i));
    }
    g_descents.push_back(dd);
    g_from.push_back(xx);
    g_grads.push_back(gg);
    bool valid = true;
    for (int e = 0; e < g_lsevals; ++e)
    {
        vector_t y(state.x().size());
        for (tensor_size_t i = 0; i < y.size(); ++i)
        {
            y(i) = sym_real(sym_nm("y", g_moves, i));
            if (g_moves < g_prex && g_moves < 4 && i < 2) sym_assume_cmp(y(i), SYM_EQ, g_pre_moves[g_moves][i]); // pinned symbol: exact arithmetic
        }
        ++g_moves;
        valid = state.update(y);
    }
    const int ok = sym_choose(sym_nm("lsok", g_moves).c_str(), 2);
    return ok == 1 && valid;
}
#endif

#ifdef QP_ORACLE
// gradient-sampling solvers: the inner QP (minimum-norm element of the convex hull of the sampled gradients) is replaced by an
// arbitrary point of the simplex - every answer the interior-point solver could give, optimal or not
#include <nano/program/solver.h>
namespace
{
int g_qps = 0;
}
program::solver_state_t program::solver_t::solve(const program::quadratic_program_t& qp, const logger_t&) const
{
    const auto              p = qp.m_c.size();
    program::solver_state_t st(p, p, 1);
    double                  rest = 1.0;
    for (tensor_size_t i = 0; i + 1 < p; ++i)
    {
        st.m_x(i) = sym_real_in(sym_nm("w", g_qps, i).c_str(), 0.0, 1.0, 0);
        rest      = rest - st.m_x(i);
    }
    sym_assume_cmp(rest, SYM_GE, 0.0);
    st.m_x(p - 1) = rest;
    st.m_status   = cfgi("qpfail", 0) && sym_choose(sym_nm("qpst", g_qps).c_str(), 2) ? solver_status::failed : solver_status::converged;
    ++g_qps;
    return st;
}
#endif

extern "C" void sym_body()
{
    g_moves = 0;
    g_descents.clear();
    g_from.clear();
    g_grads.clear();
#ifdef QP_ORACLE
    g_qps = 0;
#endif
    const std::string   id    = cfg("solver", "gd");
    const tensor_size_t n     = cfgi("d", 1);
    const long          evals = cfgi("evals", 10);
    g_lsevals                 = static_cast<int>(cfgi("lsevals", 1));

    oracle_t f(n, cfgi("conv", 0) != 0, cfgi("smooth", 1) != 0);
    f.inf_at = cfgi("inf", -1);
    auto solver = solver_t::all().get(id);
    SYM_CHECK(static_cast<bool>(solver), "solver id registered");
    const double eps = sym_real_in("eps", 0.0, 0.1, 1);
    solver->parameter("solver::epsilon")   = eps;
    solver->parameter("solver::max_evals") = evals;
    if (cfgi("hist", 0) > 0 && id == "lbfgs") solver->parameter("solver::lbfgs::history") = cfgi("hist", 0);
    // bundle solvers: bundle::max_size = 2 keeps the multiplier update in its analytic branch (no inner QP on symbolic data)
    if (cfgi("qinit", 0)) solver->parameter("solver::quasi::initialization") = quasi_initialization::scaled;
    if (cfgi("bsize", 0) > 0) solver->parameter("solver::" + id + "::bundle::max_size") = cfgi("bsize", 0);

    // direction units: prex leading moves / preg leading gradient answers are concrete (d = 2), so that the deeper iterations -
    // several curvature pairs in the history - stay within reach of the solver; the remaining answers are symbolic
    g_prex = static_cast<int>(cfgi("prex", 0));
    for (long k = 0; k < cfgi("preg", 0) && k < 5 && n == 2; ++k)
    {
        f.pre_f.push_back(10.0 - static_cast<double>(k));
        f.pre_g.push_back({g_pre_grads[k][0], g_pre_grads[k][1]});
    }
    const vector_t x0 = sym_vector("x", n);
    if (g_prex > 0)
        for (tensor_size_t i = 0; i < n; ++i) sym_assume_cmp(x0(i), SYM_EQ, 0.0);
    const auto state = solver->minimize(f, x0, make_null_logger());

    const auto st = state.status();
    SYM_CHECK(st == solver_status::converged || st == solver_status::max_iters || st == solver_status::failed, "status is one of converged/max_iters/failed");
    SYM_CHECK(state.x().size() == n, "returned point has the function's dimension");
    SYM_CHECK(state.fcalls() <= static_cast<tensor_size_t>(f.xs.size()) && state.gcalls() <= static_cast<tensor_size_t>(f.gcount),
              "reported evaluation counts do not exceed the evaluations performed");
    SYM_CHECK(static_cast<long>(f.xs.size()) <= evals + 1100 + 8 * n, "evaluations performed <= max_evals + one outer iteration's worth");

    // a run that reports `max_iters` must have exhausted its evaluation budget (otherwise it stopped for another reason and
    // owes the caller `converged` or `failed`): bounded necessary condition of the "always reports converged" clauses
    if (cfgi("budget", 0) && st == solver_status::max_iters)
        SYM_CHECK(static_cast<long>(f.xs.size() + static_cast<size_t>(f.gcount)) >= evals, "status max_iters only when the evaluation budget is exhausted");
    const long k = f.find(state.x());
    if (st != solver_status::failed || k >= 0)
    {
        SYM_CHECK(k >= 0, "returned point is a point the function was evaluated at");
    }
    if (k < 0) return;
    const auto  ku = static_cast<size_t>(k);
    const bool  is_ls = solver->type() == solver_type::line_search;
    // the same point may have been evaluated several times: the oracle is consistent, so compare by value
    SYM_EQ_(state.fx(), f.fs[ku], "reported value = function value at the returned point");
    if (is_ls)
        for (tensor_size_t i = 0; i < n; ++i) SYM_EQ_(state.gx()(i), f.gs[ku][static_cast<size_t>(i)], "reported gradient = function gradient at the returned point");

    if (st == solver_status::converged && is_ls)
    {
        // independently recomputed stopping criterion: max|g_i| / max(1,|f|) < eps
        auto         ab    = [](double v) { return v >= 0.0 ? v : -v; };
        const double fa    = ab(f.fs[ku]);
        const double scale = fa > 1.0 ? fa : 1.0;
        for (tensor_size_t i = 0; i < n; ++i)
            SYM_LT_(ab(f.gs[ku][static_cast<size_t>(i)]), eps * scale, "converged => recomputed |g_i| < eps * max(1,|f|) at the returned point");
    }
    if (st != solver_status::failed)
    {
        SYM_CHECK(f.fs[ku] == f.fs[ku] && f.fs[ku] != std::numeric_limits<double>::infinity(), "non-failed status: returned value is finite");
    }

    // ---- search directions (dir=1): the directions handed to the line-search equal their textbook definitions, for ANY sequence of
    // iterates and gradients (the line-search moves arbitrarily, the gradients are the oracle's answers):
    //   lbfgs : two-loop recursion == -H_k g_k with H_k the explicit BFGS matrix built from the kept (s, y) pairs on gamma*I
    //   bfgs / dfp : -H_k g_k with H_k updated by the explicit update formula from the identity
    // including the restart rules (not a descent direction => steepest descent, history / matrix reset).
    if (cfgi("dir", 0) && (id == "lbfgs" || id == "bfgs" || id == "dfp" || id == "hoshino"))
    {
        using mat = std::vector<std::vector<double>>;
        const auto N     = static_cast<size_t>(n);
        auto       ident = [&](double v)
        {
            mat m(N, std::vector<double>(N, 0.0));
            for (size_t i = 0; i < N; ++i) m[i][i] = v;
            return m;
        };
        auto dot = [&](const std::vector<double>& a, const std::vector<double>& b)
        {
            double r = 0.0;
            for (size_t i = 0; i < N; ++i) r = r + a[i] * b[i];
            return r;
        };
        auto mulv = [&](const mat& m, const std::vector<double>& v)
        {
            std::vector<double> r(N, 0.0);
            for (size_t i = 0; i < N; ++i)
                for (size_t j = 0; j < N; ++j) r[i] = r[i] + m[i][j] * v[j];
            return r;
        };
        auto bfgs = [&](const mat& H, const std::vector<double>& sv, const std::vector<double>& yv)
        {
            const double rho = 1.0 / dot(sv, yv);
            mat          A(N, std::vector<double>(N, 0.0)), R(N, std::vector<double>(N, 0.0)), T(N, std::vector<double>(N, 0.0));
            for (size_t i = 0; i < N; ++i)
                for (size_t j = 0; j < N; ++j) A[i][j] = (i == j ? 1.0 : 0.0) - rho * sv[i] * yv[j];
            for (size_t i = 0; i < N; ++i)
                for (size_t j = 0; j < N; ++j)
                    for (size_t k = 0; k < N; ++k) T[i][j] = T[i][j] + A[i][k] * H[k][j];
            for (size_t i = 0; i < N; ++i)
                for (size_t j = 0; j < N; ++j)
                {
                    for (size_t k = 0; k < N; ++k) R[i][j] = R[i][j] + T[i][k] * A[j][k];
                    R[i][j] = R[i][j] + rho * sv[i] * sv[j];
                }
            return R;
        };
        auto dfp = [&](const mat& H, const std::vector<double>& sv, const std::vector<double>& yv)
        {
            const auto   Hy  = mulv(H, yv);
            const double sy = dot(sv, yv), yHy = dot(yv, Hy);
            mat          R = H;
            for (size_t i = 0; i < N; ++i)
                for (size_t j = 0; j < N; ++j) R[i][j] = R[i][j] + sv[i] * sv[j] / sy - Hy[i] * Hy[j] / yHy;
            return R;
        };
        const size_t                      hist = static_cast<size_t>(cfgi("hist", 0) > 0 ? cfgi("hist", 0) : 20);
        std::vector<std::vector<double>> ss, ys;
        mat                              H = ident(1.0);
        for (size_t k = 0; k < g_descents.size(); ++k)
        {
            const auto& g = g_grads[k];
            // reference direction
            std::vector<double> d(N, 0.0);
            if (id == "lbfgs")
            {
                mat Hk = ident(1.0);
                if (!ss.empty())
                {
                    Hk = ident(dot(ss.back(), ys.back()) / dot(ys.back(), ys.back()));
                    for (size_t j = 0; j < ss.size(); ++j) Hk = bfgs(Hk, ss[j], ys[j]);
                }
                d = mulv(Hk, g);
            }
            else d = mulv(H, g);
            for (size_t i = 0; i < N; ++i) d[i] = -d[i];
            const bool descent_ok = dot(d, g) < 0.0;
            if (!descent_ok)
            {
                for (size_t i = 0; i < N; ++i) d[i] = -g[i];
                H = ident(1.0);
            }
            for (size_t i = 0; i < N; ++i) SYM_EQ_(g_descents[k][i], d[i], "search direction = -H_k g_k with H_k by the explicit update formulas (steepest descent + reset when not a descent direction)");
            if (k + 1 >= g_descents.size()) break;
            // the pair produced by this iteration (the next line-search starts from the accepted point)
            std::vector<double> sv(N), yv(N);
            for (size_t i = 0; i < N; ++i)
            {
                sv[i] = g_from[k + 1][i] - g_from[k][i];
                yv[i] = g_grads[k + 1][i] - g_grads[k][i];
            }
            if (id == "lbfgs")
            {
                if (descent_ok)
                {
                    ss.push_back(sv);
                    ys.push_back(yv);
                    if (ss.size() > hist)
                    {
                        ss.erase(ss.begin());
                        ys.erase(ys.begin());
                    }
                }
                else
                {
                    ss.clear();
                    ys.clear();
                }
            }
            else
            {
                // solver::quasi::initialization = scaled: the first update starts from (s.y / y.y) I
                if (k == 0 && cfgi("qinit", 0)) H = ident(dot(sv, yv) / dot(yv, yv));
                if (id == "bfgs") H = bfgs(H, sv, yv);
                else if (id == "dfp") H = dfp(H, sv, yv);
                else
                {
                    // Hoshino: (1 - phi) DFP + phi BFGS with phi = s.y / (s.y + y.H.y)
                    const double phi = dot(sv, yv) / (dot(sv, yv) + dot(yv, mulv(H, yv)));
                    const auto   D = dfp(H, sv, yv), B = bfgs(H, sv, yv);
                    for (size_t i = 0; i < N; ++i)
                        for (size_t j = 0; j < N; ++j) H[i][j] = (1.0 - phi) * D[i][j] + phi * B[i][j];
                }
            }
        }
    }

    // ---- conjugate-gradient directions (dir=1): d_0 = -g_0, d_k = -g_k + beta_k d_{k-1} with the documented beta of the variant,
    // restarted to -g_k when d_k is not a descent direction or |g_k.g_{k-1}| >= orthotest * g_k.g_k
    if (cfgi("dir", 0) && id.rfind("cgd-", 0) == 0 && id != "cgd-n")
    {
        const auto N   = static_cast<size_t>(n);
        auto       dot = [&](const std::vector<double>& a, const std::vector<double>& b)
        {
            double r = 0.0;
            for (size_t i = 0; i < N; ++i) r = r + a[i] * b[i];
            return r;
        };
        auto sub = [&](const std::vector<double>& a, const std::vector<double>& b)
        {
            std::vector<double> r(N);
            for (size_t i = 0; i < N; ++i) r[i] = a[i] - b[i];
            return r;
        };
        const double        orthotest = solver->parameter("solver::cgd::orthotest").value<scalar_t>();
        std::vector<double> pd;
        for (size_t k = 0; k < g_descents.size(); ++k)
        {
            const auto&         g = g_grads[k];
            std::vector<double> d(N);
            for (size_t i = 0; i < N; ++i) d[i] = -g[i];
            if (k > 0)
            {
                const auto&  pg = g_grads[k - 1];
                const auto   y  = sub(g, pg);
                const double hs = dot(g, y) / dot(pd, y), fr = dot(g, g) / dot(pg, pg), pr = dot(g, y) / dot(pg, pg);
                const double cd = -dot(g, g) / dot(pd, pg), ls = -dot(g, y) / dot(pd, pg), dy = dot(g, g) / dot(pd, y);
                double       beta = 0.0;
                auto plus = [](double v) { return v > 0.0 ? v : 0.0; }; // HS+, PR+, LS+ (documented variants)
                if (id == "cgd-hs") beta = plus(hs);
                else if (id == "cgd-fr") beta = fr;
                else if (id == "cgd-pr") beta = plus(pr);
                else if (id == "cgd-cd") beta = cd;
                else if (id == "cgd-ls") beta = plus(ls);
                else if (id == "cgd-dy") beta = dy;
                else if (id == "cgd-dyhs")
                {
                    const double m = dy < hs ? dy : hs;
                    beta           = m > 0.0 ? m : 0.0;
                }
                else if (id == "cgd-dycd")
                {
                    const double a = dot(pd, y), b = -dot(pd, pg);
                    beta           = dot(g, g) / (a < b ? b : a);
                }
                else // cgd-frpr
                    beta = pr < -fr ? -fr : ((pr < 0.0 ? -pr : pr) <= fr ? pr : fr);
                std::vector<double> c(N);
                for (size_t i = 0; i < N; ++i) c[i] = -g[i] + beta * pd[i];
                const double gp = dot(g, pg);
                if (dot(c, g) < 0.0 && !((gp < 0.0 ? -gp : gp) >= orthotest * dot(g, g))) d = c;
            }
            for (size_t i = 0; i < N; ++i) SYM_EQ_(g_descents[k][i], d[i], "CG direction = -g_k + beta_k d_{k-1} with the variant's beta (restart to -g_k when not descent / orthogonality test fails)");
            pd = d;
        }
    }
}
