// C06 (benchmark functions): for the registered function `fn` at `d` dimensions
//   * the value-only and value+gradient calls return the same value
//   * the returned gradient is the derivative of the value at every generic point (symbolic differentiation of the very
//     term the implementation computed for the value; kinks = points where a comparison holds with equality are excluded)
//   * functions declaring themselves convex satisfy f(z) >= f(x) + g(x).(z-x) (+ mu/2 |z-x|^2) for symbolic x, z
// config: fn=<id>;d=<dims>;s=<summands>;cvx=<0|1: also check the convexity inequality>;box=<radius>
#include "hcommon.h"
using namespace nano;
using namespace h;

extern "C" void sym_body()
{
    const std::string   id  = cfg("fn", "sphere");
    const tensor_size_t d   = cfgi("d", 2);
    const double        box = static_cast<double>(cfgi("box", 4));
    const auto          proto = function_t::all().get(id);
    SYM_CHECK(static_cast<bool>(proto), "function id registered");
    const auto f = proto->make(d, cfgi("s", 2));
    SYM_CHECK(static_cast<bool>(f) && f->size() == d, "function built at the requested dimension");
    if (!f || f->size() != d) return;

    vector_t x(d), g(d);
    for (tensor_size_t i = 0; i < d; ++i) x(i) = sym_box(sym_nm("x", i), -box, box);
    const double v  = f->vgrad(x, g);
    const double v0 = f->vgrad(x);
    SYM_EQ_(v0, v, "value-only call = value+gradient call");
    for (tensor_size_t i = 0; i < d; ++i)
    {
        if (sym_concrete())
        {
        const double h = 1e-6;
        vector_t     xp = x, xm = x;
        xp(i) += h;
        xm(i) -= h;
        const double fd = (f->vgrad(xp) - f->vgrad(xm)) / (2 * h);
        sym_close(g(i), fd, 1e-4, "gradient = derivative of the value (generic points)");
        }
        else sym_check_deriv(v0, sym_nm("x", i).c_str(), g(i), "gradient = derivative of the value (generic points)");
    }
    if (f->convex() && cfgi("cvx", 1))
    {
        if (sym_uf_count() > 0)
        {
            sym_note("convexity inequality skipped: the value involves exp/log (over-approximated)");
            return;
        }
        vector_t z(d);
        for (tensor_size_t i = 0; i < d; ++i) z(i) = sym_box(sym_nm("z", i), -box, box);
        const double fz = f->vgrad(z);
        double       rhs = v, sq = 0.0;
        for (tensor_size_t i = 0; i < d; ++i)
        {
            rhs = rhs + g(i) * (z(i) - x(i));
            sq  = sq + (z(i) - x(i)) * (z(i) - x(i));
        }
        rhs = rhs + 0.5 * f->strong_convexity() * sq;
        SYM_GE_(fz, rhs, "declared convex => f(z) >= f(x) + g(x).(z-x) + (mu/2)|z-x|^2");
    }
}
