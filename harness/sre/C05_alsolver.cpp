// C05 (clause 2): the real augmented-Lagrangian outer loop with the INNER solver replaced by a scripted oracle
// (solver_t::make_solver returns a solver whose minimize() returns the state of the real penalty function at an arbitrary
// fresh symbolic point), so every behaviour of the inner minimisation is covered. Whenever the solver reports `converged`:
//   every |h_j(x)| and max(0, g_i(x)) recomputed from the problem at the returned point is <= epsilon, and the constraint
//   values / feasibility KKT residuals stored in the returned state equal the recomputed ones.
// solver=lp / qp: the same outer-loop treatment for the linear / quadratic penalty solvers (honest result: reported value = objective
// at the returned point, stored constraint values = recomputed; no feasibility promise)
// config: d=<1|2>;cons=<b|l|lb|q>;outers=<explored outer iterations>;eps=<sym|big>;solver=<al|lp|qp>
#include "hcommon.h"
#include <nano/solver.h>
#include <nano/solver/augmented.h>
#include <nano/solver/penalty.h>
using namespace nano;
using namespace h;

namespace
{
int g_calls = 0, g_maxcalls = 2;
struct scripted_t final : solver_t
{
    scripted_t() : solver_t("scripted") { type(solver_type::line_search); }
    rsolver_t      clone() const override { return std::make_unique<scripted_t>(*this); }
    solver_state_t do_minimize(const function_t& function, const vector_t& x0, const logger_t&) const override
    {
        if (g_calls >= g_maxcalls) sym_prune(); // exploration depth bound (stated in the evidence)
        vector_t y(x0.size());
        for (tensor_size_t i = 0; i < y.size(); ++i) y(i) = sym_box(sym_nm("y", g_calls, i), -8.0, 8.0);
        ++g_calls;
        return solver_state_t{function, y};
    }
};
double ab(double v) { return v >= 0.0 ? v : -v; }
} // namespace

rsolver_t solver_t::make_solver(const function_t&, const scalar_t, const tensor_size_t)
{
    return std::make_unique<scripted_t>();
}

extern "C" void sym_body()
{
    g_calls                 = 0;
    g_maxcalls              = static_cast<int>(cfgi("outers", 2));
    const tensor_size_t n   = cfgi("d", 1);
    const std::string   cns = cfg("cons", "b");
    symquad_t           f(sym_psd("D", n), sym_vector_in("c", n, -8.0, 8.0), 0.0, true);

    // constraints with independently written reference evaluators: (is equality, value at z)
    struct ref_t
    {
        bool                                       eq;
        std::function<double(const vector_t&)> value;
    };
    std::vector<ref_t> refs;
    bool               ok = true;
    for (const char k : cns)
    {
        const auto id = static_cast<long>(refs.size());
        if (k == 'b')
        {
            const double lo = sym_box(sym_nm("lo", id), -4.0, 0.0), hi = sym_box(sym_nm("hi", id), 0.0, 4.0);
            ok = ok && f.constrain(constraint::minimum_t{lo, 0}) && f.constrain(constraint::maximum_t{hi, 0});
            refs.push_back({false, [lo](const vector_t& z) { return lo - z(0); }});
            refs.push_back({false, [hi](const vector_t& z) { return z(0) - hi; }});
        }
        else if (k == 'l' || k == 'e')
        {
            const vector_t q = sym_vector_in(sym_nm("lq", id).c_str(), n, -4.0, 4.0);
            const double   r = sym_box(sym_nm("lr", id), -4.0, 4.0);
            if (k == 'l') ok = ok && f.constrain(constraint::linear_inequality_t{q, r});
            else ok = ok && f.constrain(constraint::linear_equality_t{q, r});
            refs.push_back({k == 'e', [q, r](const vector_t& z) {
                                double v = r;
                                for (tensor_size_t i = 0; i < z.size(); ++i) v = v + q(i) * z(i);
                                return v;
                            }});
        }
        else
        {
            const vector_t o = sym_vector_in(sym_nm("bo", id).c_str(), n, -4.0, 4.0);
            const double   r = sym_box(sym_nm("br", id), 0.5, 4.0);
            ok               = ok && f.constrain(constraint::euclidean_ball_inequality_t{o, r});
            refs.push_back({false, [o, r](const vector_t& z) {
                                double v = -r * r;
                                for (tensor_size_t i = 0; i < z.size(); ++i) v = v + (z(i) - o(i)) * (z(i) - o(i));
                                return v;
                            }});
        }
    }
    SYM_CHECK(ok, "constrain() accepts the constraints (harness precondition)");

    const bool is_al = cfg("solver", "al") == "al";
    rsolver_t  psolver;
    if (is_al) psolver = std::make_unique<solver_augmented_lagrangian_t>();
    else if (cfg("solver", "al") == "lp") psolver = std::make_unique<solver_linear_penalty_t>();
    else psolver = std::make_unique<solver_quadratic_penalty_t>();
    auto&        solver = *psolver;
    const double eps = cfg("eps", "sym") == "sym" ? sym_box("eps", 1e-8, 1e-1) : 0.1;
    solver.parameter("solver::epsilon")   = eps;
    solver.parameter("solver::max_evals") = 100;
    const vector_t x0    = sym_vector_in("x", n, -8.0, 8.0);
    const auto     state = solver.minimize(f, x0, make_null_logger());

    vector_t xr = state.x();
    tensor_size_t ie = 0, ii = 0;
    double        t1 = 0.0, t2 = 0.0;
    for (const auto& r : refs)
    {
        const double v = r.value(xr);
        if (r.eq)
        {
            SYM_EQ_(state.ceq()(ie++), v, "stored equality value = recomputed h_j(x) at the returned point");
            t2 = ab(v) > t2 ? ab(v) : t2;
            if (is_al && state.status() == solver_status::converged) SYM_LE_(ab(v), eps, "converged => |h_j(x)| <= epsilon at the returned point");
        }
        else
        {
            SYM_EQ_(state.cineq()(ii++), v, "stored inequality value = recomputed g_i(x) at the returned point");
            const double p = v > 0.0 ? v : 0.0;
            t1             = p > t1 ? p : t1;
            if (is_al && state.status() == solver_status::converged) SYM_LE_(p, eps, "converged => max(0, g_i(x)) <= epsilon at the returned point");
        }
    }
    SYM_EQ_(state.kkt_optimality_test1(), t1, "KKT feasibility residual 1 = max_i max(0, g_i(x)) recomputed");
    SYM_EQ_(state.kkt_optimality_test2(), t2, "KKT feasibility residual 2 = max_j |h_j(x)| recomputed");
    SYM_EQ_(state.fx(), quad_value(f.Q, f.c, 0.0, xr), "reported value = objective at the returned point");
}
