// C14: feature scaling is invertible, has the advertised statistics, skips missing values and categorical columns;
// the affine up-scaling of a linear model (nano::upscale) yields the same predictor on raw inputs.
// config: f=<feature kinds>;n=<samples>;miss=<pattern>;fs=<flatten scaling 0..3>;ts=<target scaling 0..3>
#include "hdata.h"
#include <nano/dataset/stats.h>
using namespace nano;
using namespace h;

extern "C" void sym_body()
{
    const std::string   kinds = cfg("f", "rrr");
    const tensor_size_t n     = cfgi("n", 3);
    const long          tgt   = cfgi("t", static_cast<long>(kinds.size()) - 1);
    const auto          fsc   = static_cast<scaling_type>(cfgi("fs", 2));
    const auto          tsc   = static_cast<scaling_type>(cfgi("ts", 0));
    symsource_t         src(kinds, n, tgt, static_cast<int>(cfgi("miss", 0)));
    src.load();
    dataset_t ds(src, setup_workers(cfgi("threads", 1), cfgi("sched", 0))); // threads>1: sequentialised multi-worker pool (see sre_support.cpp)
    add_identity_generators(ds);
    const auto samples = all_samples(n);

    tensor2d_t fbuf;
    const auto flat  = ds.flatten(samples, fbuf);
    const auto fstat = scalar_stats_t::make_flatten_stats(ds, samples);
    const auto cols  = ds.columns();
    SYM_CHECK(fstat.m_min.size() == cols, "one statistic per flattened column");

    // reference statistics over the given (non-NaN) values of every column
    for (tensor_size_t c = 0; c < cols; ++c)
    {
        const auto ifeat   = ds.column2feature(c);
        const auto feature = ds.feature(ifeat);
        const bool categorical = feature.is_sclass() || feature.is_mclass();
        std::vector<double> vals;
        for (tensor_size_t s = 0; s < n; ++s)
            if (!(flat(s, c) != flat(s, c))) vals.push_back(flat(s, c));
        const auto N = static_cast<tensor_size_t>(vals.size());
        if (categorical)
        {
            SYM_CHECK(fstat.m_mean(c) == 0.0 && fstat.m_div_range(c) == 1.0 && fstat.m_div_stdev(c) == 1.0 && fstat.m_min(c) == 0.0 &&
                          fstat.m_mul_range(c) == 1.0 && fstat.m_mul_stdev(c) == 1.0,
                      "categorical column: neutral statistics (never rescaled)");
            continue;
        }
        SYM_CHECK(fstat.m_samples(c) == N, "statistics count only the given values");
        if (N == 0)
        {
            SYM_CHECK(fstat.m_min(c) == 0.0 && fstat.m_max(c) == 0.0 && fstat.m_mean(c) == 0.0 && fstat.m_div_range(c) == 1.0,
                      "all-missing column: neutral statistics");
            continue;
        }
        double sum = 0.0, sq = 0.0;
        for (const auto v : vals)
        {
            sum = sum + v;
            sq  = sq + v * v;
            SYM_LE_(fstat.m_min(c), v, "min <= every given value");
            SYM_GE_(fstat.m_max(c), v, "max >= every given value");
        }
        bool hitmin = false, hitmax = false;
        for (const auto v : vals)
        {
            hitmin = hitmin || v == fstat.m_min(c);
            hitmax = hitmax || v == fstat.m_max(c);
        }
        SYM_CHECK(hitmin && hitmax, "min and max are attained by given values");
        if (N > 1)
        {
            SYM_EQ_(fstat.m_mean(c) * static_cast<double>(N), sum, "mean = sum / N");
            SYM_EQ_(fstat.m_stdev(c) * fstat.m_stdev(c) * static_cast<double>(N - 1), sq - sum * sum / static_cast<double>(N),
                    "stdev^2 (N-1) = sum of squares - sum^2/N");
            SYM_GE_(fstat.m_stdev(c), 0.0, "stdev >= 0");
        }
        else
        {
            SYM_CHECK(fstat.m_div_range(c) == 1.0 && fstat.m_div_stdev(c) == 1.0 && fstat.m_mul_range(c) == 1.0 && fstat.m_mul_stdev(c) == 1.0,
                      "single-sample column: unit denominators");
            SYM_EQ_(fstat.m_mean(c), vals[0], "single-sample column: mean is the value");
        }
    }

    // scale: advertised range / mean / deviation; missing -> 0; upscale(scale(x)) = x
    tensor2d_t scaled = flat;
    fstat.scale(fsc, scaled.tensor());
    tensor2d_t back = scaled;
    fstat.upscale(fsc, back.tensor());
    const double eps = epsilon2<scalar_t>();
    for (tensor_size_t c = 0; c < cols; ++c)
    {
        const auto ifeat       = ds.column2feature(c);
        const auto feature     = ds.feature(ifeat);
        const bool categorical = feature.is_sclass() || feature.is_mclass();
        double     smin = 0, smax = 0, ssum = 0, ssq = 0;
        tensor_size_t N = 0;
        for (tensor_size_t s = 0; s < n; ++s)
        {
            const bool missing = flat(s, c) != flat(s, c);
            if (missing)
            {
                SYM_CHECK(scaled(s, c) == 0.0, "missing value becomes zero after scaling");
                continue;
            }
            if (categorical)
            {
                SYM_EQ_(scaled(s, c), flat(s, c), "categorical column is not rescaled");
                continue;
            }
            SYM_EQ_(back(s, c), flat(s, c), "upscale(scale(x)) = x");
            const double v = scaled(s, c);
            smin = N == 0 ? v : (v < smin ? v : smin);
            smax = N == 0 ? v : (v > smax ? v : smax);
            ssum = ssum + v;
            ssq  = ssq + v * v;
            ++N;
        }
        if (categorical || N < 2) continue;
        const double range = fstat.m_max(c) - fstat.m_min(c);
        switch (fsc)
        {
        case scaling_type::minmax:
            SYM_EQ_(smin, 0.0, "minmax: scaled minimum is 0");
            if (range > eps) SYM_EQ_(smax, 1.0, "minmax: scaled maximum is 1 (non-degenerate range)");
            break;
        case scaling_type::mean:
            SYM_EQ_(ssum, 0.0, "mean: scaled column has zero mean");
            if (range > eps) SYM_EQ_(smax - smin, 1.0, "mean: scaled column has unit range (non-degenerate range)");
            break;
        case scaling_type::standard:
            SYM_EQ_(ssum, 0.0, "standard: scaled column has zero mean");
            if (fstat.m_stdev(c) > eps) SYM_EQ_(ssq, static_cast<double>(N - 1), "standard: scaled column has unit sample deviation");
            break;
        default: break;
        }
    }

    // affine up-scaling of a linear model
    if (tgt >= 0 && kinds[static_cast<size_t>(tgt)] == 'r')
    {
        const auto    tstat = scalar_stats_t::make_targets_stats(ds, samples);
        const auto    tdims = tstat.m_min.size();
        tensor2d_t    W(tdims, cols);
        tensor1d_t    b(tdims);
        for (tensor_size_t i = 0; i < tdims; ++i)
        {
            b(i) = sym_real(sym_nm("b", i));
            for (tensor_size_t c = 0; c < cols; ++c) W(i, c) = sym_real(sym_nm("W", i, c));
        }
        // raw input (finite)
        tensor2d_t x(1, cols);
        for (tensor_size_t c = 0; c < cols; ++c) x(0, c) = sym_real(sym_nm("x", c));
        tensor2d_t xs = x;
        fstat.scale(fsc, xs.tensor());
        // prediction of the original model on scaled inputs, then up-scaled
        tensor2d_t y(1, tdims);
        for (tensor_size_t i = 0; i < tdims; ++i)
        {
            double v = b(i);
            for (tensor_size_t c = 0; c < cols; ++c) v = v + W(i, c) * xs(0, c);
            y(0, i) = v;
        }
        tstat.upscale(tsc, y.tensor());
        // converted model on raw inputs
        tensor2d_t W2 = W;
        tensor1d_t b2 = b;
        ::nano::upscale(fstat, fsc, tstat, tsc, W2.tensor(), b2.tensor());
        for (tensor_size_t i = 0; i < tdims; ++i)
        {
            double v = b2(i);
            for (tensor_size_t c = 0; c < cols; ++c) v = v + W2(i, c) * x(0, c);
            SYM_EQ_(v, y(0, i), "up-scaled linear model on raw inputs = up-scaled prediction of the scaled model");
        }
    }
}
