// C11 (final stage of gboost_model_t::fit): the real fit() runs with a SCRIPTED tuning driver (link-time replacement of
// nano::ml::tune): instead of boosting, the driver hands back, for every (trial, fold), symbolic error/loss tensors and a
// per-fold boosting result whose bias and weak-learner coefficients are SYMBOLIC. Everything after the driver is the real
// code: choice of the optimum trial, summation / merging / averaging of the per-fold models, prediction of the final model
// on the dataset, evaluation of errors and losses, restriction to the fitted samples and storage of the final statistics.
// Obligations:
//   * the final model predicts the average of the per-fold models of the optimum trial (bias + sum of weak learners)
//   * the final statistics stored in the result equal those recomputed from scratch by predicting with the final model on
//     the samples given to fit() (count, mean of errors, mean of losses)
//   * the optimum trial is the one with the smallest mean validation error
// config: n=<dataset samples>;sub=<0: fit on all samples | 1: on a strict subset>;T=<trials>;F=<folds>;wl=<weak learners per fold>
#include "hdata.h"
#include <any>
#include <nano/gboost/model.h>
#include <nano/gboost/result.h>
#include <nano/loss.h>
#include <nano/machine/tune.h>
#include <nano/wlearner/affine.h>
#include <nano/wlearner/criterion.h>
using namespace nano;
using namespace h;

namespace
{
struct script_t
{
    tensor_size_t                                 trials{1}, folds{2}, wlearners{1};
    const dataset_t*                              dataset{nullptr};
    std::vector<double>                           valid_mean;                 ///< [trial]: mean over folds of the validation errors handed out
    std::vector<std::vector<double>>              bias;                       ///< [trial][fold]
    std::vector<std::vector<std::vector<double>>> w, b;                       ///< [trial][fold][learner]
    std::vector<std::vector<std::vector<tensor_size_t>>> feature;             ///< [trial][fold][learner]
    int                                           calls{0};
} g_script;

rwlearner_t make_affine(tensor_size_t feature, double w, double b)
{
    const auto& ds = *g_script.dataset;
    auto        wl = std::make_unique<affine_wlearner_t>();
    wl->parameter("wlearner::criterion") = wlearner_criterion::rss;
    // a real fit on concrete gradients gives the object its shape; its state is then replaced by symbolic coefficients
    tensor4d_t G(cat_dims(ds.samples(), ds.target_dims()));
    for (tensor_size_t i = 0; i < ds.samples(); ++i) G(i, 0, 0, 0) = static_cast<double>((i * 5 + 1) % 7) - 3.0;
    wl->fit(ds, all_samples(ds.samples()), G);
    wl->m_feature            = feature;
    wl->m_tables(0, 0, 0, 0) = w;
    wl->m_tables(1, 0, 0, 0) = b;
    return wl;
}
} // namespace

// scripted driver (the library's definition is weak in the harness build)
ml::result_t nano::ml::tune(const string_t&, const indices_t& samples, const params_t&, param_spaces_t param_spaces, const tune_callback_t&)
{
    auto&      sc     = g_script;
    const auto T      = sc.trials;
    const auto F      = sc.folds;
    const auto nparam = static_cast<tensor_size_t>(param_spaces.size());
    tensor2d_t params(T, nparam);
    for (tensor_size_t t = 0; t < T; ++t)
        for (tensor_size_t p = 0; p < nparam; ++p)
        {
            const auto& vals = param_spaces[static_cast<size_t>(p)].values();
            params(t, p)     = vals(std::min<tensor_size_t>(t, vals.size() - 1));
        }
    auto result = ml::result_t{std::move(param_spaces), F};
    result.add(params);
    ++sc.calls;
    sc.valid_mean.assign(static_cast<size_t>(T), 0.0);
    sc.bias.assign(static_cast<size_t>(T), std::vector<double>(static_cast<size_t>(F), 0.0));
    sc.w.assign(static_cast<size_t>(T), std::vector<std::vector<double>>(static_cast<size_t>(F)));
    sc.b = sc.w;
    sc.feature.assign(static_cast<size_t>(T), std::vector<std::vector<tensor_size_t>>(static_cast<size_t>(F)));
    for (tensor_size_t t = 0; t < T; ++t)
        for (tensor_size_t f = 0; f < F; ++f)
        {
            const auto ut = static_cast<size_t>(t), uf = static_cast<size_t>(f);
            tensor2d_t tr(2, 1), vd(2, 1);
            tr(0, 0) = sym_box(sym_nm("te", t, f), 0.0, 100.0);
            tr(1, 0) = sym_box(sym_nm("tl", t, f), 0.0, 100.0);
            vd(0, 0) = sym_box(sym_nm("ve", t, f), 0.0, 100.0);
            vd(1, 0) = sym_box(sym_nm("vl", t, f), 0.0, 100.0);
            sc.valid_mean[ut] = sc.valid_mean[ut] + vd(0, 0) / static_cast<double>(F);
            gboost::result_t fold;
            fold.m_bias.resize(1);
            sc.bias[ut][uf] = sym_box(sym_nm("bias", t, f), -8.0, 8.0);
            fold.m_bias(0)  = sc.bias[ut][uf];
            for (tensor_size_t k = 0; k < sc.wlearners; ++k)
            {
                const auto feat = (t + f + k) % sc.dataset->features();
                const auto w = sym_box(sym_nm("w", t * 10 + f, k), -4.0, 4.0), b = sym_box(sym_nm("b", t * 10 + f, k), -4.0, 4.0);
                sc.w[ut][uf].push_back(w);
                sc.b[ut][uf].push_back(b);
                sc.feature[ut][uf].push_back(feat);
                fold.m_wlearners.push_back(make_affine(feat, w, b));
            }
            result.store(t, f, tr, vd, std::any{std::move(fold)});
        }
    (void)samples;
    return result;
}

extern "C" void sym_body()
{
    const tensor_size_t n = cfgi("n", 4);
    g_script              = script_t{};
    g_script.trials       = cfgi("T", 1);
    g_script.folds        = cfgi("F", 2);
    g_script.wlearners    = cfgi("wl", 1);

    // two scalar features with concrete cells, symbolic regression target
    symsource_t src("rrr", n, 2, 0, "#");
    for (tensor_size_t s = 0; s < n; ++s) src.V[static_cast<size_t>(s)][2][0] = sym_box(sym_nm("y", s), -8.0, 8.0);
    src.load();
    dataset_t ds(src, 1);
    add_identity_generators(ds);
    g_script.dataset = &ds;

    indices_t samples = all_samples(n);
    if (cfgi("sub", 1))
    {
        samples.resize(n - 2);
        for (tensor_size_t i = 0; i + 2 < n; ++i) samples(i) = i + 1; // strict subset: first and last sample left out
    }

    auto loss = loss_t::all().get("mse");
    SYM_CHECK(static_cast<bool>(loss), "loss registered");
    gboost_model_t model;
    rwlearners_t   protos;
    protos.push_back(std::make_unique<affine_wlearner_t>());
    model.prototypes(std::move(protos));

    const auto result = model.fit(ds, samples, *loss);
    SYM_CHECK(g_script.calls == 1, "fit() runs the tuning driver once");

    // optimum trial
    const auto opt = result.optimum_trial();
    SYM_CHECK(opt >= 0 && opt < g_script.trials, "optimum trial is a valid trial");
    for (tensor_size_t t = 0; t < g_script.trials; ++t)
        SYM_LE_(g_script.valid_mean[static_cast<size_t>(opt)], g_script.valid_mean[static_cast<size_t>(t)], "optimum trial has the smallest mean validation error across folds");

    // reference prediction: average over folds of (bias + sum of the fold's weak learners)
    auto fvalue = [&](tensor_size_t f, tensor_size_t s) { return src.V[static_cast<size_t>(s)][static_cast<size_t>(f)][0]; };
    auto refpred = [&](tensor_size_t s)
    {
        double     p  = 0.0;
        const auto uo = static_cast<size_t>(opt);
        for (tensor_size_t f = 0; f < g_script.folds; ++f)
        {
            const auto uf = static_cast<size_t>(f);
            double     q  = g_script.bias[uo][uf];
            for (size_t k = 0; k < g_script.w[uo][uf].size(); ++k) q = q + g_script.w[uo][uf][k] * fvalue(g_script.feature[uo][uf][k], s) + g_script.b[uo][uf][k];
            p = p + q / static_cast<double>(g_script.folds);
        }
        return p;
    };
    const auto all  = all_samples(n);
    const auto outs = model.predict(ds, all);
    for (tensor_size_t s = 0; s < n; ++s) SYM_EQ_(outs(s, 0, 0, 0), refpred(s), "final model predicts the average of the per-fold models of the optimum trial (bias + sum of weak learners)");
    // bias + sum of the (merged, scaled) weak learners
    {
        tensor4d_t acc(cat_dims(n, ds.target_dims()));
        for (tensor_size_t s = 0; s < n; ++s) acc(s, 0, 0, 0) = model.bias()(0);
        for (const auto& wl : model.wlearners()) wl->predict(ds, all, acc.tensor());
        for (tensor_size_t s = 0; s < n; ++s) SYM_EQ_(outs(s, 0, 0, 0), acc(s, 0, 0, 0), "model prediction = bias + sum of its weak learners' predictions");
    }

    // final statistics = recomputed from scratch on the samples given to fit()
    double esum = 0.0, lsum = 0.0;
    for (tensor_size_t i = 0; i < samples.size(); ++i)
    {
        const auto   s = samples(i);
        const double d = outs(s, 0, 0, 0) - src.V[static_cast<size_t>(s)][2][0];
        lsum           = lsum + 0.5 * d * d;
        esum           = esum + (d < 0.0 ? -d : d);
    }
    const auto m       = static_cast<double>(samples.size());
    const auto estats  = result.stats(ml::value_type::errors);
    const auto lstats  = result.stats(ml::value_type::losses);
    SYM_CHECK(estats.m_count == m && lstats.m_count == m, "final statistics cover exactly the samples given to fit()");
    SYM_EQ_(lstats.m_mean * m, lsum, "final loss statistics = recomputed by predicting with the final model on the fitted samples");
    SYM_EQ_(estats.m_mean * m, esum, "final error statistics = recomputed by predicting with the final model on the fitted samples");
}
