// C09 (gradient-boosting objectives): bias, scale and gradient functions equal their definitions
//   bias:  mean_i loss(t_i, b)                 scale: mean_i loss(t_i, s_i + x[cluster_i] * w_i)  (unassigned samples unscaled)
//   grads: per-sample loss gradients, value = mean loss      each with the matching gradient
// config: n=<samples>;loss=<mse|mae|m-hinge>;batch=<b>;tk=<target kind r|s>;sub=<0 all samples | 1 subset with repetition | 2 strict subset (fewer samples than the dataset)>
#include "hdata.h"
#include <nano/dataset/iterator.h>
#include <nano/gboost/function.h>
#include <nano/loss.h>
using namespace nano;
using namespace h;

namespace
{
auto ab  = [](double v) { return v >= 0.0 ? v : -v; };
auto sgn = [](double v) { return v > 0.0 ? 1.0 : (v < 0.0 ? -1.0 : 0.0); };
auto pos = [](double v) { return v > 0.0 ? v : 0.0; };
double lvalue(const std::string& loss, double t, double o)
{
    if (loss == "mse") return 0.5 * (o - t) * (o - t);
    if (loss == "mae") return ab(o - t);
    return pos(1.0 - t * o);
}
double lgrad(const std::string& loss, double t, double o)
{
    if (loss == "mse") return o - t;
    if (loss == "mae") return sgn(o - t);
    return -t * (sgn(1.0 - t * o) + 1.0) * 0.5;
}
} // namespace

extern "C" void sym_body()
{
    const tensor_size_t n   = cfgi("n", 3);
    const std::string   lid = cfg("loss", "mse");
    const std::string   tk  = cfg("tk", "r");
    symsource_t         src("r" + tk, n, 1, 0);
    src.load();
    // threads=<K>;sched=<0 rr|1 last|2 reversed|3 arbitrary>: sequentialised multi-worker pool (any assignment of chunks to workers)
    dataset_t ds(src, setup_workers(cfgi("threads", 1), cfgi("sched", 0), cfgi("arb", -1)));
    add_identity_generators(ds);
    indices_t samples = all_samples(n);
    if (cfgi("sub", 0) == 1)
    {
        samples.resize(3);
        samples(0) = n - 1;
        samples(1) = 0;
        samples(2) = n - 1;
    }
    else if (cfgi("sub", 0) == 2)
    {
        // a STRICT subset (fewer samples than the dataset holds): the means are over the iterator's samples, not the dataset's
        samples.resize(n > 2 ? 2 : 1);
        samples(0) = 0;
        if (n > 2) samples(1) = n - 1;
    }
    const auto m     = samples.size();
    auto       loss  = loss_t::all().get(lid);
    const auto tsize = ::nano::size(ds.target_dims());
    targets_iterator_t it(ds, samples);
    it.batch(cfgi("batch", 100));
    tensor4d_t tbuf;
    tensor4d_t targ = ds.targets(samples, tbuf);

    const std::string part = cfg("part", "all");
    // bias function
    if (part == "all" || part == "bias")
    {
        gboost::bias_function_t f(it, *loss);
        vector_t b(tsize), g(tsize);
        for (tensor_size_t k = 0; k < tsize; ++k) b(k) = sym_real(sym_nm("b", k));
        const double v = f.vgrad(b, g);
        double       e = 0.0;
        std::vector<double> eg(static_cast<size_t>(tsize), 0.0);
        for (tensor_size_t i = 0; i < m; ++i)
            for (tensor_size_t k = 0; k < tsize; ++k)
            {
                e = e + lvalue(lid, targ(i, k, 0, 0), b(k));
                eg[static_cast<size_t>(k)] = eg[static_cast<size_t>(k)] + lgrad(lid, targ(i, k, 0, 0), b(k));
            }
        SYM_EQ_(v, e / static_cast<double>(m), "bias objective = mean_i loss(t_i, b)");
        SYM_EQ_(f.vgrad(b), v, "bias objective: value-only = value+gradient");
        for (tensor_size_t k = 0; k < tsize; ++k) SYM_EQ_(g(k), eg[static_cast<size_t>(k)] / static_cast<double>(m), "bias gradient = mean loss gradient");
    }
    // scale function: strong outputs s, weak outputs w (indexed by dataset sample), clusters incl. one unassigned sample
    if (part == "all" || part == "scale")
    {
        tensor4d_t S(cat_dims(n, ds.target_dims())), Wk(cat_dims(n, ds.target_dims()));
        for (tensor_size_t i = 0; i < n; ++i)
            for (tensor_size_t k = 0; k < tsize; ++k)
            {
                S(i, k, 0, 0)  = sym_real(sym_nm("s", i, k));
                Wk(i, k, 0, 0) = sym_real(sym_nm("w", i, k));
            }
        // groups=<number of clusters>, unas=<bit mask of the samples left unassigned> (default: 2 groups, sample 1 unassigned)
        const tensor_size_t groups = cfgi("groups", 2);
        const long          unas   = cfgi("unas", 2);
        cluster_t cluster(n, groups);
        for (tensor_size_t i = 0; i < n; ++i) cluster.assign(i, ((unas >> i) & 1) ? -1 : (i % groups));
        gboost::scale_function_t f(it, *loss, cluster, S, Wk);
        vector_t x(groups), g(groups);
        for (tensor_size_t k = 0; k < groups; ++k) x(k) = sym_real(sym_nm("x", k));
        const double v = f.vgrad(x, g);
        double       e = 0.0, eg[4] = {0.0, 0.0, 0.0, 0.0};
        for (tensor_size_t i = 0; i < m; ++i)
        {
            const auto s   = samples(i);
            const auto grp = cluster.group(s);
            for (tensor_size_t k = 0; k < tsize; ++k)
            {
                const double o = S(s, k, 0, 0) + (grp < 0 ? 0.0 : x(grp) * Wk(s, k, 0, 0));
                e = e + lvalue(lid, targ(i, k, 0, 0), o);
                if (grp >= 0) eg[grp] = eg[grp] + lgrad(lid, targ(i, k, 0, 0), o) * Wk(s, k, 0, 0);
            }
        }
        SYM_EQ_(v, e / static_cast<double>(m), "scale objective = mean_i loss(t_i, s_i + x[cluster_i]*w_i), unassigned samples unscaled");
        for (tensor_size_t k = 0; k < groups; ++k) SYM_EQ_(g(k), eg[k] / static_cast<double>(m), "scale gradient (per group; unassigned samples do not contribute)");
    }
    // gradients function
    if (part == "all" || part == "grads")
    {
        gboost::grads_function_t f(it, *loss);
        vector_t o(m * tsize), g(m * tsize);
        for (tensor_size_t i = 0; i < o.size(); ++i) o(i) = sym_real(sym_nm("o", i));
        const double v = f.vgrad(o, g);
        double       e = 0.0;
        for (tensor_size_t i = 0; i < m; ++i)
            for (tensor_size_t k = 0; k < tsize; ++k)
            {
                e = e + lvalue(lid, targ(i, k, 0, 0), o(i * tsize + k));
                SYM_EQ_(g(i * tsize + k) * static_cast<double>(m), lgrad(lid, targ(i, k, 0, 0), o(i * tsize + k)), "grads objective: per-sample loss gradient / m");
            }
        SYM_EQ_(v, e / static_cast<double>(m), "grads objective = mean_i loss(t_i, o_i)");
    }
}
