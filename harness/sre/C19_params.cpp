// C19: parameters stay inside their declared domain over assignment histories; rejected assignments throw and leave the
// previous value intact; accepted ones are read back as assigned (converted to the parameter's kind).
// config: kind=<fr|ir|fp|ip>;lo=<0 LT|1 LE>;hi=<0|1>;mid=<0|1 (pairs: value comparator)>;ops=<history length>;
//         sp=<special value injected at op 0: 0 none, 1 NaN, 2 +inf, 3 -inf, 4 = min, 5 = max>;ser=<1: write+read round trip after each op>
#include "hcommon.h"
#include <nano/parameter.h>
#include <sstream>
using namespace nano;
using namespace h;

namespace
{
LEorLT comp(long le) { return le ? LEorLT{LE} : LEorLT{LT}; }
bool   chk(long le, double a, double b) { return le ? (a <= b) : (a < b); }
bool   chki(long le, int64_t a, int64_t b) { return le ? (a <= b) : (a < b); }
double special(long sp, double mn, double mx, double dflt)
{
    switch (sp)
    {
    case 1: return std::numeric_limits<double>::quiet_NaN();
    case 2: return std::numeric_limits<double>::infinity();
    case 3: return -std::numeric_limits<double>::infinity();
    case 4: return mn;
    case 5: return mx;
    default: return dflt;
    }
}
bool isfin_(double v) { return v == v && v != std::numeric_limits<double>::infinity() && v != -std::numeric_limits<double>::infinity(); }

parameter_t roundtrip(const parameter_t& p)
{
    std::stringstream s;
    p.write(s);
    parameter_t q;
    q.read(s);
    return q;
}
} // namespace

extern "C" void sym_body()
{
    const std::string kind = cfg("kind", "fr");
    const long        lo = cfgi("lo", 1), hi = cfgi("hi", 1), mid = cfgi("mid", 0), ops = cfgi("ops", 3), sp = cfgi("sp", 0), ser = cfgi("ser", 0);

    if (kind == "fr")
    {
        const double mn = sym_real("min"), mx = sym_real("max"), v0 = sym_real("v0");
        sym_assume_cmp(mn, SYM_LT, mx);
        sym_assume_cmp(mn, lo ? SYM_LE : SYM_LT, v0);
        sym_assume_cmp(v0, hi ? SYM_LE : SYM_LT, mx);
        auto   p   = parameter_t::make_scalar("p", mn, comp(lo), v0, comp(hi), mx);
        double cur = v0;
        SYM_CHECK(sym_same(p.value<scalar_t>(), v0), "default is read back");
        for (long k = 0; k < ops; ++k)
        {
            const double v      = (k == 0) ? special(sp, mn, mx, sym_real(sym_nm("a", k))) : sym_real(sym_nm("a", k));
            const bool   expect = isfin_(v) && chk(lo, mn, v) && chk(hi, v, mx);
            bool         thrown = false;
            try
            {
                p = v;
            }
            catch (const std::exception&)
            {
                thrown = true;
            }
            SYM_CHECK(thrown == !expect, "assignment accepted iff the value is finite and inside the domain");
            if (expect) cur = v;
            SYM_CHECK(sym_same(p.value<scalar_t>(), cur), "accepted value read back as assigned / rejected assignment leaves the previous value");
            SYM_CHECK(chk(lo, mn, p.value<scalar_t>()) && chk(hi, p.value<scalar_t>(), mx), "stored value lies in the declared domain");
            if (ser)
            {
                const auto q = roundtrip(p);
                SYM_CHECK(q == p && sym_same(q.value<scalar_t>(), cur), "write+read yields an equal parameter");
            }
        }
        bool badread = false;
        try
        {
            (void)p.value_pair<scalar_t>();
        }
        catch (const std::exception&)
        {
            badread = true;
        }
        SYM_CHECK(badread, "type-mismatched read throws");
        return;
    }
    if (kind == "fp")
    {
        const double mn = sym_real("min"), mx = sym_real("max"), u0 = sym_real("u0"), w0 = sym_real("w0");
        sym_assume_cmp(mn, lo ? SYM_LE : SYM_LT, u0);
        sym_assume_cmp(u0, mid ? SYM_LE : SYM_LT, w0);
        sym_assume_cmp(w0, hi ? SYM_LE : SYM_LT, mx);
        auto   p  = parameter_t::make_scalar_pair("p", mn, comp(lo), u0, comp(mid), w0, comp(hi), mx);
        double c1 = u0, c2 = w0;
        for (long k = 0; k < ops; ++k)
        {
            const double a      = (k == 0) ? special(sp, mn, mx, sym_real(sym_nm("a", k))) : sym_real(sym_nm("a", k));
            const double b      = sym_real(sym_nm("b", k));
            const bool   expect = isfin_(a) && chk(lo, mn, a) && chk(mid, a, b) && chk(hi, b, mx);
            bool         thrown = false;
            try
            {
                p = std::make_tuple(a, b);
            }
            catch (const std::exception&)
            {
                thrown = true;
            }
            SYM_CHECK(thrown == !expect, "pair assignment accepted iff min (<|<=) v1 (<|<=) v2 (<|<=) max and finite");
            if (expect) c1 = a, c2 = b;
            const auto [r1, r2] = p.value_pair<scalar_t>();
            SYM_CHECK(sym_same(r1, c1) && sym_same(r2, c2), "accepted pair read back as assigned / rejected pair leaves the previous values");
            SYM_CHECK(chk(lo, mn, r1) && chk(mid, r1, r2) && chk(hi, r2, mx), "stored pair lies in the declared domain with its ordering");
            if (ser)
            {
                const auto q = roundtrip(p);
                SYM_CHECK(q == p, "write+read yields an equal parameter");
            }
        }
        return;
    }
    // integer kinds: concrete window, symbolic real assigned values are converted (truncated) to integers
    const int64_t mn = cfgi("imin", -2), mx = cfgi("imax", 3);
    if (kind == "ir")
    {
        auto    p   = parameter_t::make_integer("p", mn, comp(lo), int64_t{0}, comp(hi), mx);
        int64_t cur = 0;
        for (long k = 0; k < ops; ++k)
        {
            const double v = sym_box(sym_nm("a", k), -5.75, 6.75);
            bool         thrown = false;
            try
            {
                p = v;
            }
            catch (const std::exception&)
            {
                thrown = true;
            }
            // reference: truncation toward zero decided by comparisons on v
            int64_t t = 0;
            for (int64_t c = -6; c <= 7; ++c)
                if ((c >= 0 && v >= static_cast<double>(c) && v < static_cast<double>(c + 1)) ||
                    (c < 0 && v > static_cast<double>(c - 1) && v <= static_cast<double>(c)))
                    t = c;
            const bool expect = chki(lo, mn, t) && chki(hi, t, mx);
            SYM_CHECK(thrown == !expect, "integer parameter: real assignment accepted iff its integer conversion is inside the domain");
            if (expect) cur = t;
            SYM_CHECK(p.value<int64_t>() == cur, "integer parameter: read back as the converted value / unchanged when rejected");
            SYM_CHECK(chki(lo, mn, p.value<int64_t>()) && chki(hi, p.value<int64_t>(), mx), "stored integer lies in the declared domain");
        }
        // concrete integer and string assignments
        for (const int64_t c : {mn - 1, mn, mx, mx + 1})
        {
            bool thrown = false;
            try
            {
                p = c;
            }
            catch (const std::exception&)
            {
                thrown = true;
            }
            const bool expect = chki(lo, mn, c) && chki(hi, c, mx);
            SYM_CHECK(thrown == !expect, "integer parameter: boundary integers accepted per comparator kind");
            if (expect) cur = c;
            SYM_CHECK(p.value<int64_t>() == cur, "integer parameter: boundary assignment read back / unchanged");
        }
        for (const char* s : {"1", "abc", "", "7"})
        {
            bool thrown = false;
            try
            {
                p = string_t{s};
            }
            catch (const std::exception&)
            {
                thrown = true;
            }
            const bool numeric = s[0] >= '0' && s[0] <= '9';
            const bool expect  = numeric && chki(lo, mn, std::atoll(s)) && chki(hi, std::atoll(s), mx);
            SYM_CHECK(thrown == !expect, "integer parameter: string assignment accepted iff numeric and in the domain");
            if (expect) cur = std::atoll(s);
            SYM_CHECK(p.value<int64_t>() == cur, "integer parameter: string assignment read back / unchanged");
        }
        return;
    }
    {
        auto    p  = parameter_t::make_integer_pair("p", mn, comp(lo), int64_t{0}, comp(mid), int64_t{1}, comp(hi), mx);
        int64_t c1 = 0, c2 = 1;
        for (int64_t a = mn - 1; a <= mx + 1; ++a)
            for (int64_t b = mn - 1; b <= mx + 1; ++b)
            {
                bool thrown = false;
                try
                {
                    p = std::make_tuple(a, b);
                }
                catch (const std::exception&)
                {
                    thrown = true;
                }
                const bool expect = chki(lo, mn, a) && chki(mid, a, b) && chki(hi, b, mx);
                SYM_CHECK(thrown == !expect, "integer pair accepted iff ordered inside the domain");
                if (expect) c1 = a, c2 = b;
                const auto [r1, r2] = p.value_pair<int64_t>();
                SYM_CHECK(r1 == c1 && r2 == c2, "integer pair read back / unchanged");
            }
    }
}
