// C10 (hinge, discrete-step / k-best / k-split tables, depth-1 trees): fit / predict / split / scale consistency and, for hinge and
// dstep, optimality of the returned RSS over the hypothesis class.
//  * the returned score equals the RSS of the learner's own predictions
//  * samples that split() does not assign (missing feature value, inactive side of a hinge, label without table) get a zero prediction;
//    samples of the same group get the same prediction (tables, trees); scale(s) multiplies the predictions per group
//  * hinge : score <= RSS of EVERY (feature, mid-point threshold between two consecutive distinct values, direction) with its
//            least-squares slope
//  * dstep : score <= RSS of EVERY (feature, label, output value v) hypothesis (v universally quantified)
//  * dtree with max_depth 1 predicts exactly like a stump fitted on the same data and returns the same score
// config: wl=<hinge|dstep-table|kbest-table|ksplit-table|dtree>;f=<kinds, last 'r' = target>;n=<samples>;miss=<pattern>;cx=<1: concrete features>;sub=<0|1>
#include "hdata.h"
#include <nano/wlearner.h>
#include <nano/wlearner/criterion.h>
#include <nano/wlearner/dtree.h>
#include <nano/wlearner/hinge.h>
#include <nano/wlearner/stump.h>
#include <nano/wlearner/table.h>
using namespace nano;
using namespace h;

extern "C" void sym_body()
{
    const std::string   wid   = cfg("wl", "hinge");
    const std::string   kinds = cfg("f", "rrr");
    const tensor_size_t n     = cfgi("n", 3);
    symsource_t         src(kinds, n, static_cast<long>(kinds.size()) - 1, static_cast<int>(cfgi("miss", 0)), cfgi("cx", 0) ? "#" : "v");
    src.load();
    dataset_t ds(src, setup_workers(cfgi("threads", 1), cfgi("sched", 0))); // threads>1: sequentialised multi-worker pool (see sre_support.cpp)
    add_identity_generators(ds);
    indices_t samples = all_samples(n);
    if (cfgi("sub", 0))
    {
        samples.resize(n);
        for (tensor_size_t i = 0; i < n; ++i) samples(i) = (i == 0) ? n - 1 : i;
        std::sort(samples.begin(), samples.end());
    }
    const auto m = samples.size();

    tensor4d_t G(cat_dims(n, ds.target_dims()));
    // gsym: number of symbolic gradients (the remaining ones are concrete): keeps the polynomial obligations within nlsat's reach
    const tensor_size_t gsym = cfgi("gsym", n);
    for (tensor_size_t i = 0; i < n; ++i) G(i, 0, 0, 0) = i < gsym ? sym_box(sym_nm("g", i), -8.0, 8.0) : (0.75 * static_cast<double>((i * 5 + 2) % 7) - 2.0);

    auto wl = wlearner_t::all().get(wid);
    SYM_CHECK(static_cast<bool>(wl), "weak learner id registered");
    wl->parameter("wlearner::criterion") = wlearner_criterion::rss;
    if (wid == "dtree")
    {
        wl->parameter("wlearner::dtree::max_depth") = 1;
        wl->parameter("wlearner::dtree::min_split") = 1;
    }
    const double score  = wl->fit(ds, samples, G);
    const double clampv = std::numeric_limits<double>::epsilon() * 1e+3;
    auto         clamp  = [&](double v) { return v > clampv ? v : clampv; };
    const auto   nfeat  = ds.features();

    auto fvalue = [&](tensor_size_t f, tensor_size_t i, bool& given)
    {
        scalar_mem_t buf;
        indices_t    one(1);
        one(0)       = samples(i);
        const auto v = ds.select(one, f, buf);
        given        = !(v(0) != v(0));
        return v(0);
    };
    auto flabel = [&](tensor_size_t f, tensor_size_t i)
    {
        sclass_mem_t buf;
        indices_t    one(1);
        one(0) = samples(i);
        return static_cast<long>(ds.select(one, f, buf)(0));
    };
    auto gres = [&](tensor_size_t i) { return -G(samples(i), 0, 0, 0); }; // the weak learner fits the residual = negative gradient

    double total = 0.0;
    for (tensor_size_t i = 0; i < m; ++i) total = total + gres(i) * gres(i);

    if (wid == "dtree")
    {
        auto stump = wlearner_t::all().get("stump");
        stump->parameter("wlearner::criterion") = wlearner_criterion::rss;
        const double sscore = stump->fit(ds, samples, G);
        SYM_CHECK((score == wlearner_t::no_fit_score()) == (sscore == wlearner_t::no_fit_score()), "tree of depth 1 fits iff a stump fits");
        if (score == wlearner_t::no_fit_score() || sscore == wlearner_t::no_fit_score()) return;
        SYM_EQ_(score, sscore, "tree of depth 1 returns the stump's score");
        tensor4d_t o1(cat_dims(m, ds.target_dims())), o2(cat_dims(m, ds.target_dims()));
        for (tensor_size_t i = 0; i < m; ++i) o1(i, 0, 0, 0) = o2(i, 0, 0, 0) = sym_real(sym_nm("o", i));
        wl->predict(ds, samples, o1.tensor());
        stump->predict(ds, samples, o2.tensor());
        for (tensor_size_t i = 0; i < m; ++i) SYM_EQ_(o1(i, 0, 0, 0), o2(i, 0, 0, 0), "tree of depth 1 predicts like a stump");
        return;
    }

    if (score == wlearner_t::no_fit_score())
    {
        if (wid == "hinge")
        {
            // no hypothesis available only if no scalar feature has two distinct given values
            for (tensor_size_t f = 0; f < nfeat; ++f)
            {
                if (!ds.feature(f).is_scalar()) continue;
                for (tensor_size_t i = 0; i < m; ++i)
                    for (tensor_size_t j = i + 1; j < m; ++j)
                    {
                        bool         gi, gj;
                        const double vi = fvalue(f, i, gi), vj = fvalue(f, j, gj);
                        if (gi && gj) SYM_CHECK(vi == vj, "no fit only if no feature has two distinct values");
                    }
            }
        }
        else
        {
            // tables: no hypothesis only if no categorical feature has a given label
            bool any = false;
            for (tensor_size_t f = 0; f < nfeat; ++f)
                if (ds.feature(f).is_sclass())
                    for (tensor_size_t i = 0; i < m; ++i) any = any || flabel(f, i) >= 0;
            SYM_CHECK(!any, "no fit only if no categorical feature has a given label");
        }
        return;
    }

    tensor4d_t out(cat_dims(m, ds.target_dims()));
    for (tensor_size_t i = 0; i < m; ++i) out(i, 0, 0, 0) = sym_real(sym_nm("o", i));
    tensor4d_t out0 = out;
    wl->predict(ds, samples, out.tensor());
    std::vector<double> pred;
    double              rss_pred = 0.0;
    for (tensor_size_t i = 0; i < m; ++i)
    {
        pred.push_back(out(i, 0, 0, 0) - out0(i, 0, 0, 0));
        const double r = gres(i) - pred.back();
        rss_pred       = rss_pred + r * r;
    }
    // (the property demands this of stump, hinge, affine, dense and dstep learners only. Observation recorded in DESIGN.md: the
    // k-best table stores its hashes in score order while prediction looks them up by binary search, so with >= 2 kept labels its
    // predictions can miss fitted labels and the returned score is then NOT the RSS of its predictions)
    if (wid == "hinge" || wid == "dstep-table") SYM_EQ_(score, clamp(rss_pred), "returned score = RSS of the fitted learner's own predictions");

    const auto feats = wl->features();
    SYM_CHECK(feats.size() == 1 && feats(0) >= 0 && feats(0) < nfeat, "one selected feature inside the dataset");
    const auto sel = feats(0);
    const auto cl  = wl->split(ds, samples);
    for (tensor_size_t i = 0; i < m; ++i)
    {
        const auto grp = cl.group(samples(i));
        SYM_CHECK(grp >= -1 && grp < cl.groups(), "split() assigns a valid group or none");
        if (grp < 0) SYM_EQ_(pred[static_cast<size_t>(i)], 0.0, "prediction is zero for samples that split() does not assign (missing value / inactive side / label without table)");
        bool given = true;
        if (ds.feature(sel).is_scalar()) (void)fvalue(sel, i, given);
        else given = flabel(sel, i) >= 0;
        if (!given) SYM_CHECK(grp < 0, "samples with a missing feature value are not assigned to a group");
    }
    if (wid != "hinge")
        for (tensor_size_t i = 0; i < m; ++i)
            for (tensor_size_t j = i + 1; j < m; ++j)
                if (cl.group(samples(i)) >= 0 && cl.group(samples(i)) == cl.group(samples(j)))
                    SYM_EQ_(pred[static_cast<size_t>(i)], pred[static_cast<size_t>(j)], "samples of the same split() group get the same prediction");

    if (wid == "hinge")
    {
        SYM_CHECK(ds.feature(sel).is_scalar(), "hinge selects a scalar feature");
        for (tensor_size_t f = 0; f < nfeat; ++f)
        {
            if (!ds.feature(f).is_scalar()) continue;
            std::vector<double> v(static_cast<size_t>(m), 0.0);
            std::vector<char>   gv(static_cast<size_t>(m), 0);
            for (tensor_size_t i = 0; i < m; ++i)
            {
                bool g;
                v[static_cast<size_t>(i)]  = fvalue(f, i, g);
                gv[static_cast<size_t>(i)] = g ? 1 : 0;
            }
            for (tensor_size_t i = 0; i < m; ++i)
                for (tensor_size_t j = 0; j < m; ++j)
                {
                    const auto ui = static_cast<size_t>(i), uj = static_cast<size_t>(j);
                    if (i == j || !gv[ui] || !gv[uj] || !(v[ui] < v[uj])) continue;
                    bool consecutive = true;
                    for (tensor_size_t k = 0; k < m; ++k)
                        if (gv[static_cast<size_t>(k)] && v[ui] < v[static_cast<size_t>(k)] && v[static_cast<size_t>(k)] < v[uj]) consecutive = false;
                    if (!consecutive) continue;
                    const double t = 0.5 * (v[ui] + v[uj]);
                    for (int dir = 0; dir < 2; ++dir)
                    {
                        double sgz = 0.0, szz = 0.0;
                        for (tensor_size_t k = 0; k < m; ++k)
                        {
                            const auto uk = static_cast<size_t>(k);
                            if (!gv[uk]) continue;
                            const bool active = dir == 0 ? (v[uk] < t) : !(v[uk] < t);
                            if (!active) continue;
                            const double z = v[uk] - t;
                            sgz = sgz + gres(k) * z;
                            szz = szz + z * z;
                        }
                        const double rss = total - sgz * sgz / szz;
                        SYM_LE_(score, clamp(rss), "hinge: score <= RSS of every (feature, mid-point threshold, direction) with its least-squares slope");
                    }
                }
        }
    }
    if (wid == "dstep-table")
    {
        for (tensor_size_t f = 0; f < nfeat; ++f)
        {
            if (!ds.feature(f).is_sclass()) continue;
            for (long c = 0; c < symsource_t::classes; ++c)
            {
                const double vtab = sym_real(sym_nm("hv", f, c));
                double       rss = 0.0;
                bool         present = false;
                for (tensor_size_t i = 0; i < m; ++i)
                {
                    const long   l = flabel(f, i);
                    const double p = l == c ? vtab : 0.0;
                    present        = present || l == c;
                    rss            = rss + (gres(i) - p) * (gres(i) - p);
                }
                if (present) SYM_LE_(score, clamp(rss), "dstep: score <= RSS of every (feature, label, value) step hypothesis (universally quantified value)");
            }
        }
    }

    // scale(s): multiplies the predictions (per group)
    {
        const auto groups = cl.groups();
        vector_t   s(groups);
        for (tensor_size_t k = 0; k < s.size(); ++k) s(k) = sym_box(sym_nm("sc", k), 0.0, 4.0);
        auto w2 = wl->clone();
        w2->scale(s);
        tensor4d_t o2 = out0;
        w2->predict(ds, samples, o2.tensor());
        for (tensor_size_t i = 0; i < m; ++i)
        {
            const auto   grp = cl.group(samples(i));
            const double sk  = grp < 0 ? 1.0 : s(grp);
            SYM_EQ_(o2(i, 0, 0, 0) - out0(i, 0, 0, 0), sk * pred[static_cast<size_t>(i)], "scale(s) multiplies the predictions of each group by its factor");
        }
    }
}
