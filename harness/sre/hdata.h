// In-memory data source with SYMBOLIC float64 cells (scalar 'r' and structured 'S' features) and concrete
// categorical ('s' single-label, 'm' multi-label, 3 classes) / integer ('i' int32) features, used by the dataset-based
// SRE harnesses (C08, C09, C10, C14). Missing-value patterns are concrete.
#pragma once
#include "hcommon.h"
#include <nano/dataset.h>
#include <nano/datasource.h>
#include <nano/generator/elemwise_identity.h>

namespace h
{
struct symsource_t final : datasource_t
{
    std::string                                   kinds;   ///< one char per stored feature (inputs and target)
    tensor_size_t                                 n{0};    ///< samples
    long                                          target;  ///< index of the target feature or -1
    int                                           miss{0}; ///< missing pattern id
    std::vector<std::vector<std::vector<double>>> V;       ///< [sample][feature][component] (float64 features)
    std::vector<std::vector<int>>                 L;       ///< [sample][feature] label (sclass) / bit pattern (mclass) / int value

    static inline tensor_size_t classes = 3; ///< class count of the categorical features (settable: boundary configurations)
    static tensor3d_dims_t sdims() { return make_dims(2, 1, 2); }

    symsource_t(std::string k, tensor_size_t samples, long tgt, int misspattern, const char* stem = "v")
        : datasource_t("symsource")
        , kinds(std::move(k))
        , n(samples)
        , target(tgt)
        , miss(misspattern)
    {
        V.assign(static_cast<size_t>(n), {});
        L.assign(static_cast<size_t>(n), {});
        for (tensor_size_t s = 0; s < n; ++s)
        {
            for (size_t f = 0; f < kinds.size(); ++f)
            {
                std::vector<double> cell;
                const int           comps = kinds[f] == 'r' ? 1 : kinds[f] == 'S' ? 4 : 0;
                for (int k = 0; k < comps; ++k)
                    if (stem[0] == '#') cell.push_back(1.5 * static_cast<double>((s * 7 + 3) % 5) - 0.75 * static_cast<double>(f) + 0.25 * static_cast<double>(k * (s + 1)));
                    else cell.push_back(sym_box(std::string(stem) + std::to_string(s) + "_" + std::to_string(f) + "_" + std::to_string(k), -8.0, 8.0));
                V[static_cast<size_t>(s)].push_back(cell);
                int lab = 0;
                if (kinds[f] == 's') lab = static_cast<int>((s + static_cast<tensor_size_t>(f)) % classes);
                if (kinds[f] == 'm') lab = static_cast<int>((s * 3 + static_cast<tensor_size_t>(f) + 1) % 8);
                if (kinds[f] == 'u') lab = static_cast<int>((s * 37 + static_cast<tensor_size_t>(f) * 11 + 5) % 251);
                if (kinds[f] == 'i') lab = static_cast<int>(s * 2 - 3 + static_cast<tensor_size_t>(f));
                L[static_cast<size_t>(s)].push_back(lab);
            }
        }
    }
    rdatasource_t clone() const override { return std::make_unique<symsource_t>(*this); }

    // concrete missing patterns
    bool given(tensor_size_t s, size_t f) const
    {
        if (target >= 0 && f == static_cast<size_t>(target)) return true; // targets cannot be optional
        switch (miss)
        {
        case 0: return true;
        case 1: return !((s == 1 && f == 0) || (s == n - 1 && f == 1));
        case 2: return f != 1;                      // feature 1 entirely missing
        case 3: return !(f == 0 && s != 0);         // feature 0 has a single given sample
        default: return (s + static_cast<tensor_size_t>(f)) % 2 == 0;
        }
    }
    void do_load() override
    {
        features_t fs;
        for (size_t f = 0; f < kinds.size(); ++f)
        {
            const auto name = "f" + std::to_string(f);
            switch (kinds[f])
            {
            case 'r': fs.push_back(feature_t{name}.scalar(feature_type::float64)); break;
            case 'S': fs.push_back(feature_t{name}.scalar(feature_type::float64, sdims())); break;
            case 's': fs.push_back(feature_t{name}.sclass(static_cast<size_t>(classes))); break;
            case 'm': fs.push_back(feature_t{name}.mclass(static_cast<size_t>(3))); break;
            case 'u': fs.push_back(feature_t{name}.scalar(feature_type::uint8)); break;
            default: fs.push_back(feature_t{name}.scalar(feature_type::int32)); break;
            }
        }
        if (target >= 0) resize(n, fs, static_cast<size_t>(target));
        else resize(n, fs);
        for (tensor_size_t s = 0; s < n; ++s)
        {
            for (size_t f = 0; f < kinds.size(); ++f)
            {
                if (!given(s, f)) continue;
                const auto  fi = static_cast<tensor_size_t>(f);
                const auto& c  = V[static_cast<size_t>(s)][f];
                const int   l  = L[static_cast<size_t>(s)][f];
                switch (kinds[f])
                {
                case 'r': set(s, fi, c[0]); break;
                case 'S':
                {
                    tensor_mem_t<double, 3> t(sdims());
                    for (tensor_size_t k = 0; k < 4; ++k) t(k) = c[static_cast<size_t>(k)];
                    set(s, fi, t);
                    break;
                }
                case 's': set(s, fi, l); break;
                case 'm':
                {
                    tensor_mem_t<int8_t, 1> t(3);
                    for (tensor_size_t k = 0; k < 3; ++k) t(k) = static_cast<int8_t>((l >> k) & 1);
                    set(s, fi, t);
                    break;
                }
                default: set(s, fi, l); break;
                }
            }
        }
    }
    // index of the i-th *input* feature in the storage (skipping the target)
    size_t input(tensor_size_t ifeature) const
    {
        const auto f = static_cast<size_t>(ifeature);
        return (target >= 0 && f >= static_cast<size_t>(target)) ? f + 1 : f;
    }
};

inline void add_identity_generators(dataset_t& ds)
{
    ds.add<sclass_identity_generator_t>();
    ds.add<mclass_identity_generator_t>();
    ds.add<scalar_identity_generator_t>();
    ds.add<struct_identity_generator_t>();
}
inline indices_t make_indices(const std::vector<long>& v)
{
    indices_t idx(static_cast<tensor_size_t>(v.size()));
    for (size_t i = 0; i < v.size(); ++i) idx(static_cast<tensor_size_t>(i)) = v[i];
    return idx;
}
inline indices_t all_samples(tensor_size_t n)
{
    indices_t idx(n);
    for (tensor_size_t i = 0; i < n; ++i) idx(i) = i;
    return idx;
}
} // namespace h
