// C20: order statistics and histograms vs. a sorted-array reference.
// config: mode=pct;n=<values>;var=<0 unsorted|1 sorted|2 median>
//         mode=hist;n=<values>;t=<thresholds>;how=<0 thresholds|1 ratios|2 percentiles>
#include "hcommon.h"
#include <nano/core/histogram.h>
#include <nano/core/stats.h>
using namespace nano;
using namespace h;

namespace
{
// reference sort by explicit comparisons (selection sort)
std::vector<double> sorted_copy(std::vector<double> v)
{
    for (size_t i = 0; i < v.size(); ++i)
        for (size_t j = i + 1; j < v.size(); ++j)
            if (v[j] < v[i]) std::swap(v[i], v[j]);
    return v;
}
// value at (real) position pos of the sorted list: exact index -> the element, otherwise midpoint of the neighbours
double at_position(const std::vector<double>& s, double pos)
{
    for (size_t k = 0; k + 1 < s.size(); ++k)
    {
        if (pos == static_cast<double>(k)) return s[k];
        if (pos < static_cast<double>(k + 1)) return (s[k] + s[k + 1]) / 2;
    }
    return s.back();
}
} // namespace

extern "C" void sym_body()
{
    const std::string mode = cfg("mode", "pct");
    const auto        n    = static_cast<size_t>(cfgi("n", 3));
    std::vector<double> vals;
    for (size_t i = 0; i < n; ++i) vals.push_back(sym_box(sym_nm("v", static_cast<long>(i)), -4.0, 4.0));
    const auto ref = sorted_copy(vals);

    if (mode == "pct")
    {
        const long var = cfgi("var", 0);
        double     p   = var == 2 ? 50.0 : sym_box("p", 0.0, 100.0);
        if (cfgi("edge", 0) == 1) p = 0.0;
        if (cfgi("edge", 0) == 2) p = 100.0;
        const double pos      = p * static_cast<double>(n - 1) / 100.0;
        const double expected = at_position(ref, pos);
        double       got      = 0.0;
        if (var == 0)
        {
            auto copy = vals;
            got       = percentile(copy.begin(), copy.end(), p);
        }
        else if (var == 1)
        {
            got = percentile_sorted(ref.begin(), ref.end(), p);
        }
        else
        {
            auto copy = vals;
            got       = median(copy.begin(), copy.end());
            SYM_EQ_(median_sorted(ref.begin(), ref.end()), expected, "median_sorted = value(s) at the middle position of the sorted list");
        }
        SYM_EQ_(got, expected, "percentile = value(s) at position p*(n-1)/100 of the sorted list");
        return;
    }

    // histograms
    const auto t   = static_cast<tensor_size_t>(cfgi("t", 2));
    const long how = cfgi("how", 0);
    tensor_mem_t<scalar_t, 1> spec(t);
    auto copy = vals;
    histogram_t hist;
    if (how == 0)
    {
        for (tensor_size_t i = 0; i < t; ++i) spec(i) = sym_box(sym_nm("thr", i), -5.0, 5.0);
        hist = histogram_t::make_from_thresholds(copy.begin(), copy.end(), spec);
    }
    else if (how == 1)
    {
        for (tensor_size_t i = 0; i < t; ++i) spec(i) = sym_real_in(sym_nm("ratio", i).c_str(), 0.0, 1.0, 1);
        hist = histogram_t::make_from_ratios(copy.begin(), copy.end(), spec);
    }
    else
    {
        for (tensor_size_t i = 0; i < t; ++i) spec(i) = sym_real_in(sym_nm("pct", i).c_str(), 0.0, 100.0, 1);
        hist = histogram_t::make_from_percentiles(copy.begin(), copy.end(), spec);
    }
    const auto& thr = hist.thresholds();
    SYM_CHECK(hist.bins() == t + 1 && thr.size() == t, "bins = thresholds + 1");
    for (tensor_size_t i = 0; i + 1 < t; ++i) SYM_LE_(thr(i), thr(i + 1), "thresholds are sorted");
    if (how == 1)
    {
        // thresholds = min + ratio * (max - min) for the sorted ratios
        std::vector<double> r;
        for (tensor_size_t i = 0; i < t; ++i) r.push_back(spec(i));
        r = sorted_copy(r);
        for (tensor_size_t i = 0; i < t; ++i)
            SYM_EQ_(thr(i), ref.front() + r[static_cast<size_t>(i)] * (ref.back() - ref.front()), "ratio thresholds = min + ratio*(max-min)");
    }
    if (how == 2)
    {
        std::vector<double> r;
        for (tensor_size_t i = 0; i < t; ++i) r.push_back(spec(i));
        r = sorted_copy(r);
        for (tensor_size_t i = 0; i < t; ++i)
            SYM_EQ_(thr(i), at_position(ref, r[static_cast<size_t>(i)] * static_cast<double>(n - 1) / 100.0), "percentile thresholds = percentiles of the data");
    }
    // counting rule: a value falls into the bin indexed by the number of thresholds <= value
    auto rule = [&](double v)
    {
        tensor_size_t k = 0;
        for (tensor_size_t i = 0; i < t; ++i)
            if (thr(i) <= v) ++k;
        return k;
    };
    std::vector<std::vector<double>> members(static_cast<size_t>(t + 1));
    for (const auto v : ref) members[static_cast<size_t>(rule(v))].push_back(v);
    tensor_size_t total = 0;
    for (tensor_size_t b = 0; b <= t; ++b)
    {
        const auto& m = members[static_cast<size_t>(b)];
        SYM_CHECK(hist.count(b) == static_cast<tensor_size_t>(m.size()), "bin count = number of values the counting rule assigns to the bin");
        total += hist.count(b);
        if (m.empty())
        {
            SYM_CHECK(hist.mean(b) != hist.mean(b) && hist.median(b) != hist.median(b), "empty bin: mean and median are NaN");
            continue;
        }
        double sum = 0.0;
        for (const auto v : m) sum = sum + v;
        SYM_EQ_(hist.mean(b) * static_cast<double>(m.size()), sum, "bin mean = mean of its members");
        SYM_EQ_(hist.median(b), at_position(m, 0.5 * static_cast<double>(m.size() - 1)), "bin median = median of its members");
    }
    SYM_CHECK(total == static_cast<tensor_size_t>(n), "bins partition the values");
    // bin(v) for an arbitrary real query
    const double q = sym_box("q", -6.0, 6.0);
    SYM_CHECK(hist.bin(q) == rule(q), "bin(v) = bin assigned by the counting rule (number of thresholds <= v)");
    // and for the data values themselves
    for (const auto v : ref) SYM_CHECK(hist.bin(v) == rule(v), "bin(value) = bin the value was counted in");
}
