// C11 (boosting rounds): the real gboost_model_t::fit runs end to end - real ml::tune driver, k-fold splitter, boosting rounds
// (bias estimation, gradients, weak-learner fitting on the real dataset, per-split scaling, shrinkage, early stopping) - with the
// INNER SOLVER replaced by an arbitrary-point oracle (solver_t::minimize returns a state at a fresh symbolic point), so the bias and
// the per-split scaling factors are arbitrary. Targets are symbolic, feature cells concrete.
// Obligations: the per-(trial, fold) training / validation statistics stored in the result equal those recomputed from scratch with
// the model stored for that (trial, fold) (bias + sum of its weak learners) on that fold's samples; the final statistics equal those
// recomputed with the final model on the fitted samples.
// config: n=<samples>;folds=<k>;rounds=<max boosting rounds>;ws=<0 gboost|1 tboost>;wl=<dense-table|stump|affine>;f=<feature kinds>
#include "hdata.h"
#include <any>
#include <nano/gboost/enums.h>
#include <nano/gboost/model.h>
#include <nano/gboost/result.h>
#include <nano/loss.h>
#include <nano/machine/params.h>
#include <nano/solver.h>
#include <nano/splitter.h>
#include <nano/wlearner.h>
using namespace nano;
using namespace h;

namespace
{
int g_min_calls = 0;
}
// inner solver = arbitrary point oracle (positive box: scaling factors below epsilon end the boosting early, which is covered too)
solver_state_t solver_t::minimize(const function_t& function, const vector_t& x0, const logger_t&) const
{
    vector_t x(x0.size());
    for (tensor_size_t i = 0; i < x.size(); ++i) x(i) = sym_box(sym_nm("opt", g_min_calls, i), cfgi("pos", 0) ? 0.5 : -1.0, 4.0); // pos=1: strictly positive factors (the "scaling failed" exit is not taken)
    ++g_min_calls;
    return solver_state_t{function, x};
}

extern "C" void sym_body()
{
    g_min_calls               = 0;
    const tensor_size_t n     = cfgi("n", 4);
    const tensor_size_t F     = cfgi("folds", 2);
    const std::string   kinds = cfg("f", "sr");
    const auto          wlid  = cfg("wl", "dense-table");

    symsource_t src(kinds, n, static_cast<long>(kinds.size()) - 1, 0, "#");
    const auto  tgt = kinds.size() - 1;
    for (tensor_size_t s = 0; s < n; ++s) src.V[static_cast<size_t>(s)][tgt][0] = sym_box(sym_nm("y", s), -8.0, 8.0);
    src.load();
    dataset_t ds(src, 1);
    add_identity_generators(ds);
    const auto samples = all_samples(n);

    auto loss = loss_t::all().get("mse");
    gboost_model_t model;
    model.parameter("gboost::max_rounds") = cfgi("rounds", 10); // domain minimum is 10: the number of rounds actually run is bounded by early stopping (patience 1)
    model.parameter("gboost::patience")   = cfgi("patience", 1);
    model.parameter("gboost::wscale")     = cfgi("ws", 1) ? gboost_wscale::tboost : gboost_wscale::gboost;
    model.parameter("gboost::shrinkage")  = gboost_shrinkage::off;
    model.parameter("gboost::subsample")  = gboost_subsample::off;
    rwlearners_t protos;
    protos.push_back(wlearner_t::all().get(wlid));
    model.prototypes(std::move(protos));

    auto params   = ml::params_t{};
    auto splitter = splitter_t::all().get("k-fold");
    splitter->parameter("splitter::folds") = F;
    params.splitter(*splitter);
    const auto expected_splits = splitter->split(samples);

    const auto result = model.fit(ds, samples, *loss, params);

    auto recompute = [&](const tensor1d_t& bias, const rwlearners_t& wls, const indices_t& on, double& esum, double& lsum)
    {
        tensor4d_t out(cat_dims(on.size(), ds.target_dims()));
        for (tensor_size_t i = 0; i < on.size(); ++i) out(i, 0, 0, 0) = bias(0);
        for (const auto& wl : wls) wl->predict(ds, on, out.tensor());
        esum = 0.0, lsum = 0.0;
        for (tensor_size_t i = 0; i < on.size(); ++i)
        {
            const double d = out(i, 0, 0, 0) - src.V[static_cast<size_t>(on(i))][tgt][0];
            lsum           = lsum + 0.5 * d * d;
            esum           = esum + (d < 0.0 ? -d : d);
        }
    };

    for (tensor_size_t t = 0; t < result.trials(); ++t)
        for (tensor_size_t f = 0; f < result.folds(); ++f)
        {
            const auto* stored = std::any_cast<gboost::result_t>(&result.extra(t, f));
            SYM_CHECK(stored != nullptr, "a boosting result is stored for every (trial, fold)");
            if (stored == nullptr) continue;
            const auto& [tr, vd] = expected_splits[static_cast<size_t>(f)];
            double e = 0.0, l = 0.0;
            recompute(stored->m_bias, stored->m_wlearners, tr, e, l);
            SYM_EQ_(result.stats(t, f, ml::split_type::train, ml::value_type::losses).m_mean * static_cast<double>(tr.size()), l, "per-fold training loss statistics = recomputed with the stored fold model (bias + sum of weak learners)");
            SYM_EQ_(result.stats(t, f, ml::split_type::train, ml::value_type::errors).m_mean * static_cast<double>(tr.size()), e, "per-fold training error statistics = recomputed with the stored fold model (bias + sum of weak learners)");
            recompute(stored->m_bias, stored->m_wlearners, vd, e, l);
            SYM_EQ_(result.stats(t, f, ml::split_type::valid, ml::value_type::losses).m_mean * static_cast<double>(vd.size()), l, "per-fold validation loss statistics = recomputed with the stored fold model (bias + sum of weak learners)");
            SYM_EQ_(result.stats(t, f, ml::split_type::valid, ml::value_type::errors).m_mean * static_cast<double>(vd.size()), e, "per-fold validation error statistics = recomputed with the stored fold model (bias + sum of weak learners)");
        }
    {
        double e = 0.0, l = 0.0;
        recompute(model.bias(), model.wlearners(), samples, e, l);
        const auto m = static_cast<double>(samples.size());
        SYM_EQ_(result.stats(ml::value_type::losses).m_mean * m, l, "final loss statistics = recomputed by predicting with the final model on the fitted samples");
        SYM_EQ_(result.stats(ml::value_type::errors).m_mean * m, e, "final error statistics = recomputed by predicting with the final model on the fitted samples");
    }
}
