// Oracle function: every evaluation returns FRESH symbolic (value, gradient) and records the query point, so a
// harness statement about "any function" is a literal universal quantifier over the evaluation results.
// Optional: evaluation number `inf_at` returns +inf (concrete) to exercise the non-finite trial handling.
#pragma once
#include "hcommon.h"

namespace h
{
struct oracle_t final : function_t
{
    mutable std::vector<std::vector<double>> xs, gs;
    mutable std::vector<double>              fs;
    long                                     inf_at{-1}, inf_at2{-1};
    mutable long                             gcount{0};
    bool                                     consistent{true};
    std::vector<std::vector<double>>         pre_g; ///< concrete answers of the first evaluations (optional): gradient
    std::vector<double>                      pre_f; ///< ... and value

    explicit oracle_t(tensor_size_t n, bool is_convex = false, bool is_smooth = true)
        : function_t("oracle", n)
    {
        convex(is_convex ? convexity::yes : convexity::no);
        smooth(is_smooth ? smoothness::yes : smoothness::no);
    }
    rfunction_t clone() const override { return std::make_unique<oracle_t>(*this); }
    scalar_t    do_vgrad(vector_cmap_t x, vector_map_t gx) const override
    {
        const auto          k = static_cast<long>(xs.size());
        std::vector<double> xx, gg;
        for (tensor_size_t i = 0; i < x.size(); ++i) xx.push_back(x(i));
        xs.push_back(xx);
        const bool inf = (k == inf_at || k == inf_at2);
        const bool pre = static_cast<size_t>(k) < pre_f.size();
        // pinned answers stay symbols (constrained by an equality) so that the arithmetic on them is exact
        fs.push_back(inf ? std::numeric_limits<double>::infinity() : sym_real(sym_nm("f", k)));
        if (pre && !inf) sym_assume_cmp(fs.back(), SYM_EQ, pre_f[static_cast<size_t>(k)]);
        for (tensor_size_t i = 0; i < x.size(); ++i)
        {
            gg.push_back(sym_real(sym_nm("g", k, i)));
            if (pre) sym_assume_cmp(gg.back(), SYM_EQ, pre_g[static_cast<size_t>(k)][static_cast<size_t>(i)]);
        }
        gs.push_back(gg);
        // the oracle is a function: equal query points give equal answers
        if (consistent)
            for (long j = 0; j < k; ++j)
            {
                const auto& xj = xs[static_cast<size_t>(j)];
                const int   nn = static_cast<int>(x.size());
                sym_assume_eq_implies_eq(nn, xx.data(), xj.data(), fs.back(), fs[static_cast<size_t>(j)]);
                for (tensor_size_t i = 0; i < x.size(); ++i)
                    sym_assume_eq_implies_eq(nn, xx.data(), xj.data(), gg[static_cast<size_t>(i)], gs[static_cast<size_t>(j)][static_cast<size_t>(i)]);
            }
        if (gx.size() == x.size())
        {
            ++gcount;
            for (tensor_size_t i = 0; i < x.size(); ++i) gx(i) = gg[static_cast<size_t>(i)];
        }
        return fs.back();
    }
    // index of the (latest) evaluation made exactly at this point (handle identity), -1 if none
    long find(const vector_t& x) const
    {
        for (size_t k = xs.size(); k-- > 0;)
        {
            bool same = true;
            for (tensor_size_t i = 0; i < x.size(); ++i) same = same && sym_same(xs[k][static_cast<size_t>(i)], x(i));
            if (same) return static_cast<long>(k);
        }
        return -1;
    }
    double dot(long k, const vector_t& d) const
    {
        double s = 0.0;
        for (tensor_size_t i = 0; i < d.size(); ++i) s = s + gs[static_cast<size_t>(k)][static_cast<size_t>(i)] * d(i);
        return s;
    }
};
} // namespace h
