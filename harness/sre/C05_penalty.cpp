// C05 (clause 1): penalty / augmented-Lagrangian functions equal their defining formulas (value + gradient)
#include "sym.h"
#include <nano/function/penalty.h>
using namespace nano;

struct hquad_t final : function_t
{
    double q0, q1, c0, c1;
    hquad_t(double a, double b, double c, double d)
        : function_t("quad", 2), q0(a), q1(b), c0(c), c1(d)
    {
        convex(convexity::yes);
        smooth(smoothness::yes);
    }
    rfunction_t clone() const override { return std::make_unique<hquad_t>(*this); }
    scalar_t do_vgrad(vector_cmap_t x, vector_map_t gx) const override
    {
        if (gx.size() == x.size())
        {
            gx(0) = q0 * x(0) + c0;
            gx(1) = q1 * x(1) + c1;
        }
        return 0.5 * (q0 * x(0) * x(0) + q1 * x(1) * x(1)) + c0 * x(0) + c1 * x(1);
    }
};

extern "C" void sym_body()
{
    hquad_t f(sym_real("q0"), sym_real("q1"), sym_real("c0"), sym_real("c1"));
    vector_t a(2);
    a(0) = sym_real("a0");
    a(1) = sym_real("a1");
    double b = sym_real("b");
    vector_t o(2);
    o(0) = sym_real("o0");
    o(1) = sym_real("o1");
    double r = sym_pos("r");
    double m = sym_real("m");
    SYM_CHECK(f.constrain(constraint::linear_inequality_t{a, b}), "constrain accepts linear inequality");
    SYM_CHECK(f.constrain(constraint::euclidean_ball_equality_t{o, r}), "constrain accepts ball");
    SYM_CHECK(f.constrain(constraint::maximum_t{m, 0}), "constrain accepts maximum");
    vector_t x(2);
    x(0) = sym_real("x0");
    x(1) = sym_real("x1");
    double ro = sym_pos("ro");
    double g1 = a(0) * x(0) + a(1) * x(1) + b;
    double h1 = (x(0) - o(0)) * (x(0) - o(0)) + (x(1) - o(1)) * (x(1) - o(1)) - r * r;
    double g2 = x(0) - m;
    double fx = 0.5 * (f.q0 * x(0) * x(0) + f.q1 * x(1) * x(1)) + f.c0 * x(0) + f.c1 * x(1);
    auto pos = [](double v) { return v > 0.0 ? v : 0.0; };
    auto ab  = [](double v) { return v >= 0.0 ? v : -v; };
    {
        auto p = quadratic_penalty_function_t(f);
        p.penalty(ro);
        vector_t g(2);
        double   v = p.vgrad(x, g);
        double   e = fx + ro * (pos(g1) * pos(g1) + h1 * h1 + pos(g2) * pos(g2));
        SYM_EQ_(v, e, "quadratic penalty value");
        double e0 = f.q0 * x(0) + f.c0 + ro * 2.0 * (pos(g1) * a(0) + h1 * 2.0 * (x(0) - o(0)) + pos(g2));
        SYM_EQ_(g(0), e0, "quadratic penalty grad0");
    }
    {
        auto p = linear_penalty_function_t(f);
        p.penalty(ro);
        double v = p.vgrad(x);
        double e = fx + ro * (pos(g1) + ab(h1) + pos(g2));
        SYM_EQ_(v, e, "linear penalty value");
    }
    {
        vector_t la(1), mu(2);
        la(0) = sym_real("la");
        mu(0) = sym_real("mu0");
        mu(1) = sym_real("mu1");
        auto p = augmented_lagrangian_function_t(f, la, mu);
        p.penalty(ro);
        double v = p.vgrad(x);
        double e = fx + 0.5 * ro * (pos(g1 + mu(0) / ro) * pos(g1 + mu(0) / ro) + (h1 + la(0) / ro) * (h1 + la(0) / ro) +
                                    pos(g2 + mu(1) / ro) * pos(g2 + mu(1) / ro));
        SYM_EQ_(v, e, "augmented lagrangian value");
    }
}
