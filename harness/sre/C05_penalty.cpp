// C05 (clause 1): the linear-penalty, quadratic-penalty and augmented-Lagrangian functions equal their defining
// formulas (value and full gradient) for a symbolic quadratic objective, symbolic constraints of the kinds listed in
// the configuration (k=<kind>,<kind>,...  with kinds 0..10 in constraint_t's order), a symbolic point, penalty and
// multipliers; at a feasible point with zero multipliers they coincide with the objective.
#include "hcommon.h"
#include <nano/function/penalty.h>
using namespace nano;
using namespace h;

namespace
{
struct ref_t
{
    bool                eq;
    double              value;
    std::vector<double> grad;
};
} // namespace

extern "C" void sym_body()
{
    const tensor_size_t n     = cfgi("d", 2);
    const auto          kinds = cfglist("k");
    symquad_t           f(sym_symmetric("Q", n), sym_vector("c", n), 0.0);
    const vector_t      x = sym_vector("x", n);

    std::vector<ref_t> refs;
    int                id = 0;
    for (const long kind : kinds)
    {
        const std::string s = "k" + std::to_string(id++) + "_";
        ref_t             r;
        r.grad.assign(static_cast<size_t>(n), 0.0);
        bool ok = false;
        switch (kind)
        {
        case 0: case 1: case 2:
        {
            const tensor_size_t dim = cfgi("dim", n - 1);
            const double        v   = sym_real(s + "v");
            if (kind == 0) ok = f.constrain(constraint::constant_t{v, dim});
            if (kind == 1) ok = f.constrain(constraint::minimum_t{v, dim});
            if (kind == 2) ok = f.constrain(constraint::maximum_t{v, dim});
            r.eq                            = kind == 0;
            r.value                         = kind == 1 ? v - x(dim) : x(dim) - v;
            r.grad[static_cast<size_t>(dim)] = kind == 1 ? -1.0 : 1.0;
            break;
        }
        case 3: case 4:
        {
            const vector_t o   = sym_vector((s + "o").c_str(), n);
            const double   rad = sym_pos(s + "r");
            if (kind == 3) ok = f.constrain(constraint::euclidean_ball_equality_t{o, rad});
            else ok = f.constrain(constraint::euclidean_ball_inequality_t{o, rad});
            r.eq    = kind == 3;
            r.value = -rad * rad;
            for (tensor_size_t i = 0; i < n; ++i)
            {
                r.value                       = r.value + (x(i) - o(i)) * (x(i) - o(i));
                r.grad[static_cast<size_t>(i)] = 2.0 * (x(i) - o(i));
            }
            break;
        }
        case 5: case 6:
        {
            const vector_t q = sym_vector((s + "q").c_str(), n);
            const double   b = sym_real(s + "b");
            if (kind == 5) ok = f.constrain(constraint::linear_equality_t{q, b});
            else ok = f.constrain(constraint::linear_inequality_t{q, b});
            r.eq    = kind == 5;
            r.value = b;
            for (tensor_size_t i = 0; i < n; ++i)
            {
                r.value                       = r.value + q(i) * x(i);
                r.grad[static_cast<size_t>(i)] = q(i);
            }
            break;
        }
        case 7: case 8:
        {
            const matrix_t P = sym_symmetric((s + "P").c_str(), n);
            const vector_t q = sym_vector((s + "q").c_str(), n);
            const double   b = sym_real(s + "b");
            if (kind == 7) ok = f.constrain(constraint::quadratic_equality_t{P, q, b});
            else ok = f.constrain(constraint::quadratic_inequality_t{P, q, b});
            r.eq    = kind == 7;
            r.value = quad_value(P, q, b, x);
            for (tensor_size_t i = 0; i < n; ++i) r.grad[static_cast<size_t>(i)] = quad_grad(P, q, x, i);
            break;
        }
        default:
        {
            const matrix_t P = sym_symmetric((s + "F").c_str(), n);
            const vector_t q = sym_vector((s + "g").c_str(), n);
            const double   b = sym_real(s + "h");
            symquad_t      c(P, q, b);
            if (kind == 9) ok = f.constrain(constraint::functional_equality_t{c});
            else ok = f.constrain(constraint::functional_inequality_t{c});
            r.eq    = kind == 9;
            r.value = quad_value(P, q, b, x);
            for (tensor_size_t i = 0; i < n; ++i) r.grad[static_cast<size_t>(i)] = quad_grad(P, q, x, i);
            break;
        }
        }
        SYM_CHECK(ok, "constrain() accepts the constraint (harness precondition)");
        refs.push_back(r);
    }
    SYM_CHECK(static_cast<size_t>(count_equalities(f) + count_inequalities(f)) == refs.size(), "constraint counts");

    const double ro = sym_pos("ro");
    const double fx = quad_value(f.Q, f.c, 0.0, x);
    auto         pos = [](double v) { return v > 0.0 ? v : 0.0; };
    auto         ab  = [](double v) { return v >= 0.0 ? v : -v; };
    auto         sgn = [](double v) { return v >= 0.0 ? 1.0 : -1.0; };

    // linear penalty: f + ro * (sum |h| + sum max(0,g)); subgradient with sign(h) (sign(0) = +1) / active g
    {
        auto p = linear_penalty_function_t(f);
        p.penalty(ro);
        vector_t     g(n);
        const double v  = p.vgrad(x, g);
        const double v0 = p.vgrad(x);
        double       e  = fx;
        for (const auto& r : refs) e = e + ro * (r.eq ? ab(r.value) : pos(r.value));
        SYM_EQ_(v, e, "linear penalty: value = f + ro*(sum|h| + sum max(0,g))");
        SYM_EQ_(v0, v, "linear penalty: value-only call = value+gradient call");
        for (tensor_size_t i = 0; i < n; ++i)
        {
            double eg = quad_grad(f.Q, f.c, x, i);
            for (const auto& r : refs)
            {
                const double w = r.eq ? sgn(r.value) : (r.value > 0.0 ? 1.0 : 0.0);
                eg             = eg + ro * w * r.grad[static_cast<size_t>(i)];
            }
            SYM_EQ_(g(i), eg, "linear penalty: gradient component");
        }
    }
    // quadratic penalty: f + ro * (sum h^2 + sum max(0,g)^2)
    {
        auto p = quadratic_penalty_function_t(f);
        p.penalty(ro);
        vector_t     g(n);
        const double v  = p.vgrad(x, g);
        const double v0 = p.vgrad(x);
        double       e  = fx;
        for (const auto& r : refs) e = e + ro * (r.eq ? r.value * r.value : pos(r.value) * pos(r.value));
        SYM_EQ_(v, e, "quadratic penalty: value = f + ro*(sum h^2 + sum max(0,g)^2)");
        SYM_EQ_(v0, v, "quadratic penalty: value-only call = value+gradient call");
        for (tensor_size_t i = 0; i < n; ++i)
        {
            double eg = quad_grad(f.Q, f.c, x, i);
            for (const auto& r : refs) eg = eg + 2.0 * ro * (r.eq ? r.value : pos(r.value)) * r.grad[static_cast<size_t>(i)];
            SYM_EQ_(g(i), eg, "quadratic penalty: gradient component");
        }
    }
    // augmented lagrangian: f + ro/2 * (sum (h + la/ro)^2 + sum max(0, g + mu/ro)^2)
    {
        const auto neq = count_equalities(f), nineq = count_inequalities(f);
        vector_t   la = sym_vector("la", neq), mu = sym_vector("mu", nineq);
        auto       p  = augmented_lagrangian_function_t(f, la, mu);
        p.penalty(ro);
        vector_t      g(n);
        const double  v  = p.vgrad(x, g);
        const double  v0 = p.vgrad(x);
        double        e  = fx;
        tensor_size_t ie = 0, ii = 0;
        std::vector<double> w;
        for (const auto& r : refs)
        {
            const double t = r.eq ? r.value + la(ie++) / ro : pos(r.value + mu(ii++) / ro);
            w.push_back(t);
            e = e + 0.5 * ro * t * t;
        }
        SYM_EQ_(v, e, "augmented lagrangian: value = f + ro/2*(sum (h+la/ro)^2 + sum max(0,g+mu/ro)^2)");
        SYM_EQ_(v0, v, "augmented lagrangian: value-only call = value+gradient call");
        for (tensor_size_t i = 0; i < n; ++i)
        {
            double eg = quad_grad(f.Q, f.c, x, i);
            for (size_t k = 0; k < refs.size(); ++k) eg = eg + ro * w[k] * refs[k].grad[static_cast<size_t>(i)];
            SYM_EQ_(g(i), eg, "augmented lagrangian: gradient component");
        }
    }
    // feasible point, zero multipliers: all three coincide with the objective
    {
        bool feasible = true;
        for (const auto& r : refs) feasible = feasible && (r.eq ? r.value == 0.0 : r.value <= 0.0);
        if (feasible)
        {
            vector_t la = vector_t::zero(count_equalities(f)), mu = vector_t::zero(count_inequalities(f));
            auto     p1 = linear_penalty_function_t(f);
            auto     p2 = quadratic_penalty_function_t(f);
            auto     p3 = augmented_lagrangian_function_t(f, la, mu);
            p1.penalty(ro);
            p2.penalty(ro);
            p3.penalty(ro);
            SYM_EQ_(p1.vgrad(x), fx, "feasible point: linear penalty = objective");
            SYM_EQ_(p2.vgrad(x), fx, "feasible point: quadratic penalty = objective");
            SYM_EQ_(p3.vgrad(x), fx, "feasible point, zero multipliers: augmented lagrangian = objective");
            SYM_CHECK(f.valid(x), "feasible point: function_t::valid(x) agrees");
        }
    }
}
