// C07: line-search steps honour the acceptance conditions they advertise, for ANY function (oracle), any point,
// direction, initial step and tolerances 0<c1<c2<1.
// config: ls=<backtrack|lemarechal|fletcher|morethuente|cgdescent>;d=<dims>;it=<max_iterations>;interp=<0..2>;
//         t0=<sym|inf|nan|neg>;inf=<evaluation index returning +inf, -1 none>;fn=<oracle|quad>
#include "horacle.h"
#include <nano/lsearchk.h>
#include <nano/solver/lstep.h>
#include <nano/solver/state.h>
using namespace nano;
using namespace h;

#ifndef REAL_UPDATE
// non-logging equivalent of lsearchk_t::update (the original evaluates the Armijo/Wolfe predicates only to log them)
bool lsearchk_t::update(solver_state_t& state, const solver_state_t& state0, const vector_t& descent, const scalar_t step_size,
                        const logger_t&) const
{
    return state.update(state0.x() + step_size * descent);
}
#endif
#ifndef REAL_INTERPOLATE
// interpolation returns an arbitrary real (every caller clamps the result into its own safeguarded interval)
static int g_interp = 0;
scalar_t   lsearch_step_t::interpolate(const lsearch_step_t&, const lsearch_step_t&, interpolation_type)
{
    return sym_real(sym_nm("ti", g_interp++));
}
#endif

extern "C" void sym_body()
{
    const std::string   ls  = cfg("ls", "backtrack");
    const tensor_size_t n   = cfgi("d", 1);
    const std::string   fn  = cfg("fn", "oracle");
    const std::string   t0s = cfg("t0", "sym");

    std::unique_ptr<function_t> fun;
    oracle_t*                   orc = nullptr;
    symquad_t*                  qd  = nullptr;
    if (fn == "oracle")
    {
        auto o      = std::make_unique<oracle_t>(n);
        o->inf_at   = cfgi("inf", -1);
        o->inf_at2  = cfgi("inf2", -1);
        orc         = o.get();
        fun         = std::move(o);
    }
    else
    {
        const double sc = static_cast<double>(cfgi("scale", 0));
        matrix_t     Q;
        if (sc > 0)
        {
            // well-scaled: D entries and c inside [-scale, scale]
            matrix_t D(n, n);
            for (tensor_size_t i = 0; i < n; ++i)
                for (tensor_size_t j = 0; j < n; ++j) D(i, j) = sym_box(sym_nm("D", i, j), -sc, sc);
            Q = matrix_t(n, n);
            for (tensor_size_t i = 0; i < n; ++i)
                for (tensor_size_t j = 0; j < n; ++j)
                {
                    double v = 0.0;
                    for (tensor_size_t k = 0; k < n; ++k) v = v + D(k, i) * D(k, j);
                    Q(i, j) = v;
                }
        }
        else Q = sym_psd("D", n);
        if (cfgi("strict", 0) > 0)
        {
            // strictly convex along every axis: curvature >= 1e-2 (1-D: strongly convex)
            for (tensor_size_t i = 0; i < n; ++i) sym_assume_cmp(Q(i, i), SYM_GE, 0.01);
        }
        auto q = std::make_unique<symquad_t>(Q, sc > 0 ? sym_vector_in("c", n, -sc, sc) : sym_vector("c", n), 0.0, true);
        qd     = q.get();
        fun    = std::move(q);
    }
    const vector_t x0 = cfgi("scale", 0) > 0 ? sym_vector_in("x", n, -10.0, 10.0) : sym_vector("x", n);
    solver_state_t state(*fun, x0); // evaluation #0
    const vector_t d = cfgi("scale", 0) > 0 ? sym_vector_in("d", n, -10.0, 10.0) : sym_vector("d", n);

    auto lsk = lsearchk_t::all().get(ls);
    SYM_CHECK(static_cast<bool>(lsk), "line-search id registered");
    double c1 = 1e-4, c2 = 0.9;
    if (cfg("tol", "sym") == "sym")
    {
        c1 = sym_real_in("c1", 0.0, 1.0, 1);
        c2 = sym_real_in("c2", 0.0, 1.0, 1);
        sym_assume_cmp(c1, SYM_LT, c2);
    }
    else if (cfg("tol", "sym") == "mid")
    {
        c1 = sym_real_in("c1", 1e-4, 0.3, 0);
        c2 = sym_real_in("c2", 0.3, 0.9, 1);
    }
    lsk->parameter("lsearchk::tolerance")      = std::make_tuple(c1, c2);
    lsk->parameter("lsearchk::max_iterations") = static_cast<int>(cfgi("it", 2));
    if (ls == "backtrack" || ls == "lemarechal" || ls == "fletcher")
    {
        const auto interp = static_cast<interpolation_type>(cfgi("interp", 2));
        lsk->parameter("lsearchk::" + ls + "::interpolation") = interp;
    }
    double t0 = 1.0;
    if (t0s == "sym") t0 = sym_box("t0", 1e-3, 1e3);
    else if (t0s == "inf") t0 = std::numeric_limits<double>::infinity();
    else if (t0s == "nan") t0 = std::numeric_limits<double>::quiet_NaN();
    else t0 = -1.0;

    const double   f0  = state.fx();
    const vector_t g0  = state.gx();
    double         dg0 = 0.0;
    for (tensor_size_t i = 0; i < n; ++i) dg0 = dg0 + g0(i) * d(i);

    const auto [ok, t] = lsk->get(state, d, t0, make_null_logger());

    if (!(dg0 < 0.0))
    {
        // not a descent direction: refused, state untouched
        SYM_CHECK(!ok, "non-descent direction is refused");
        bool untouched = sym_same(state.fx(), f0);
        for (tensor_size_t i = 0; i < n; ++i) untouched = untouched && sym_same(state.x()(i), x0(i)) && sym_same(state.gx()(i), g0(i));
        SYM_CHECK(untouched, "non-descent direction: state untouched");
        if (orc) SYM_CHECK(orc->xs.size() == 1U, "non-descent direction: no evaluation performed");
        return;
    }
    if (!ok) return;

    // success: finite positive step, state = evaluation at x0 + t*d
    SYM_CHECK(t == t && t != std::numeric_limits<double>::infinity() && t != -std::numeric_limits<double>::infinity(), "accepted step is finite");
    SYM_GT_(t, 0.0, "accepted step is positive");
    for (tensor_size_t i = 0; i < n; ++i) SYM_EQ_(state.x()(i), x0(i) + t * d(i), "returned state is at x0 + t*d");
    double ft = 0.0, dgt = 0.0;
    if (orc)
    {
        const long k = orc->find(state.x());
        SYM_CHECK(k >= 0, "returned point was evaluated by the function");
        if (k < 0) return;
        SYM_CHECK(sym_same(state.fx(), orc->fs[static_cast<size_t>(k)]), "state value = function value at the returned point");
        bool gsame = true;
        for (tensor_size_t i = 0; i < n; ++i) gsame = gsame && sym_same(state.gx()(i), orc->gs[static_cast<size_t>(k)][static_cast<size_t>(i)]);
        SYM_CHECK(gsame, "state gradient = function gradient at the returned point");
        ft  = orc->fs[static_cast<size_t>(k)];
        dgt = orc->dot(k, d);
        SYM_CHECK(ft == ft && ft != std::numeric_limits<double>::infinity(), "accepted value is finite");
    }
    else
    {
        vector_t xt(n);
        for (tensor_size_t i = 0; i < n; ++i) xt(i) = x0(i) + t * d(i);
        ft = quad_value(qd->Q, qd->c, 0.0, xt);
        SYM_EQ_(state.fx(), ft, "state value = function value at the returned point");
        for (tensor_size_t i = 0; i < n; ++i)
        {
            const double gi = quad_grad(qd->Q, qd->c, xt, i);
            SYM_EQ_(state.gx()(i), gi, "state gradient = function gradient at the returned point");
            dgt = dgt + gi * d(i);
        }
    }
    auto ab = [](double v) { return v >= 0.0 ? v : -v; };
    if (ls == "backtrack" || ls == "lemarechal" || ls == "fletcher" || (qd && ls == "morethuente"))
    {
        SYM_LE_(ft, f0 + t * c1 * dg0, "success => Armijo: f(x+td) <= f(x) + c1 t g.d");
    }
    if (ls == "lemarechal")
    {
        SYM_GE_(dgt, c2 * dg0, "success => Wolfe: g(x+td).d >= c2 g.d");
    }
    if (ls == "fletcher" || (qd && ls == "morethuente"))
    {
        SYM_LE_(ab(dgt), c2 * ab(dg0), "success => strong Wolfe: |g(x+td).d| <= c2 |g.d|");
    }
    if (qd && ls == "cgdescent")
    {
        // Wolfe or approximate Wolfe (CG_DESCENT): curvature part holds in both variants
        SYM_GE_(dgt, c2 * dg0, "cgdescent success => curvature condition g(x+td).d >= c2 g.d");
    }
}
