// C12 (last clause): "points sampled from a ball lie inside it". nano::sample_from_ball draws a direction (normal variates with
// random signs), normalises it and scales it by radius * U^(1/n). The random draws are replaced at link time by ARBITRARY values
// of their range (any real for a normal variate, any value of [0, 1) for the canonical uniform variate), the centre and the radius
// are symbolic: for every such draw the returned point x satisfies ||x - x0||_2 <= radius (1e-9 relative).
// config: n=<dimension 1..4>
#include "hcommon.h"
#include <nano/core/sampling.h>
#include <random>
using namespace nano;
using namespace h;

namespace
{
long g_draw = 0;
}
// strong definitions of the two draw primitives (the library's instantiations are kept out of line and weak: engine/sre/overridable.txt)
template <>
template <>
double std::normal_distribution<double>::operator()(rng_t&, const param_type&)
{
    return sym_box(sym_nm("normal", g_draw++), -64.0, 64.0);
}
template <>
double std::generate_canonical<double, 53, rng_t>(rng_t&)
{
    const double u = sym_box(sym_nm("unif", g_draw++), 0.0, 1.0);
    sym_assume_cmp(u, SYM_LT, 1.0);
    return u;
}

extern "C" void sym_body()
{
    const tensor_size_t n = cfgi("n", 2);
    vector_t            x0(n);
    for (tensor_size_t k = 0; k < n; ++k) x0(k) = sym_box(sym_nm("c", k), -8.0, 8.0);
    const double radius = sym_box("radius", 1e-6, 16.0);
    auto         rng    = make_rng(42U);
    const auto   x      = sample_from_ball(x0, radius, rng);
    SYM_CHECK(x.size() == n, "the sampled point has the dimension of the centre");
    double d2 = 0.0;
    for (tensor_size_t k = 0; k < n; ++k) d2 = d2 + (x(k) - x0(k)) * (x(k) - x0(k));
    SYM_LE_(d2, radius * radius, "a point sampled from a ball lies inside it: ||x - x0||^2 <= radius^2 for every draw");
}
