// helpers shared by the SRE harnesses
#pragma once
#include "sym.h"
#include <cstdlib>
#include <nano/function.h>
#include <string>
#include <vector>

namespace h
{
using namespace nano;

// sequentialised multi-worker mode of the thread pool (see sre_support.cpp)
extern size_t g_max_workers;
extern int    g_sched;
extern long   g_tasks_run;
extern long   g_drains;
extern long   g_arb_drain;
inline size_t setup_workers(long threads, long sched, long arb_drain = -1)
{
    g_max_workers = threads < 1 ? 1U : static_cast<size_t>(threads);
    g_sched       = static_cast<int>(sched);
    g_tasks_run   = 0;
    g_drains      = 0;
    g_arb_drain   = arb_drain;
    return g_max_workers;
}

// configuration "k1=v1;k2=v2"
inline std::string cfg(const char* key, const char* def = "")
{
    const std::string c = std::string(";") + sym_config() + ";";
    const std::string k = std::string(";") + key + "=";
    const auto        p = c.find(k);
    if (p == std::string::npos) return def;
    const auto e = c.find(';', p + k.size());
    return c.substr(p + k.size(), e - p - k.size());
}
inline long cfgi(const char* key, long def)
{
    const auto s = cfg(key, "");
    return s.empty() ? def : std::atol(s.c_str());
}
inline std::vector<long> cfglist(const char* key)
{
    std::vector<long> out;
    const auto        s = cfg(key, "");
    size_t            i = 0;
    while (i < s.size())
    {
        size_t j = s.find(',', i);
        if (j == std::string::npos) j = s.size();
        out.push_back(std::atol(s.substr(i, j - i).c_str()));
        i = j + 1;
    }
    return out;
}

inline vector_t sym_vector(const char* stem, tensor_size_t n)
{
    vector_t v(n);
    for (tensor_size_t i = 0; i < n; ++i) v(i) = sym_real(sym_nm(stem, i));
    return v;
}
inline vector_t sym_vector_in(const char* stem, tensor_size_t n, double lo, double hi)
{
    vector_t v(n);
    for (tensor_size_t i = 0; i < n; ++i) v(i) = sym_box(sym_nm(stem, i), lo, hi);
    return v;
}
inline matrix_t sym_matrix(const char* stem, tensor_size_t r, tensor_size_t c)
{
    matrix_t m(r, c);
    for (tensor_size_t i = 0; i < r; ++i)
        for (tensor_size_t j = 0; j < c; ++j) m(i, j) = sym_real(sym_nm(stem, i, j));
    return m;
}
// symmetric matrix with symbolic entries
inline matrix_t sym_symmetric(const char* stem, tensor_size_t n)
{
    matrix_t m(n, n);
    for (tensor_size_t i = 0; i < n; ++i)
        for (tensor_size_t j = i; j < n; ++j) m(i, j) = m(j, i) = sym_real(sym_nm(stem, i, j));
    return m;
}
// symmetric positive semi-definite D'D with symbolic D
inline matrix_t sym_psd(const char* stem, tensor_size_t n)
{
    const matrix_t D = sym_matrix(stem, n, n);
    matrix_t       m(n, n);
    for (tensor_size_t i = 0; i < n; ++i)
        for (tensor_size_t j = 0; j < n; ++j)
        {
            double s = 0.0;
            for (tensor_size_t k = 0; k < n; ++k) s = s + D(k, i) * D(k, j);
            m(i, j) = s;
        }
    return m;
}

// f(x) = 1/2 x'Qx + c'x + r with explicit loops (reference-friendly)
inline double quad_value(const matrix_t& Q, const vector_t& c, double r, const vector_t& x)
{
    double v = r;
    for (tensor_size_t i = 0; i < x.size(); ++i)
    {
        v = v + c(i) * x(i);
        for (tensor_size_t j = 0; j < x.size(); ++j) v = v + 0.5 * x(i) * Q(i, j) * x(j);
    }
    return v;
}
inline double quad_grad(const matrix_t& Q, const vector_t& c, const vector_t& x, tensor_size_t i)
{
    double g = c(i);
    for (tensor_size_t j = 0; j < x.size(); ++j) g = g + 0.5 * (Q(i, j) + Q(j, i)) * x(j);
    return g;
}

struct symquad_t final : function_t
{
    matrix_t Q;
    vector_t c;
    double   r{0.0};
    symquad_t(matrix_t q, vector_t cc, double rr = 0.0, bool cvx = false)
        : function_t("symquad", cc.size())
        , Q(std::move(q))
        , c(std::move(cc))
        , r(rr)
    {
        convex(cvx ? convexity::yes : convexity::no);
        smooth(smoothness::yes);
    }
    rfunction_t clone() const override { return std::make_unique<symquad_t>(*this); }
    scalar_t    do_vgrad(vector_cmap_t x, vector_map_t gx) const override
    {
        vector_t xx(x.size());
        for (tensor_size_t i = 0; i < x.size(); ++i) xx(i) = x(i);
        if (gx.size() == x.size())
            for (tensor_size_t i = 0; i < x.size(); ++i) gx(i) = quad_grad(Q, c, xx, i);
        return quad_value(Q, c, r, xx);
    }
};
} // namespace h
