// C11: (a) early-stopping monitor vs. a reference monitor written from the property statement, for every history of
//      (train, valid) per-sample error values of the configured length; (b) ml::result_t returns exactly what was stored
//      under each (trial, fold) and reports the trial with the smallest mean validation error.
// config: mode=es;k=<rounds>;pat=<patience>;valid=<0|1>     mode=res;T=<trials>;F=<folds>;big=<index of the 2-sample slot>
#include "hcommon.h"
#include <any>
#include <nano/gboost/early_stopping.h>
#include <nano/machine/result.h>
using namespace nano;
using namespace h;

static void early_stopping()
{
    const long   k        = cfgi("k", 3);
    const size_t patience = static_cast<size_t>(cfgi("pat", 1));
    const bool   hasvalid = cfgi("valid", 1) != 0;
    const double eps      = sym_real_in("eps", 0.0, 1.0, 1);

    const tensor_size_t S = 3; // samples 0,1: training; sample 2: validation
    indices_t train(2), valid(hasvalid ? 1 : 0);
    train(0) = 0;
    train(1) = 1;
    if (hasvalid) valid(0) = 2;

    tensor2d_t init(2, S);
    for (tensor_size_t s = 0; s < S; ++s)
    {
        init(0, s) = sym_real(sym_nm("i0_", s));
        init(1, s) = sym_real(sym_nm("i1_", s));
    }
    gboost::early_stopping_t monitor(init);

    // reference monitor
    bool       ref_has = false;
    double     ref_value = 0.0;
    size_t     ref_round = 0;
    tensor2d_t ref_values = init;

    rwlearners_t wlearners;
    for (long i = 1; i <= k; ++i)
    {
        wlearners.emplace_back(); // the monitor only reads wlearners.size()
        tensor2d_t E(2, S);
        for (tensor_size_t s = 0; s < S; ++s)
        {
            E(0, s) = sym_box(sym_nm("e", i, s), 0.0, 1000.0);
            E(1, s) = sym_real(sym_nm("l", i, s));
        }
        const double tv = (E(0, 0) + E(0, 1)) / 2.0;
        const double vv = hasvalid ? E(0, 2) : 0.0;

        bool expect_stop = false;
        if (tv < eps)
        {
            // training error below epsilon: stop, this round is reported
            expect_stop = true;
            ref_has = true, ref_value = vv, ref_round = static_cast<size_t>(i), ref_values = E;
        }
        else if (!hasvalid || !ref_has || vv < ref_value - eps)
        {
            // improvement larger than epsilon accepted (always accepted without validation samples)
            ref_has = true, ref_value = vv, ref_round = static_cast<size_t>(i), ref_values = E;
        }
        else
        {
            // stop exactly when no improvement was accepted in the last `patience` rounds
            expect_stop = static_cast<size_t>(i) - ref_round >= patience;
        }
        const bool stop = monitor.done(E, train, valid, wlearners, eps, patience);
        SYM_CHECK(stop == expect_stop, "monitor stops exactly when train error < eps or no improvement accepted in the last `patience` rounds");
        SYM_CHECK(monitor.round() == ref_round, "reported round = round of the last accepted improvement");
        if (ref_has) SYM_EQ_(monitor.value(), ref_value, "reported value = validation error of that round");
        bool same = true;
        for (tensor_size_t s = 0; s < S; ++s) same = same && sym_same(monitor.values()(0, s), ref_values(0, s)) && sym_same(monitor.values()(1, s), ref_values(1, s));
        SYM_CHECK(same, "reported per-sample values are those of the reported round");
        if (stop) break;
    }
}

static void results()
{
    const tensor_size_t T = cfgi("T", 2), F = cfgi("F", 2);
    const long          big = cfgi("big", 0);
    ml::result_t        result(param_spaces_t{}, F);
    result.add(tensor2d_t(T, 0));
    SYM_CHECK(result.trials() == T && result.folds() == F, "trials/folds bookkeeping");

    // stored tensors: one sample each (mean = the value), except slot `big` which has two samples
    std::vector<std::vector<double>> mean(static_cast<size_t>(T * F), std::vector<double>(4, 0.0));
    // store in a scrambled order
    std::vector<std::pair<tensor_size_t, tensor_size_t>> order;
    for (tensor_size_t t = T; t-- > 0;)
        for (tensor_size_t f = 0; f < F; ++f) order.emplace_back(t, (f + t) % F);
    for (const auto& [t, f] : order)
    {
        const auto          slot = t * F + f;
        const tensor_size_t n    = slot == big ? 2 : 1;
        tensor2d_t          tr(2, n), va(2, n);
        for (tensor_size_t s = 0; s < n; ++s)
        {
            tr(0, s) = sym_box(sym_nm("te", slot, s), 0.0, 1000.0);
            tr(1, s) = sym_real(sym_nm("tl", slot, s));
            va(0, s) = sym_box(sym_nm("ve", slot, s), 0.0, 1000.0);
            va(1, s) = sym_real(sym_nm("vl", slot, s));
        }
        auto& m = mean[static_cast<size_t>(slot)];
        m[0]    = n == 1 ? tr(0, 0) : (tr(0, 0) + tr(0, 1)) / 2.0;
        m[1]    = n == 1 ? tr(1, 0) : (tr(1, 0) + tr(1, 1)) / 2.0;
        m[2]    = n == 1 ? va(0, 0) : (va(0, 0) + va(0, 1)) / 2.0;
        m[3]    = n == 1 ? va(1, 0) : (va(1, 0) + va(1, 1)) / 2.0;
        result.store(t, f, tr, va, std::any{static_cast<int>(slot)});
    }
    for (tensor_size_t t = 0; t < T; ++t)
    {
        double vsum = 0.0, tsum = 0.0;
        for (tensor_size_t f = 0; f < F; ++f)
        {
            const auto  slot = t * F + f;
            const auto& m    = mean[static_cast<size_t>(slot)];
            using ml::split_type;
            using ml::value_type;
            SYM_EQ_(result.stats(t, f, split_type::train, value_type::errors).m_mean, m[0], "stats(trial,fold,train,errors) = statistics of the tensor stored under (trial,fold)");
            SYM_EQ_(result.stats(t, f, split_type::train, value_type::losses).m_mean, m[1], "stats(trial,fold,train,losses) = statistics of the tensor stored under (trial,fold)");
            SYM_EQ_(result.stats(t, f, split_type::valid, value_type::errors).m_mean, m[2], "stats(trial,fold,valid,errors) = statistics of the tensor stored under (trial,fold)");
            SYM_EQ_(result.stats(t, f, split_type::valid, value_type::losses).m_mean, m[3], "stats(trial,fold,valid,losses) = statistics of the tensor stored under (trial,fold)");
            SYM_CHECK(result.stats(t, f, split_type::valid, value_type::errors).m_count == (slot == big ? 2.0 : 1.0), "stored sample count");
            const auto* ex = std::any_cast<int>(&result.extra(t, f));
            SYM_CHECK(ex != nullptr && *ex == static_cast<int>(slot), "extra(trial,fold) is the object stored for (trial,fold)");
            vsum = vsum + m[2];
            tsum = tsum + m[1];
        }
        SYM_EQ_(result.value(t) * static_cast<double>(F), vsum, "value(trial) = mean over folds of the validation-error means");
        SYM_EQ_(result.value(t, ml::split_type::train, ml::value_type::losses) * static_cast<double>(F), tsum, "value(trial,train,losses) = mean over folds");
    }
    // optimum trial: smallest mean validation error, first one on ties
    tensor_size_t best = 0;
    double        bestv = 0.0;
    for (tensor_size_t t = 0; t < T; ++t)
    {
        double v = 0.0;
        for (tensor_size_t f = 0; f < F; ++f) v = v + mean[static_cast<size_t>(t * F + f)][2];
        if (t == 0 || v < bestv) best = t, bestv = v;
    }
    SYM_CHECK(result.optimum_trial() == best, "optimum trial = argmin of the mean validation error across folds (first on ties)");
    const auto vals = result.values(make_range(0, T));
    for (tensor_size_t t = 0; t < T; ++t) SYM_EQ_(vals(t), result.value(t), "values(range) = value(trial) per trial");
}

extern "C" void sym_body()
{
    if (cfg("mode", "es") == "es") early_stopping();
    else results();
}
