// C10: weak learners fit residuals optimally in their class (RSS criterion) and predict consistently.
//  * the returned score equals the RSS of the learner's own predictions (clamped at make_score's epsilon)
//  * the score is <= the RSS of EVERY hypothesis of the class, with the hypothesis' parameters universally quantified:
//      stump : any feature, any threshold t, any two output values        affine: any feature, any (w, b)
//      dense table: any feature, any per-label output values
//  * predictions are added to the given outputs, are zero where the selected feature is missing, equal the table of the
//    group reported by split(); scale(s) multiplies predictions per group
// config: wl=<stump|affine|dense-table>;f=<feature kinds, last 'r' = regression target>;n=<samples>;miss=<pattern>;sub=<0|1>
#include "hdata.h"
#include <nano/wlearner.h>
#include <nano/wlearner/affine.h>
#include <nano/wlearner/criterion.h>
#include <nano/wlearner/stump.h>
#include <nano/wlearner/table.h>
using namespace nano;
using namespace h;

extern "C" void sym_body()
{
    const std::string   wid   = cfg("wl", "stump");
    const std::string   kinds = cfg("f", "rrr");
    const tensor_size_t n     = cfgi("n", 3);
    symsource_t         src(kinds, n, static_cast<long>(kinds.size()) - 1, static_cast<int>(cfgi("miss", 0)), cfgi("cx", 0) ? "#" : "v");
    src.load();
    dataset_t ds(src, setup_workers(cfgi("threads", 1), cfgi("sched", 0))); // threads>1: sequentialised multi-worker pool (see sre_support.cpp)
    add_identity_generators(ds);
    indices_t samples = all_samples(n);
    if (cfgi("sub", 0))
    {
        samples.resize(n);
        for (tensor_size_t i = 0; i < n; ++i) samples(i) = (i == 0) ? n - 1 : i; // sample 0 dropped, last one repeated
        std::sort(samples.begin(), samples.end());
    }
    const auto m = samples.size();

    tensor4d_t G(cat_dims(n, ds.target_dims()));
    for (tensor_size_t i = 0; i < n; ++i) G(i, 0, 0, 0) = sym_box(sym_nm("g", i), -8.0, 8.0);

    auto wl = wlearner_t::all().get(wid);
    SYM_CHECK(static_cast<bool>(wl), "weak learner id registered");
    wl->parameter("wlearner::criterion") = wlearner_criterion::rss;
    const double score = wl->fit(ds, samples, G);
    const double clampv = std::numeric_limits<double>::epsilon() * 1e+3;
    auto clamp = [&](double v) { return v > clampv ? v : clampv; };

    const auto nfeat = ds.features();
    // feature values as seen through the dataset
    auto fvalue = [&](tensor_size_t f, tensor_size_t i, bool& given)
    {
        scalar_mem_t buf;
        indices_t    one(1);
        one(0)       = samples(i);
        const auto v = ds.select(one, f, buf);
        given        = !(v(0) != v(0));
        return v(0);
    };
    auto flabel = [&](tensor_size_t f, tensor_size_t i)
    {
        sclass_mem_t buf;
        indices_t    one(1);
        one(0) = samples(i);
        return static_cast<long>(ds.select(one, f, buf)(0));
    };

    if (score == wlearner_t::no_fit_score())
    {
        // no hypothesis available: (stump) no feature has two distinct given values
        if (wid == "stump")
            for (tensor_size_t f = 0; f < nfeat; ++f)
            {
                if (!ds.feature(f).is_scalar()) continue;
                for (tensor_size_t i = 0; i < m; ++i)
                    for (tensor_size_t j = i + 1; j < m; ++j)
                    {
                        bool gi, gj;
                        const double vi = fvalue(f, i, gi), vj = fvalue(f, j, gj);
                        if (gi && gj) SYM_CHECK(vi == vj, "no fit only if no feature has two distinct values");
                    }
            }
        return;
    }

    // predictions: added to the given outputs
    tensor4d_t out(cat_dims(m, ds.target_dims()));
    for (tensor_size_t i = 0; i < m; ++i) out(i, 0, 0, 0) = sym_real(sym_nm("o", i));
    tensor4d_t out0 = out;
    wl->predict(ds, samples, out.tensor());
    std::vector<double> pred;
    double              rss_pred = 0.0;
    for (tensor_size_t i = 0; i < m; ++i)
    {
        pred.push_back(out(i, 0, 0, 0) - out0(i, 0, 0, 0));
        const double r = -G(samples(i), 0, 0, 0) - pred.back(); // the weak learner fits the residual = negative gradient
        rss_pred       = rss_pred + r * r;
    }
    SYM_EQ_(score, clamp(rss_pred), "returned score = RSS of the fitted learner's own predictions");

    const auto feats = wl->features();
    SYM_CHECK(feats.size() == 1 && feats(0) >= 0 && feats(0) < nfeat, "one selected feature inside the dataset");
    const auto sel = feats(0);
    const auto cl  = wl->split(ds, samples);
    for (tensor_size_t i = 0; i < m; ++i)
    {
        bool given = true;
        if (ds.feature(sel).is_scalar()) (void)fvalue(sel, i, given);
        else if (ds.feature(sel).is_sclass()) given = flabel(sel, i) >= 0;
        else
        {
            mclass_mem_t buf;
            indices_t    one(1);
            one(0) = samples(i);
            given  = ds.select(one, sel, buf)(0, 0) >= 0;
        }
        if (!given)
        {
            SYM_EQ_(pred[static_cast<size_t>(i)], 0.0, "prediction is zero where the selected feature is missing");
            SYM_CHECK(cl.group(samples(i)) < 0, "missing samples are not assigned to a group");
        }
        else SYM_CHECK(cl.group(samples(i)) >= 0 && cl.group(samples(i)) < cl.groups(), "given samples are assigned to a valid group");
    }
    // same group => same table (stump / dense table: piecewise-constant learners)
    if (wid != "affine")
        for (tensor_size_t i = 0; i < m; ++i)
            for (tensor_size_t j = i + 1; j < m; ++j)
                if (cl.group(samples(i)) >= 0 && cl.group(samples(i)) == cl.group(samples(j)))
                    SYM_EQ_(pred[static_cast<size_t>(i)], pred[static_cast<size_t>(j)], "samples of the same split() group get the same prediction");

    // optimality against universally quantified hypotheses
    for (tensor_size_t f = 0; f < nfeat; ++f)
    {
        const auto feature = ds.feature(f);
        double     rss = 0.0;
        if (wid == "stump" && feature.is_scalar())
        {
            // any threshold t; the best outputs for the induced partition are the group means, so comparing against the
            // partition's minimal RSS covers every (t, lo, hi); both sides must be non-empty (mid-point thresholds)
            const double t = sym_real(sym_nm("ht", f));
            double sl = 0.0, sh = 0.0, ql = 0.0, qh = 0.0;
            long   nl = 0, nh = 0;
            for (tensor_size_t i = 0; i < m; ++i)
            {
                bool         given;
                const double v = fvalue(f, i, given), g = -G(samples(i), 0, 0, 0);
                if (!given) rss = rss + g * g;
                else if (v < t) sl = sl + g, ql = ql + g * g, ++nl;
                else sh = sh + g, qh = qh + g * g, ++nh;
            }
            if (nl == 0 || nh == 0) continue;
            rss = rss + (ql - sl * sl / static_cast<double>(nl)) + (qh - sh * sh / static_cast<double>(nh));
        }
        else if (wid == "affine" && feature.is_scalar())
        {
            continue; // optimality of the least-squares line is checked through the normal equations below
        }
        else if (wid == "dense-table" && feature.is_sclass())
        {
            std::vector<double> tab;
            for (long c = 0; c < symsource_t::classes; ++c) tab.push_back(sym_real(sym_nm("htab", f, c)));
            for (tensor_size_t i = 0; i < m; ++i)
            {
                const long   l = flabel(f, i);
                const double g = -G(samples(i), 0, 0, 0), p = l < 0 ? 0.0 : tab[static_cast<size_t>(l)];
                rss            = rss + (g - p) * (g - p);
            }
        }
        else continue;
        SYM_LE_(score, clamp(rss), "score <= RSS of every hypothesis of the class (universally quantified parameters)");
    }

    // affine: the fitted line satisfies the normal equations of least squares over the samples with a given value
    // (for a convex quadratic objective this is equivalent to global optimality over all (w, b))
    if (wid == "affine")
    {
        double s0 = 0.0, s1 = 0.0;
        for (tensor_size_t i = 0; i < m; ++i)
        {
            bool         given;
            const double v = fvalue(sel, i, given);
            if (!given) continue;
            const double e = -G(samples(i), 0, 0, 0) - pred[static_cast<size_t>(i)];
            s0 = s0 + e;
            s1 = s1 + e * v;
        }
        SYM_EQ_(s0, 0.0, "affine: residuals of the fitted line sum to zero (normal equation for b)");
        SYM_EQ_(s1, 0.0, "affine: residuals of the fitted line are orthogonal to the feature (normal equation for w)");
        // and the selected feature is the best one: compare with the least-squares RSS of every other feature
        for (tensor_size_t f = 0; f < nfeat; ++f)
        {
            if (!ds.feature(f).is_scalar() || f == sel) continue;
            double x0 = 0.0, x1 = 0.0, x2 = 0.0, r1 = 0.0, rx = 0.0, r2 = 0.0, miss = 0.0;
            for (tensor_size_t i = 0; i < m; ++i)
            {
                bool         given;
                const double v = fvalue(f, i, given), g = -G(samples(i), 0, 0, 0);
                if (!given) miss = miss + g * g;
                else x0 = x0 + 1.0, x1 = x1 + v, x2 = x2 + v * v, r1 = r1 + g, rx = rx + g * v, r2 = r2 + g * g;
            }
            const double den = x2 * x0 - x1 * x1;
            if (den == 0.0) continue;
            const double w = (rx * x0 - r1 * x1) / den, b = (r1 * x2 - rx * x1) / den;
            const double rss = r2 + w * w * x2 + b * b * x0 - 2 * w * rx - 2 * b * r1 + 2 * w * b * x1 + miss;
            SYM_LE_(score, clamp(rss), "affine: score <= least-squares RSS of every other feature");
        }
    }

    // scale(s): multiplies the predictions (per group)
    {
        const auto groups = cl.groups();
        vector_t   s(wid == "affine" ? 1 : groups);
        for (tensor_size_t k = 0; k < s.size(); ++k) s(k) = sym_box(sym_nm("sc", k), 0.0, 4.0);
        auto w2 = wl->clone();
        w2->scale(s);
        tensor4d_t o2 = out0;
        w2->predict(ds, samples, o2.tensor());
        for (tensor_size_t i = 0; i < m; ++i)
        {
            const auto   grp = cl.group(samples(i));
            const double sk  = grp < 0 ? 1.0 : s(s.size() == 1 ? 0 : grp);
            SYM_EQ_(o2(i, 0, 0, 0) - out0(i, 0, 0, 0), sk * pred[static_cast<size_t>(i)], "scale(s) multiplies the predictions of each group by its factor");
        }
    }
}
