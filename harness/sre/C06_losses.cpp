// C06 (losses): for the registered loss `loss` with `k` outputs and a concrete +-1 / real target pattern
//   * vgrad is the derivative of value with respect to every output (generic points)
//   * value and error of a sample depend only on that sample (batch of 2 vs the samples evaluated alone)
//   * value >= 0 and error >= 0 (transcendental losses: only where decidable), 0-1 errors follow the sign / arg-max rule
// config: loss=<id>;k=<outputs>;pat=<target pattern id>;multi=<1: single-label losses get bit patterns too (any number of positive classes)>
#include "hcommon.h"
#include <nano/loss.h>
#include <nano/loss/class.h>
using namespace nano;
using namespace h;

extern "C" void sym_body()
{
    const std::string   lid = cfg("loss", "mse");
    const tensor_size_t k   = cfgi("k", 2);
    const long          pat = cfgi("pat", 0);
    const auto          loss = loss_t::all().get(lid);
    SYM_CHECK(static_cast<bool>(loss), "loss id registered");
    const bool classification = lid.rfind("s-", 0) == 0 || lid.rfind("m-", 0) == 0;
    const bool single_label   = lid.rfind("s-", 0) == 0;
    const bool one_positive   = single_label && cfgi("multi", 0) == 0; // multi=1: single-label losses on ANY class pattern (0, 2, ... positives)

    tensor4d_t targets(2, k, 1, 1), outputs(2, k, 1, 1);
    for (tensor_size_t s = 0; s < 2; ++s)
        for (tensor_size_t i = 0; i < k; ++i)
        {
            if (classification)
            {
                // sample 0: pattern `pat` (bit i set => positive), sample 1: the next pattern; single-label: one positive class
                const long p = one_positive ? ((pat + s) % k) : ((pat + s) % (1L << k));
                targets(s, i, 0, 0) = one_positive ? (i == p ? 1.0 : -1.0) : (((p >> i) & 1) ? 1.0 : -1.0);
            }
            else targets(s, i, 0, 0) = sym_box(sym_nm("t", s, i), -4.0, 4.0);
            outputs(s, i, 0, 0) = sym_box(sym_nm("o", s, i), -6.0, 6.0);
        }
    tensor1d_t values(2), errors(2);
    tensor4d_t vgrads(2, k, 1, 1);
    loss->value(targets, outputs, values);
    loss->error(targets, outputs, errors);
    loss->vgrad(targets, outputs, vgrads);

    // per-sample independence: evaluate each sample alone
    for (tensor_size_t s = 0; s < 2; ++s)
    {
        tensor1d_t v1(1), e1(1);
        tensor4d_t g1(1, k, 1, 1);
        loss->value(targets.slice(s, s + 1), outputs.slice(s, s + 1), v1);
        loss->error(targets.slice(s, s + 1), outputs.slice(s, s + 1), e1);
        loss->vgrad(targets.slice(s, s + 1), outputs.slice(s, s + 1), g1);
        SYM_EQ_(v1(0), values(s), "loss value of a sample depends only on that sample");
        SYM_EQ_(e1(0), errors(s), "error of a sample depends only on that sample");
        for (tensor_size_t i = 0; i < k; ++i) SYM_EQ_(g1(0, i, 0, 0), vgrads(s, i, 0, 0), "loss gradient of a sample depends only on that sample");
    }
    for (tensor_size_t s = 0; s < 2; ++s)
    {
        for (tensor_size_t i = 0; i < k; ++i)
        {
            if (sym_concrete())
            {
            const double h  = 1e-6;
            tensor4d_t   op = outputs, om = outputs;
            op(s, i, 0, 0) += h;
            om(s, i, 0, 0) -= h;
            tensor1d_t vp(2), vm(2);
            loss->value(targets, op, vp);
            loss->value(targets, om, vm);
            sym_close(vgrads(s, i, 0, 0), (vp(s) - vm(s)) / (2 * h), 1e-4, "loss gradient = derivative of the loss value (generic points)");
            }
            else sym_check_deriv(values(s), sym_nm("o", s, i).c_str(), vgrads(s, i, 0, 0), "loss gradient = derivative of the loss value (generic points)");
        }
        SYM_GE_(errors(s), 0.0, "error >= 0");
        if (sym_uf_count() == 0) SYM_GE_(values(s), 0.0, "loss value >= 0");
        if (classification)
        {
            // 0-1 error rule: multi-label: number of outputs whose sign disagrees with the target (t*o < eps);
            // single-label (k > 1): 1 iff the arg-max output is not the positive class
            if (!single_label)
            {
                double cnt = 0.0;
                for (tensor_size_t i = 0; i < k; ++i)
                    if (targets(s, i, 0, 0) * outputs(s, i, 0, 0) < std::numeric_limits<double>::epsilon()) cnt = cnt + 1.0;
                SYM_CHECK(errors(s) == cnt, "multi-label 0-1 error = number of outputs disagreeing in sign with the target");
            }
            else if (k > 1)
            {
                tensor_size_t imax = 0;
                for (tensor_size_t i = 1; i < k; ++i)
                    if (outputs(s, i, 0, 0) > outputs(s, imax, 0, 0)) imax = i;
                SYM_CHECK(errors(s) == (targets(s, imax, 0, 0) > 0.0 ? 0.0 : 1.0), "single-label 0-1 error = arg-max decision rule (first maximum on ties)");
            }
        }
    }
}
