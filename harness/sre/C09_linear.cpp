// C09 (linear objective): linear::function_t value and gradient equal the naive definition
//   mean_i loss(t_i, W x_i + b) + l1 * mean|W| + (l2/2) * mean(W^2)
// over the (scaled, missing -> 0) flattened samples, for symbolic data, parameters and regularisers; the value does not depend
// on the batch size or on caching.
// (sub=2: the iterator covers a strict subset of the dataset's samples)
// config: f=<feature kinds, last 'r' or 's' is the target>;n=<samples>;miss=<pattern>;loss=<mse|mae|m-hinge|m-squared-hinge|s-hinge>;
//         sc=<scaling 0..3>;batch=<b>;cache=<0|1>;reg=<0 none|1 l1|2 l2|3 both>
#include "hdata.h"
#include <nano/dataset/iterator.h>
#include <nano/linear/function.h>
#include <nano/loss.h>
using namespace nano;
using namespace h;

namespace
{
auto ab  = [](double v) { return v >= 0.0 ? v : -v; };
auto sgn = [](double v) { return v > 0.0 ? 1.0 : (v < 0.0 ? -1.0 : 0.0); };
auto pos = [](double v) { return v > 0.0 ? v : 0.0; };

double ref_value(const std::string& loss, const std::vector<double>& t, const std::vector<double>& o)
{
    double v = 0.0;
    for (size_t k = 0; k < t.size(); ++k)
    {
        if (loss == "mse") v = v + 0.5 * (o[k] - t[k]) * (o[k] - t[k]);
        else if (loss == "mae") v = v + ab(o[k] - t[k]);
        else if (loss == "m-hinge" || loss == "s-hinge") v = v + pos(1.0 - t[k] * o[k]);
        else v = v + pos(1.0 - t[k] * o[k]) * pos(1.0 - t[k] * o[k]);
    }
    return v;
}
double ref_grad(const std::string& loss, double t, double o)
{
    if (loss == "mse") return o - t;
    if (loss == "mae") return sgn(o - t);
    if (loss == "m-hinge" || loss == "s-hinge") return -t * (sgn(1.0 - t * o) + 1.0) * 0.5;
    return -2.0 * t * pos(1.0 - t * o);
}
} // namespace

extern "C" void sym_body()
{
    const std::string   kinds = cfg("f", "rrr");
    const tensor_size_t n     = cfgi("n", 3);
    const std::string   lid   = cfg("loss", "mse");
    const auto          sc    = static_cast<scaling_type>(cfgi("sc", 0));
    const long          reg   = cfgi("reg", 0);
    symsource_t         src(kinds, n, static_cast<long>(kinds.size()) - 1, static_cast<int>(cfgi("miss", 0)));
    src.load();
    // threads=<K>;sched=<0 rr|1 last|2 reversed|3 arbitrary>: sequentialised multi-worker pool (any assignment of chunks to workers)
    dataset_t ds(src, setup_workers(cfgi("threads", 1), cfgi("sched", 0), cfgi("arb", -1)));
    add_identity_generators(ds);
    auto samples = all_samples(n);
    if (cfgi("sub", 0) == 2 && n > 2)
    {
        // a STRICT subset (fewer samples than the dataset holds): the means and the statistics are over the iterator's samples
        samples.resize(2);
        samples(0) = 0;
        samples(1) = n - 1;
    }
    const auto m = samples.size();

    auto loss = loss_t::all().get(lid);
    SYM_CHECK(static_cast<bool>(loss), "loss id registered");
    flatten_iterator_t it(ds, samples);
    it.batch(cfgi("batch", 100));
    it.scaling(sc);
    if (cfgi("cache", 0))
    {
        it.cache_flatten(1 << 20);
        it.cache_targets(1 << 20);
    }
    const double l1 = (reg & 1) ? sym_pos("l1") : 0.0;
    const double l2 = (reg & 2) ? sym_pos("l2") : 0.0;
    linear::function_t fun(it, *loss, l1, l2);

    const auto isize = ds.columns();
    const auto tsize = ::nano::size(ds.target_dims());
    SYM_CHECK(fun.size() == (isize + 1) * tsize, "parameter vector = weights (tsize x isize) followed by the bias");
    vector_t x(fun.size());
    for (tensor_size_t i = 0; i < x.size(); ++i) x(i) = sym_real(sym_nm("w", i));
    auto W = [&](tensor_size_t o, tensor_size_t c) { return x(o * isize + c); };
    auto B = [&](tensor_size_t o) { return x(isize * tsize + o); };

    // naive reference over scaled, missing -> 0 rows
    tensor2d_t fbuf;
    tensor4d_t tbuf;
    tensor2d_t flat = ds.flatten(samples, fbuf);
    tensor4d_t targ = ds.targets(samples, tbuf);
    it.flatten_stats().scale(sc, flat.tensor());
    it.targets_stats().scale(sc, targ.tensor());

    double              value = 0.0;
    std::vector<double> gW(static_cast<size_t>(isize * tsize), 0.0), gB(static_cast<size_t>(tsize), 0.0);
    for (tensor_size_t s = 0; s < m; ++s)
    {
        std::vector<double> t, o;
        for (tensor_size_t k = 0; k < tsize; ++k)
        {
            double out = B(k);
            for (tensor_size_t c = 0; c < isize; ++c) out = out + W(k, c) * flat(s, c);
            o.push_back(out);
            t.push_back(targ(s, k, 0, 0));
        }
        value = value + ref_value(lid, t, o);
        for (tensor_size_t k = 0; k < tsize; ++k)
        {
            const double g = ref_grad(lid, t[static_cast<size_t>(k)], o[static_cast<size_t>(k)]);
            gB[static_cast<size_t>(k)] = gB[static_cast<size_t>(k)] + g;
            for (tensor_size_t c = 0; c < isize; ++c) gW[static_cast<size_t>(k * isize + c)] = gW[static_cast<size_t>(k * isize + c)] + g * flat(s, c);
        }
    }
    const double dn = static_cast<double>(m), dw = static_cast<double>(isize * tsize);
    value           = value / dn;
    double l1sum = 0.0, l2sum = 0.0;
    for (tensor_size_t k = 0; k < tsize; ++k)
        for (tensor_size_t c = 0; c < isize; ++c)
        {
            l1sum = l1sum + ab(W(k, c));
            l2sum = l2sum + W(k, c) * W(k, c);
        }
    value = value + l1 * l1sum / dw + 0.5 * l2 * l2sum / dw;

    vector_t     g(fun.size());
    const double v1 = fun.vgrad(x, g);
    const double v0 = fun.vgrad(x);
    SYM_EQ_(v1, value, "linear objective = mean loss + l1*mean|W| + (l2/2)*mean(W^2) over the scaled, missing->0 samples");
    SYM_EQ_(v0, v1, "value-only call = value+gradient call");
    for (tensor_size_t k = 0; k < tsize; ++k)
    {
        SYM_EQ_(g(isize * tsize + k), gB[static_cast<size_t>(k)] / dn, "bias gradient = mean loss gradient");
        for (tensor_size_t c = 0; c < isize; ++c)
        {
            double e = gW[static_cast<size_t>(k * isize + c)] / dn + l1 * sgn(W(k, c)) / dw + l2 * W(k, c) / dw;
            SYM_EQ_(g(k * isize + c), e, "weight gradient = mean loss gradient * input + regularisation terms");
        }
    }
    // batch-size independence: re-evaluate with batch 1 (standard scaling: sqrt terms make the identity query too slow)
    if (sc == scaling_type::standard) return;
    flatten_iterator_t it1(ds, samples);
    it1.batch(1);
    it1.scaling(sc);
    linear::function_t fun1(it1, *loss, l1, l2);
    SYM_EQ_(fun1.vgrad(x), v1, "objective does not depend on the batch size");
    sym_note(("drains=" + std::to_string(h::g_drains) + " tasks=" + std::to_string(h::g_tasks_run)).c_str());
}
