// C08 (views on symbolic cells): through the real datasource -> dataset -> generator stack, for a data source mixing scalar and
// structured float64 features with SYMBOLIC cells, categorical and uint8 features with concrete values, concrete missing
// patterns and a sample list with repetitions in arbitrary order:
//   * the per-feature view (select) returns exactly the stored cells (handle identity) / labels, NaN / -1 where missing
//   * the flattened view of every feature is the documented encoding of the same cells (scalar: value; sclass: C-1 columns
//     of -1 with +1 at the label; mclass: 2*hit-1; struct: row-major), columns map back to their feature
//   * targets equal the stored target; drop(f) makes exactly f missing, shuffle(f) permutes exactly f by shuffled(f),
//     undrop/unshuffle restore the original views
// config: f=<kinds incl. target as last>;n=<samples>;miss=<pattern>;cls=<class count of 's' features>;order=<0 id|1 reversed+repeat>
#include "hdata.h"
using namespace nano;
using namespace h;

namespace
{
bool isnan_(double v) { return v != v; }
struct view_t
{
    tensor2d_t flat;
    std::vector<std::vector<double>> scal; // per dataset feature: select values (scalar/struct flattened), or labels as doubles
};
} // namespace

extern "C" void sym_body()
{
    const std::string   kinds = cfg("f", "rsmr");
    const tensor_size_t n     = cfgi("n", 3);
    symsource_t::classes      = cfgi("cls", 3);
    const long          tgt   = static_cast<long>(kinds.size()) - 1;
    symsource_t         src(kinds, n, tgt, static_cast<int>(cfgi("miss", 1)));
    src.load();
    dataset_t ds(src, setup_workers(cfgi("threads", 1), cfgi("sched", 0))); // threads>1: sequentialised multi-worker pool (see sre_support.cpp)
    add_identity_generators(ds);

    indices_t samples = all_samples(n);
    if (cfgi("order", 1))
    {
        samples.resize(n + 1);
        for (tensor_size_t i = 0; i < n; ++i) samples(i) = n - 1 - i;
        samples(n) = n - 1;
    }
    const auto m = samples.size();

    // map dataset features back to storage features by name ("f<k>")
    auto storage_of = [&](tensor_size_t i) { return static_cast<size_t>(std::atol(ds.feature(i).name().c_str() + 1)); };
    SYM_CHECK(ds.features() == static_cast<tensor_size_t>(kinds.size()) - 1, "one dataset feature per input feature");

    auto check_views = [&](const indices_t& expect_rows_of_feature_shuffled, tensor_size_t shuffled_feature, tensor_size_t dropped_feature, const char* when)
    {
        tensor2d_t fbuf;
        const auto flat = ds.flatten(samples, fbuf);
        SYM_CHECK(flat.size<0>() == m && flat.size<1>() == ds.columns(), "flatten has one row per requested sample and columns() columns");
        tensor_size_t col = 0;
        // column blocks follow the dataset feature order
        for (tensor_size_t i = 0; i < ds.features(); ++i)
        {
            const auto  k    = storage_of(i);
            const auto  feat = ds.feature(i);
            const char  kind = kinds[k];
            const auto  cols = kind == 'r' || kind == 'u' ? 1 : kind == 'S' ? 4 : kind == 's' ? symsource_t::classes - 1 : 3;
            for (tensor_size_t c = 0; c < cols; ++c) SYM_CHECK(ds.column2feature(col + c) == i, "column -> feature map is consistent with the column blocks");
            for (tensor_size_t r = 0; r < m; ++r)
            {
                const auto s       = (i == shuffled_feature) ? expect_rows_of_feature_shuffled(r) : samples(r);
                const bool given   = src.given(s, k) && i != dropped_feature;
                const auto su      = static_cast<size_t>(s);
                const std::string w = std::string(when);
                if (kind == 'r')
                {
                    scalar_mem_t buf;
                    const auto   v = ds.select(samples, i, buf);
                    if (given)
                    {
                        SYM_CHECK(sym_same(v(r), src.V[su][k][0]), ("select(scalar) returns the stored cell " + w).c_str());
                        SYM_CHECK(sym_same(flat(r, col), src.V[su][k][0]), ("flatten(scalar) column holds the stored cell " + w).c_str());
                    }
                    else SYM_CHECK(isnan_(v(r)) && isnan_(flat(r, col)), ("missing scalar is NaN in both views " + w).c_str());
                }
                else if (kind == 'u')
                {
                    scalar_mem_t buf;
                    const auto   v = ds.select(samples, i, buf);
                    if (given) SYM_CHECK(v(r) == static_cast<double>(src.L[su][k]) && flat(r, col) == static_cast<double>(src.L[su][k]), ("uint8 scalar views equal the stored value " + w).c_str());
                    else SYM_CHECK(isnan_(v(r)) && isnan_(flat(r, col)), ("missing uint8 scalar is NaN in both views " + w).c_str());
                }
                else if (kind == 'S')
                {
                    struct_mem_t buf;
                    const auto   v = ds.select(samples, i, buf);
                    for (tensor_size_t c = 0; c < 4; ++c)
                    {
                        if (given) SYM_CHECK(sym_same(v.tensor(r)(c), src.V[su][k][static_cast<size_t>(c)]) && sym_same(flat(r, col + c), src.V[su][k][static_cast<size_t>(c)]),
                                             ("structured feature: select and row-major flatten hold the stored cells " + w).c_str());
                        else SYM_CHECK(isnan_(v.tensor(r)(c)) && isnan_(flat(r, col + c)), ("missing structured feature is NaN in both views " + w).c_str());
                    }
                }
                else if (kind == 's')
                {
                    sclass_mem_t buf;
                    const auto   v = ds.select(samples, i, buf);
                    if (given)
                    {
                        const auto lab = src.L[su][k];
                        SYM_CHECK(v(r) == lab, ("select(sclass) returns the stored label " + w).c_str());
                        bool ok = true;
                        for (tensor_size_t c = 0; c < cols; ++c) ok = ok && flat(r, col + c) == (c == lab ? 1.0 : -1.0);
                        SYM_CHECK(ok, ("flatten(sclass) is the +-1 one-hot encoding with C-1 columns " + w).c_str());
                    }
                    else
                    {
                        bool ok = v(r) == -1;
                        for (tensor_size_t c = 0; c < cols; ++c) ok = ok && isnan_(flat(r, col + c));
                        SYM_CHECK(ok, ("missing sclass is -1 / NaN " + w).c_str());
                    }
                }
                else
                {
                    mclass_mem_t buf;
                    const auto   v = ds.select(samples, i, buf);
                    bool         ok = true;
                    for (tensor_size_t c = 0; c < 3; ++c)
                    {
                        const int hit = (src.L[su][k] >> c) & 1;
                        if (given) ok = ok && v(r, c) == hit && flat(r, col + c) == 2.0 * hit - 1.0;
                        else ok = ok && v(r, c) == -1 && isnan_(flat(r, col + c));
                    }
                    SYM_CHECK(ok, ("mclass: select = hits, flatten = 2*hit-1 (missing: -1 / NaN) " + w).c_str());
                }
            }
            col += cols;
        }
        SYM_CHECK(col == ds.columns(), "column blocks add up to columns()");
        // targets
        tensor4d_t tbuf;
        const auto targ = ds.targets(samples, tbuf);
        for (tensor_size_t r = 0; r < m; ++r)
            SYM_CHECK(sym_same(targ(r, 0, 0, 0), src.V[static_cast<size_t>(samples(r))][static_cast<size_t>(tgt)][0]), "targets equal the stored target cells");
    };

    check_views(samples, -1, -1, "(original)");
    const tensor_size_t f0 = cfgi("df", 0);
    ds.drop(f0);
    check_views(samples, -1, f0, "(after drop)");
    ds.undrop();
    check_views(samples, -1, -1, "(after undrop)");
    ds.shuffle(f0);
    const auto sh = ds.shuffled(f0, samples);
    // reported bijection: a permutation of all samples
    {
        const auto       all = ds.shuffled(f0, all_samples(n));
        std::vector<int> seen(static_cast<size_t>(n), 0);
        bool             ok = all.size() == n;
        for (tensor_size_t i = 0; ok && i < n; ++i)
        {
            ok = all(i) >= 0 && all(i) < n && !seen[static_cast<size_t>(all(i))];
            if (ok) seen[static_cast<size_t>(all(i))] = 1;
        }
        SYM_CHECK(ok, "shuffled(feature) is a bijection of the samples");
    }
    check_views(sh, f0, -1, "(after shuffle)");
    // multi-step sequences on the same feature: drop while shuffled, undo in both orders, shuffle while dropped
    ds.drop(f0);
    check_views(samples, -1, f0, "(drop of a shuffled feature)");
    ds.undrop();
    ds.unshuffle();
    check_views(samples, -1, -1, "(after undrop + unshuffle)");
    ds.drop(f0);
    ds.shuffle(f0);
    ds.unshuffle();
    ds.undrop();
    check_views(samples, -1, -1, "(after drop, shuffle, unshuffle, undrop)");
}
