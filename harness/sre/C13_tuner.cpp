// C13: both tuners only evaluate grid points, never twice, at most max_evals + 3^d of them, reject non-finite values,
// and return all evaluations sorted by value with the first being the minimum observed - for EVERY landscape.
// config: tuner=<local-search|surrogate>;g=<values per grid, comma separated>;log=<0|1>;evals=<max_evals>;
//         land=<free|corner|center|edge|plateau>;nan=<index of the evaluation returning NaN, -1 none>
// land=free: every callback value is an unconstrained fresh symbol (all orderings explored by forking)
// other:     values are symbolic but their ORDER is fixed by a rank function (distance to the chosen argmin point;
//            plateau: equal ranks are equal values), so a single path covers all landscapes of that shape
#include "horacle.h"
#include <map>
#include <nano/solver.h>
#include <nano/tuner.h>
using namespace nano;
using namespace h;

namespace
{
int g_min_calls = 0;
}
#ifdef ORACLE_MINIMIZE
// inner solver = arbitrary point oracle: the surrogate fit / surrogate optimum can be anything
solver_state_t solver_t::minimize(const function_t& function, const vector_t& x0, const logger_t&) const
{
    vector_t x(x0.size());
    for (tensor_size_t i = 0; i < x.size(); ++i) x(i) = sym_box(sym_nm("opt", g_min_calls, i), -0.5, 1.5);
    ++g_min_calls;
    return solver_state_t{function, x};
}
#endif

extern "C" void sym_body()
{
    g_min_calls = 0;
    const std::string tid   = cfg("tuner", "local-search");
    const auto        gs    = cfglist("g");
    const long        evals = cfgi("evals", 10);
    const std::string land  = cfg("land", "free");
    const long        nanat = cfgi("nan", -1);
    const auto        d     = static_cast<tensor_size_t>(gs.size());

    param_spaces_t spaces;
    for (tensor_size_t i = 0; i < d; ++i)
    {
        tensor1d_t vals(gs[static_cast<size_t>(i)]);
        for (tensor_size_t k = 0; k < vals.size(); ++k) vals(k) = cfgi("log", 0) ? std::pow(10.0, static_cast<double>(k - 2)) : 0.5 * static_cast<double>(k) + 1.0;
        spaces.emplace_back(sym_nm("p", i), cfgi("log", 0) ? param_space_t::type::log10 : param_space_t::type::linear, vals);
    }
    auto tuner = tuner_t::all().get(tid);
    SYM_CHECK(static_cast<bool>(tuner), "tuner id registered");
    tuner->parameter("tuner::max_evals") = evals;

    // recorder
    std::map<std::vector<long>, double> seen; // grid index tuple -> value handed out
    std::vector<double>                 all_values;
    long                                calls = 0, points = 0;
    bool                                on_grid = true, twice = false;
    std::vector<long>                   argmin(static_cast<size_t>(d), 0);
    if (land == "center") for (tensor_size_t i = 0; i < d; ++i) argmin[static_cast<size_t>(i)] = gs[static_cast<size_t>(i)] / 2;
    if (land == "edge") argmin[0] = gs[0] - 1;
    auto rank = [&](const std::vector<long>& p)
    {
        long r = 0;
        for (size_t i = 0; i < p.size(); ++i) r += (p[i] > argmin[i] ? p[i] - argmin[i] : argmin[i] - p[i]) * (land == "plateau" ? 1 : static_cast<long>(i + 1));
        return land == "plateau" ? r / 2 : r;
    };

    const tuner_callback_t callback = [&](const tensor2d_t& params)
    {
        ++calls;
        tensor1d_t out(params.size<0>());
        for (tensor_size_t t = 0; t < params.size<0>(); ++t)
        {
            std::vector<long> idx;
            for (tensor_size_t i = 0; i < d; ++i)
            {
                long        found = -1;
                const auto& vals  = spaces[static_cast<size_t>(i)].values();
                for (tensor_size_t k = 0; k < vals.size(); ++k)
                    if (vals(k) == params(t, i)) found = k;
                if (found < 0) on_grid = false;
                idx.push_back(found);
            }
            if (seen.count(idx)) twice = true;
            double v = 0.0;
            if (points == nanat) v = std::numeric_limits<double>::quiet_NaN();
            else
            {
                std::string name = "v";
                for (const auto k : idx) name += "_" + std::to_string(k);
                v = sym_box(name, -100.0, 100.0);
                if (land != "free")
                    for (const auto& [q, vq] : seen)
                    {
                        if (vq != vq) continue;
                        const long rp = rank(idx), rq = rank(q);
                        sym_assume_cmp(v, rp < rq ? SYM_LT : (rp > rq ? SYM_GT : (land == "plateau" ? SYM_EQ : (idx < q ? SYM_LT : SYM_GT))), vq);
                    }
            }
            seen[idx] = v;
            all_values.push_back(v);
            out(t) = v;
            ++points;
        }
        return out;
    };

    bool          thrown = false;
    tuner_steps_t steps;
    try
    {
        steps = tuner->optimize(spaces, callback, make_null_logger());
    }
    catch (const std::exception&)
    {
        thrown = true;
    }
    long bound = evals;
    {
        long p3 = 1;
        for (tensor_size_t i = 0; i < d; ++i) p3 *= 3;
        bound += p3;
    }
    SYM_CHECK(on_grid, "every evaluated point is a point of the given grids");
    SYM_CHECK(!twice, "no grid point is evaluated twice");
    SYM_CHECK(points <= bound, "at most max_evals + 3^d points are evaluated");
    if (nanat >= 0 && points > nanat)
    {
        SYM_CHECK(thrown, "a non-finite evaluation is rejected with an exception");
        return;
    }
    SYM_CHECK(!thrown, "finite evaluations: no exception");
    if (thrown) return;
    SYM_CHECK(static_cast<long>(steps.size()) == points, "all evaluations are returned");
    for (size_t i = 0; i + 1 < steps.size(); ++i) SYM_LE_X(steps[i].m_value, steps[i + 1].m_value, "returned steps are sorted by value");
    for (const auto v : all_values) SYM_LE_X(steps[0].m_value, v, "first step is the minimum of all observed values");
    for (const auto& s : steps)
    {
        std::vector<long> idx;
        bool              ok = s.m_igrid.size() == d && s.m_param.size() == d;
        for (tensor_size_t i = 0; ok && i < d; ++i)
        {
            idx.push_back(s.m_igrid(i));
            ok = s.m_igrid(i) >= 0 && s.m_igrid(i) < spaces[static_cast<size_t>(i)].values().size() &&
                 s.m_param(i) == spaces[static_cast<size_t>(i)].values()(s.m_igrid(i));
        }
        SYM_CHECK(ok, "each step's parameters are the grid values at its grid indices");
        SYM_CHECK(ok && seen.count(idx) && sym_same(seen[idx], s.m_value), "each step carries the value the callback returned for that grid point");
    }
}
