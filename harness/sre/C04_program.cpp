// C04: primal-dual interior-point solver - `converged` means feasible (and stationary) for the CALLER's program.
// The translation unit src/program/solver.cpp is compiled into this harness (#include) so that its private program_t
// (reduction + normalisation of the caller's program) and solver_t::done can be driven directly; the library's own object
// of that TU is left out of the link. No source of /repo is modified.
// config: mode=<x0|done|eq>;n=<vars>;m=<inequalities>;p=<equalities>;lp=<0 QP|1 LP>;dup=<1: second equality row = multiple of the first>
#include "hcommon.h"
#include <program/solver.cpp> // resolved through -I<repo>/src (the TU is compiled into the harness to reach its private program_t)
using namespace nano;
using namespace nano::program;
using namespace h;

namespace
{
double ab(double v) { return v >= 0.0 ? v : -v; }
double maxabs(const vector_t& v)
{
    double m = 0.0;
    for (tensor_size_t i = 0; i < v.size(); ++i) m = ab(v(i)) > m ? ab(v(i)) : m;
    return m;
}
} // namespace

extern "C" void sym_body()
{
    const std::string   mode = cfg("mode", "x0");
    const tensor_size_t n = cfgi("n", 2), m = cfgi("m", 2), p = cfgi("p", 0);
    const bool          lp = cfgi("lp", 0) != 0;
    const double        R  = 8.0;

    matrix_t Q = lp ? matrix_t{} : matrix_t(n, n);
    if (!lp && cfgi("qd", 0))
    {
        // diagonal positive semi-definite Q (fewer symbols)
        for (tensor_size_t i = 0; i < n; ++i)
            for (tensor_size_t j = 0; j < n; ++j) Q(i, j) = i == j ? sym_box(sym_nm("q", i), 0.0, R) : 0.0;
    }
    else if (!lp)
    {
        matrix_t D(n, n);
        for (tensor_size_t i = 0; i < n; ++i)
            for (tensor_size_t j = 0; j < n; ++j) D(i, j) = sym_box(sym_nm("D", i, j), -R, R);
        for (tensor_size_t i = 0; i < n; ++i)
            for (tensor_size_t j = 0; j < n; ++j)
            {
                double s = 0.0;
                for (tensor_size_t k = 0; k < n; ++k) s = s + D(k, i) * D(k, j);
                Q(i, j) = s;
            }
    }
    vector_t c = sym_vector_in("c", n, -R, R);
    matrix_t A(p, n), G(m, n);
    vector_t b(p), hh(m);
    for (tensor_size_t i = 0; i < p; ++i)
    {
        b(i) = sym_box(sym_nm("b", i), -R, R);
        for (tensor_size_t j = 0; j < n; ++j) A(i, j) = sym_box(sym_nm("A", i, j), -R, R);
    }
    if (p == 2 && cfgi("dup", 0))
    {
        const double k = sym_box("dupk", -4.0, 4.0);
        for (tensor_size_t j = 0; j < n; ++j) A(1, j) = k * A(0, j);
        b(1) = cfgi("dup", 0) == 1 ? k * b(0) : sym_box("b1x", -R, R); // dup=2: possibly inconsistent duplicate
    }
    for (tensor_size_t i = 0; i < m; ++i)
    {
        hh(i) = sym_box(sym_nm("h", i), -R, R);
        for (tensor_size_t j = 0; j < n; ++j) G(i, j) = sym_box(sym_nm("G", i, j), -R, R);
    }
    const matrix_t A0 = A, G0 = G;
    const vector_t b0 = b, h0 = hh;

    if (mode == "x0")
    {
        // a start that is not strictly feasible is rejected: status unfeasible, no iteration, x untouched
        const vector_t x0 = sym_vector_in("x", n, -R, R);
        double         worst = 0.0;
        bool           some  = false;
        for (tensor_size_t i = 0; i < m; ++i)
        {
            double s = -h0(i);
            for (tensor_size_t j = 0; j < n; ++j) s = s + G0(i, j) * x0(j);
            if (!some || s > worst) worst = s, some = true;
        }
        solver_t solver;
        program::solver_state_t st;
        if (lp)
        {
            auto prog = make_linear(c, make_inequality(G, hh));
            st        = solver.solve(prog, x0, make_null_logger());
        }
        else
        {
            auto prog = make_quadratic(Q, c, make_inequality(G, hh));
            st        = solver.solve(prog, x0, make_null_logger());
        }
        if (worst >= 0.0)
        {
            SYM_CHECK(st.m_status == solver_status::unfeasible, "start with max(Gx0-h) >= 0 is rejected as unfeasible (never converged)");
            SYM_CHECK(st.m_iters == 0, "rejected start: no iteration performed");
            bool same = true;
            for (tensor_size_t j = 0; j < n; ++j) same = same && sym_same(st.m_x(j), x0(j));
            SYM_CHECK(same, "rejected start: x untouched");
        }
        return;
    }

    if (mode == "done")
    {
        // status decision for an arbitrary state (x, u, v) with the reachable-state invariants of the interior-point
        // iteration (G x < h strictly, u > 0): `converged` => caller's constraints hold within the advertised tolerances and
        // the reported objective is the caller's objective at x; not feasible (normalised program) => not converged
        solver_t::program_t P(Q, c, A, b, G, hh);
        program::solver_state_t st(n, P.m(), P.p());
        st.m_x = sym_vector_in("x", n, -R, R);
        st.m_u = vector_t(P.m());
        st.m_v = vector_t(P.p());
        for (tensor_size_t i = 0; i < P.m(); ++i) st.m_u(i) = sym_box(sym_nm("u", i), 0.0, 100.0);
        for (tensor_size_t i = 0; i < P.p(); ++i) st.m_v(i) = sym_box(sym_nm("v", i), -100.0, 100.0);
        for (tensor_size_t i = 0; i < m; ++i)
        {
            double s = -h0(i);
            for (tensor_size_t j = 0; j < n; ++j) s = s + G0(i, j) * st.m_x(j);
            sym_assume_cmp(s, SYM_LT, 0.0);
        }
        P.update(st.m_x, st.m_u, st.m_v, 10.0, st);
        st.update(P.m_Q, P.m_c, P.m_A, P.m_b, P.m_G, P.m_h);
        const bool feasible = P.feasible(st);
        solver_t::done(P, st, 1e-10, make_null_logger());
        SYM_CHECK(feasible || st.m_status != solver_status::converged, "not feasible for the normalised program => never converged");
        if (st.m_status != solver_status::converged) return;
        // caller's objective
        double f = 0.0;
        for (tensor_size_t i = 0; i < n; ++i)
        {
            f = f + c(i) * st.m_x(i);
            if (!lp)
                for (tensor_size_t j = 0; j < n; ++j) f = f + 0.5 * st.m_x(i) * Q(i, j) * st.m_x(j);
        }
        SYM_EQ_(st.m_fx, f, "converged: reported objective = caller's objective at x (normalisation undone)");
        const double tolb = 1e-6 * (1.0 + maxabs(b0));
        for (tensor_size_t i = 0; i < p; ++i)
        {
            double s = -b0(i);
            for (tensor_size_t j = 0; j < n; ++j) s = s + A0(i, j) * st.m_x(j);
            SYM_LE_(ab(s), tolb, "converged: every caller equality holds within 1e-6*(1+|b|inf)");
        }
        return;
    }

    if (mode == "gap")
    {
        // optimality: the program is built around a known optimum (x*, u*) by KKT construction (symbolic active set), the state
        // (x, u) is arbitrary with the reachable-state invariants (G x < h, u > 0); `converged` => the caller's objective at x is
        // within 1e-8 * M * (1 + |x-x*|_2 + |u|_1) of the true optimum, M = max(1e-3, |Q|_F, |c|_2)
        const vector_t xs = sym_vector_in("xs", n, -R, R);
        vector_t       us(m);
        for (tensor_size_t i = 0; i < m; ++i)
        {
            const int active = sym_choose(sym_nm("act", i).c_str(), 2);
            double    gx = 0.0;
            for (tensor_size_t j = 0; j < n; ++j) gx = gx + G(i, j) * xs(j);
            if (active)
            {
                us(i) = sym_box(sym_nm("us", i), 0.0, 10.0);
                hh(i) = gx;
            }
            else
            {
                us(i) = 0.0;
                hh(i) = gx + sym_real_in(sym_nm("slack", i).c_str(), 0.0, 10.0, 1);
            }
        }
        for (tensor_size_t j = 0; j < n; ++j)
        {
            double cj = 0.0;
            for (tensor_size_t i = 0; i < m; ++i) cj = cj - G(i, j) * us(i);
            if (!lp)
                for (tensor_size_t k = 0; k < n; ++k) cj = cj - Q(j, k) * xs(k);
            c(j) = cj;
        }
        const matrix_t Gc = G;
        const vector_t hc = hh, cc = c;
        solver_t::program_t P(Q, c, A, b, G, hh);
        program::solver_state_t st(n, P.m(), P.p());
        st.m_x = sym_vector_in("x", n, -R, R);
        st.m_u = vector_t(P.m());
        st.m_v = vector_t(P.p());
        for (tensor_size_t i = 0; i < P.m(); ++i) st.m_u(i) = sym_box(sym_nm("u", i), 0.0, 100.0);
        for (tensor_size_t i = 0; i < m; ++i)
        {
            double s = -hc(i);
            for (tensor_size_t j = 0; j < n; ++j) s = s + Gc(i, j) * st.m_x(j);
            sym_assume_cmp(s, SYM_LT, 0.0);
        }
        P.update(st.m_x, st.m_u, st.m_v, 10.0, st);
        st.update(P.m_Q, P.m_c, P.m_A, P.m_b, P.m_G, P.m_h);
        solver_t::done(P, st, 1e-10, make_null_logger());
        if (st.m_status != solver_status::converged) return;
        auto fval = [&](const vector_t& z)
        {
            double f = 0.0;
            for (tensor_size_t i = 0; i < n; ++i)
            {
                f = f + cc(i) * z(i);
                if (!lp)
                    for (tensor_size_t j = 0; j < n; ++j) f = f + 0.5 * z(i) * Q(i, j) * z(j);
            }
            return f;
        };
        double dx2 = 0.0, u1 = 0.0, c2 = 0.0, q2 = 0.0;
        for (tensor_size_t i = 0; i < n; ++i)
        {
            dx2 = dx2 + (st.m_x(i) - xs(i)) * (st.m_x(i) - xs(i));
            c2  = c2 + cc(i) * cc(i);
            if (!lp)
                for (tensor_size_t j = 0; j < n; ++j) q2 = q2 + Q(i, j) * Q(i, j);
        }
        for (tensor_size_t i = 0; i < P.m(); ++i) u1 = u1 + ab(st.m_u(i));
        const double nc = std::sqrt(c2), nq = lp ? 0.0 : std::sqrt(q2);
        double       M  = 1e-3;
        M               = nc > M ? nc : M;
        M               = nq > M ? nq : M;
        SYM_LE_(fval(st.m_x) - fval(xs), 1e-8 * M * (1.0 + std::sqrt(dx2) + u1), "converged: objective within 1e-8*M*(1+|x-x*|+|u|_1) of the true optimum (KKT-constructed program)");
        return;
    }

    // mode == eq: equality-constrained program solved end-to-end through the public API
    {
        solver_t solver;
        program::solver_state_t st;
        if (lp)
        {
            auto prog = make_linear(c, make_equality(A, b));
            st        = solver.solve(prog, make_null_logger());
        }
        else
        {
            auto prog = make_quadratic(Q, c, make_equality(A, b));
            st        = solver.solve(prog, make_null_logger());
        }
        if (st.m_status != solver_status::converged) return;
        const double tolb = 1e-6 * (1.0 + maxabs(b0));
        for (tensor_size_t i = 0; i < p; ++i)
        {
            double s = -b0(i);
            for (tensor_size_t j = 0; j < n; ++j) s = s + A0(i, j) * st.m_x(j);
            SYM_LE_(ab(s), tolb, "equality-only program converged: every caller equality holds within 1e-6*(1+|b|inf)");
        }
        double f = 0.0;
        for (tensor_size_t i = 0; i < n; ++i)
        {
            f = f + c(i) * st.m_x(i);
            if (!lp)
                for (tensor_size_t j = 0; j < n; ++j) f = f + 0.5 * st.m_x(i) * Q(i, j) * st.m_x(j);
        }
        SYM_EQ_(st.m_fx, f, "equality-only program converged: reported objective = caller's objective at x");
    }
}
