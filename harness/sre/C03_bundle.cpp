// C03: (a) bundle_t keeps valid cutting planes: after ANY sequence of serious steps (moveto), null steps (append),
//      aggregation / deletion and multiplier updates (solve), every stored plane i satisfies
//          f(z) >= f(x^) + s_i.(z - x^) - e_i   for all z,   e_i >= 0      (x^ = proximal centre)
//      and the stopping tests certify eps-optimality:  econverged && sconverged  =>  f(x^) - f(z) <= eps*sqrt(n)*(1+|z-x^|)
//      (b) ellipsoid method on a sharp convex function with the minimiser inside the initial radius: `converged`
//      => f(x_ret) - f* <= 10*eps; and a run that reports max_iters has exhausted its budget
// config: mode=<bundle|ellipsoid|bsolver>;solver=<rqb|fpba1|fpba2>;bsize=<bundle max_size>;evals=<max_evals>;d=<1|2>;ops=<k>;pat=<bits: 1 = serious step>;
#include "hcommon.h"
#include <nano/solver.h>
#include <nano/solver/bundle.h>
using namespace nano;
using namespace h;

namespace
{
double ab(double v) { return v >= 0.0 ? v : -v; }
// convex test function: sum_i a_i |z_i - b_i| + (q/2) |z - c|^2  with a_i >= amin, q >= 0 (symbolic)
struct cvx_t final : function_t
{
    vector_t a, b, c;
    double   q;
    mutable long calls{0};
    cvx_t(tensor_size_t n, double amin, bool with_q)
        : function_t("cvx", n), a(n), b(n), c(n), q(0.0)
    {
        for (tensor_size_t i = 0; i < n; ++i)
        {
            a(i) = cfgi("a1", 0) ? 1.0 : sym_box(sym_nm("a", i), amin, 8.0); // a1=1: slopes fixed to 1 (f = sum |z_i - b_i|)
            b(i) = cfgi("zero", 0) ? 0.0 : sym_box(sym_nm("b", i), -4.0, 4.0); // zero=1: minimiser at the origin (tiny radii stay representable)
            c(i) = with_q ? sym_box(sym_nm("c", i), -4.0, 4.0) : 0.0;
        }
        if (with_q) q = sym_box("q", 0.0, 4.0);
        convex(convexity::yes);
        smooth(smoothness::no);
    }
    rfunction_t clone() const override { return std::make_unique<cvx_t>(*this); }
    double      value(const vector_t& z) const
    {
        double v = 0.0;
        for (tensor_size_t i = 0; i < z.size(); ++i) v = v + a(i) * ab(z(i) - b(i)) + 0.5 * q * (z(i) - c(i)) * (z(i) - c(i));
        return v;
    }
    scalar_t do_vgrad(vector_cmap_t z, vector_map_t gz) const override
    {
        ++calls;
        double v = 0.0;
        for (tensor_size_t i = 0; i < z.size(); ++i)
        {
            const double d = z(i) - b(i);
            v              = v + a(i) * ab(d) + 0.5 * q * (z(i) - c(i)) * (z(i) - c(i));
            if (gz.size() == z.size()) gz(i) = a(i) * (d > 0.0 ? 1.0 : (d < 0.0 ? -1.0 : 0.0)) + q * (z(i) - c(i));
        }
        return v;
    }
};

void check_planes(const bundle_t& bundle, const cvx_t& f, const char* when)
{
    const auto n = f.size();
    vector_t   z(n);
    static int probe = 0;
    for (tensor_size_t i = 0; i < n; ++i) z(i) = sym_box(sym_nm("z", probe, i), -8.0, 8.0);
    ++probe;
    const double fz = f.value(z);
    for (tensor_size_t k = 0; k < bundle.m_size; ++k)
    {
        double rhs = bundle.m_fx - bundle.m_bundleE(k);
        for (tensor_size_t i = 0; i < n; ++i) rhs = rhs + bundle.m_bundleS(k, i) * (z(i) - bundle.m_x(i));
        sym_check_cmp(fz, SYM_GE, rhs, (std::string("every stored plane is a lower bound of f ") + when).c_str());
        sym_check_cmp(bundle.m_bundleE(k), SYM_GE, 0.0, (std::string("linearisation errors are non-negative ") + when).c_str());
    }
    SYM_EQ_(bundle.m_fx, f.value(bundle.m_x), "proximal centre value is f at the proximal centre");
}
} // namespace

extern "C" void sym_body()
{
    const std::string   mode = cfg("mode", "bundle");
    const tensor_size_t n    = cfgi("d", 1);

    if (mode == "bundle")
    {
        cvx_t          f(n, 0.0, cfgi("q", 1) != 0);
        const vector_t x0 = sym_vector_in("x", n, -4.0, 4.0);
        solver_state_t state(f, x0);
        bundle_t       bundle(state, cfgi("max", 2));
        check_planes(bundle, f, "(initial)");
        const long ops = cfgi("ops", 2), pat = cfgi("pat", 1);
        const double miu = sym_box("miu", 0.01, 100.0);
        for (long k = 0; k < ops; ++k)
        {
            vector_t y(n), gy(n);
            for (tensor_size_t i = 0; i < n; ++i) y(i) = sym_box(sym_nm("y", k, i), -4.0, 4.0);
            const double fy = f.vgrad(y, gy);
            if ((pat >> k) & 1) bundle.moveto(y, gy, fy);
            else bundle.append(y, gy, fy);
            check_planes(bundle, f, (pat >> k) & 1 ? "(after a serious step)" : "(after a null step)");
            bundle.solve(miu, make_null_logger());
            // multipliers on the simplex
            double s = 0.0;
            for (tensor_size_t i = 0; i < bundle.m_size; ++i)
            {
                SYM_GE_(bundle.m_alphas(i), 0.0, "bundle multipliers are non-negative");
                s = s + bundle.m_alphas(i);
            }
            SYM_EQ_(s, 1.0, "bundle multipliers sum to one");
            // stopping tests certify eps-optimality
            const double eps = sym_box("eps", 1e-8, 1e-3);
            {
                // the stopping tests are the documented ones (csearch.h): smeared error <= eps*sqrt(n) and |smeared subgradient|_2 <=
                // eps*sqrt(n), with the smeared quantities recomputed here from the stored planes and multipliers. Together with
                // "every stored plane is a lower bound" and "multipliers on the simplex" this IS the certificate
                // f(x^) - f(z) <= e~ + |s~| |z - x^| <= eps*sqrt(n)*(1 + |z - x^|); the direct obligation below mostly exceeds nlsat
                const double tol0 = eps * std::sqrt(static_cast<double>(n));
                double       se   = 0.0, ss2 = 0.0;
                for (tensor_size_t i = 0; i < bundle.m_size; ++i) se = se + bundle.m_alphas(i) * bundle.m_bundleE(i);
                for (tensor_size_t c = 0; c < n; ++c)
                {
                    double sc = 0.0;
                    for (tensor_size_t i = 0; i < bundle.m_size; ++i) sc = sc + bundle.m_alphas(i) * bundle.m_bundleS(i, c);
                    ss2 = ss2 + sc * sc;
                }
                if (bundle.econverged(eps)) SYM_LE_(se, tol0, "econverged(eps) only if the smeared error <= eps*sqrt(n)");
                else SYM_GT_(se, tol0, "econverged(eps) whenever the smeared error <= eps*sqrt(n)");
                if (bundle.sconverged(eps)) SYM_LE_(ss2, tol0 * tol0, "sconverged(eps) only if |smeared subgradient|_2 <= eps*sqrt(n)");
                else SYM_GT_(ss2, tol0 * tol0, "sconverged(eps) whenever |smeared subgradient|_2 <= eps*sqrt(n)");
            }
            if (bundle.econverged(eps) && bundle.sconverged(eps))
            {
                vector_t z(n);
                double   d2 = 0.0;
                for (tensor_size_t i = 0; i < n; ++i)
                {
                    z(i) = sym_box(sym_nm("w", k, i), -8.0, 8.0);
                    d2   = d2 + (z(i) - bundle.m_x(i)) * (z(i) - bundle.m_x(i));
                }
                const double tol = eps * std::sqrt(static_cast<double>(n));
                const double dist = n == 1 ? ab(z(0) - bundle.m_x(0)) : std::sqrt(d2);
                SYM_LE_(bundle.m_fx - f.value(z), tol * (1.0 + dist), "econverged && sconverged => f(x^) - f(z) <= eps*sqrt(n)*(1+|z-x^|) for every z");
            }
        }
        return;
    }
    // bundle solvers (RQB, FPBA1, FPBA2) end to end on a sharp function, bundle::max_size = 2 (analytic multiplier update):
    // `converged` => f(x) - f* <= 2*eps*sqrt(n)*(1 + |x - x*|) at the RETURNED point
    if (mode == "bsolver")
    {
        cvx_t             f(n, 1.0, false);
        const std::string id     = cfg("solver", "rqb");
        auto              solver = solver_t::all().get(id);
        SYM_CHECK(static_cast<bool>(solver), "solver id registered");
        const double eps = cfgi("epsc", 0) ? 1e-6 : sym_box("eps", 1e-8, 1e-3);
        solver->parameter("solver::epsilon")   = eps;
        solver->parameter("solver::max_evals") = cfgi("evals", 10);
        solver->parameter("solver::" + id + "::bundle::max_size") = cfgi("bsize", 2);
        vector_t x0(n);
        for (tensor_size_t i = 0; i < n; ++i) x0(i) = sym_box(sym_nm("x", i), -8.0, 8.0);
        const auto state = solver->minimize(f, x0, make_null_logger());
        SYM_CHECK(state.status() == solver_status::converged || state.status() == solver_status::max_iters || state.status() == solver_status::failed, "status is one of converged/max_iters/failed");
        vector_t xr = state.x();
        SYM_EQ_(state.fx(), f.value(xr), "reported value = function value at the returned point");
        if (state.status() == solver_status::converged)
        {
            double d2 = 0.0;
            for (tensor_size_t i = 0; i < n; ++i) d2 = d2 + (xr(i) - f.b(i)) * (xr(i) - f.b(i));
            const double dist = std::sqrt(d2);
            SYM_LE_(f.value(xr), 2.0 * eps * std::sqrt(static_cast<double>(n)) * (1.0 + dist), "bundle solver converged => f(x) - f* <= 2*eps*sqrt(n)*(1+|x-x*|) at the returned point");
        }
        return;
    }
    // ellipsoid method on a sharp function (a_i >= 1), minimiser b inside the initial radius R of x0
    {
        cvx_t        f(n, 1.0, false);
        auto         solver = solver_t::all().get("ellipsoid");
        const double eps = sym_box("eps", 1e-8, 1e-3);
        const double R   = sym_box("R", 1e-20, 10.0);
        solver->parameter("solver::epsilon")      = eps;
        solver->parameter("solver::max_evals")    = cfgi("evals", 10);
        solver->parameter("solver::ellipsoid::R") = R;
        vector_t x0(n);
        double   d2 = 0.0;
        for (tensor_size_t i = 0; i < n; ++i)
        {
            x0(i) = sym_box(sym_nm("x", i), -8.0, 8.0);
            d2    = d2 + (x0(i) - f.b(i)) * (x0(i) - f.b(i));
        }
        sym_assume_cmp(d2, SYM_LE, R * R);
        const auto state = solver->minimize(f, x0, make_null_logger());
        if (state.status() == solver_status::converged)
        {
            vector_t xr = state.x();
            SYM_LE_(f.value(xr), 10.0 * eps, "ellipsoid converged => f(x) - f* <= 10*eps (f* = 0 at the sharp minimum)");
        }
        if (state.status() == solver_status::max_iters)
            SYM_CHECK(2 * f.calls >= cfgi("evals", 10), "status max_iters only when the evaluation budget is exhausted (otherwise converged is owed)");
    }
}
