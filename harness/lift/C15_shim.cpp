// C15 LIFT-C shim: content-hash kernel of the tensor stream format
#include <nano/core/hash.h>
#include <cstdint>
#define K extern "C" __attribute__((noinline))
K uint64_t k_hash_i64(const int64_t* d, long n) { return nano::detail::hash(d, n); }
K uint64_t k_hash_i32(const int32_t* d, long n) { return nano::detail::hash(d, n); }
K uint64_t k_hash_f64(const double* d, long n) { return nano::detail::hash(d, n); }
K uint64_t k_hash_f32(const float* d, long n) { return nano::detail::hash(d, n); }
K uint64_t k_hash_u8(const uint8_t* d, long n) { return nano::detail::hash(d, n); }
