/* C15 LIFT-C driver: the payload hash detects every alteration of the LAST element (hash_combine is a bijection in its
 * value argument); alterations of earlier elements can collide (known finding, witness replayed by h_collision_witness) */
#include "lift_drv.h"
#ifdef USE_GEN
#include "shim.c"
#else
#include "shim.h"
#endif
#define PTR(x) ((uint8_t*)(x))

void h_last_i64(void)
{
    IN_LONG_IN(n, 1, 3);
    IN_ARR_U64(a, 3);
    uint64_t b[3]; memcpy(b, a, sizeof a);
    IN_U64(alt);
    ASSUME(alt != a[n - 1]);
    b[n - 1] = alt;
    ASSERT(k_hash_i64(PTR(a), n) != k_hash_i64(PTR(b), n), "int64 payload: altering the last element changes the hash");
    ASSERT(k_hash_i64(PTR(a), 0) == 0, "hash of the empty payload is 0");
    WITNESS_END;
}
void h_last_f64(void)
{
    IN_LONG_IN(n, 1, 3);
    IN_ARR_U64(a, 3);
    uint64_t b[3]; memcpy(b, a, sizeof a);
    IN_U64(alt);
    ASSUME(alt != a[n - 1]);
    b[n - 1] = alt;
    ASSERT(k_hash_f64(PTR(a), n) != k_hash_f64(PTR(b), n), "float64 payload (as bits): altering the last element changes the hash");
    WITNESS_END;
}
void h_last_i32(void)
{
    IN_LONG_IN(n, 1, 3);
    int32_t a[3], b[3];
    for (int i = 0; i < 3; ++i) { IN_LONG_IN(v, -2147483647L - 1, 2147483647L); a[i] = (int32_t)v; b[i] = a[i]; }
    IN_LONG_IN(alt, -2147483647L - 1, 2147483647L);
    ASSUME((int32_t)alt != a[n - 1]);
    b[n - 1] = (int32_t)alt;
    ASSERT(k_hash_i32(PTR(a), n) != k_hash_i32(PTR(b), n), "int32 payload: altering the last element changes the hash");
    WITNESS_END;
}
void h_last_u8(void)
{
    IN_LONG_IN(n, 1, 4);
    IN_ARR_U8(a, 4);
    uint8_t b[4]; memcpy(b, a, 4);
    IN_U8(alt);
    ASSUME(alt != a[n - 1]);
    b[n - 1] = alt;
    ASSERT(k_hash_u8(PTR(a), n) != k_hash_u8(PTR(b), n), "uint8 payload: altering the last byte changes the hash");
    WITNESS_END;
}
/* single-byte alteration of a NON-final element: expected to have collisions (seed argument of hash_combine is not injective) */
void h_nonfinal_i64(void)
{
    IN_ARR_U64(a, 2);
    uint64_t b[2]; memcpy(b, a, sizeof a);
    IN_LONG_IN(byte, 0, 7);
    IN_U8(x);
    ASSUME(x != 0);
    b[0] = a[0] ^ ((uint64_t)x << (8 * byte));
    ASSERT(k_hash_i64(PTR(a), 2) != k_hash_i64(PTR(b), 2), "int64 payload: altering one byte of a non-final element changes the hash");
    WITNESS_END;
}
LIFT_MAIN(LIFT_ENTRY(h_last_i64), LIFT_ENTRY(h_last_f64), LIFT_ENTRY(h_last_i32), LIFT_ENTRY(h_last_u8), LIFT_ENTRY(h_nonfinal_i64))
