/* C16 LIFT-C driver: index arithmetic, views, reshape, slices and summed-area tables with all dimensions and indices symbolic */
#include "lift_drv.h"
#ifdef USE_GEN
#include "shim.c"
#else
#include "shim.h"
#endif
#define MAXD 6
#define PTR(x) ((uint8_t*)(x))

void h_offset4(void)
{
    IN_LONG_IN(d0, 0, MAXD); IN_LONG_IN(d1, 0, MAXD); IN_LONG_IN(d2, 0, MAXD); IN_LONG_IN(d3, 0, MAXD);
    IN_LONG(i0); IN_LONG(i1); IN_LONG(i2); IN_LONG(i3);
    IN_LONG(j0); IN_LONG(j1); IN_LONG(j2); IN_LONG(j3);
    ASSUME(i0 >= 0 && i0 < d0 && i1 >= 0 && i1 < d1 && i2 >= 0 && i2 < d2 && i3 >= 0 && i3 < d3);
    ASSUME(j0 >= 0 && j0 < d0 && j1 >= 0 && j1 < d1 && j2 >= 0 && j2 < d2 && j3 >= 0 && j3 < d3);
    long size = d0 * d1 * d2 * d3;
    ASSERT((long)k_size4(d0, d1, d2, d3) == size, "size = product of dims");
    long oi = (long)k_offset4(d0, d1, d2, d3, i0, i1, i2, i3), oj = (long)k_offset4(d0, d1, d2, d3, j0, j1, j2, j3);
    OBS(oi);
    ASSERT(oi >= 0 && oi < size, "rank4 offset inside [0,size)");
    ASSERT(oi == ((i0 * d1 + i1) * d2 + i2) * d3 + i3, "rank4 offset is the row-major formula");
    ASSERT(oi != oj || (i0 == j0 && i1 == j1 && i2 == j2 && i3 == j3), "rank4 offset injective");
    if (i0 < j0 || (i0 == j0 && (i1 < j1 || (i1 == j1 && (i2 < j2 || (i2 == j2 && i3 < j3)))))) ASSERT(oi < oj, "rank4 offset preserves lexicographic (row-major) order");
    WITNESS_END;
}
void h_offset123(void)
{
    IN_LONG_IN(d0, 0, MAXD); IN_LONG_IN(d1, 0, MAXD); IN_LONG_IN(d2, 0, MAXD);
    IN_LONG(i0); IN_LONG(i1); IN_LONG(i2);
    ASSUME(i0 >= 0 && i0 < d0 && i1 >= 0 && i1 < d1 && i2 >= 0 && i2 < d2);
    ASSERT((long)k_offset1(d0, i0) == i0, "rank1 offset");
    ASSERT((long)k_offset2(d0, d1, i0, i1) == i0 * d1 + i1, "rank2 offset is row-major");
    long o3 = (long)k_offset3(d0, d1, d2, i0, i1, i2);
    OBS(o3);
    ASSERT(o3 == (i0 * d1 + i1) * d2 + i2 && o3 >= 0 && o3 < d0 * d1 * d2, "rank3 offset is row-major and in range");
    WITNESS_END;
}
void h_views3(void)
{
    static long buf[MAXD * MAXD * MAXD];
    IN_LONG_IN(d0, 0, MAXD); IN_LONG_IN(d1, 0, MAXD); IN_LONG_IN(d2, 0, MAXD);
    IN_LONG(i0); IN_LONG(i1); IN_LONG(i2);
    ASSUME(i0 >= 0 && i0 < d0 && i1 >= 0 && i1 < d1 && i2 >= 0 && i2 < d2);
    long *full = buf + ((i0 * d1 + i1) * d2 + i2);
    ASSERT(k_at3(PTR(buf), d0, d1, d2, i0, i1, i2) == PTR(full), "operator() addresses the row-major element");
    long o0, o1, n, rows, cols; uint8_t* p;
    k_sub3(PTR(buf), d0, d1, d2, i0, PTR(&o0), PTR(&o1), PTR(&p));
    ASSERT(o0 == d1 && o1 == d2 && p == PTR(buf + i0 * d1 * d2), "tensor(i0) aliases the sub-tensor obtained by full indexing");
    k_vec3(PTR(buf), d0, d1, d2, i0, i1, PTR(&n), PTR(&p));
    ASSERT(n == d2 && p == PTR(buf + (i0 * d1 + i1) * d2), "vector(i0,i1) aliases the last-axis row");
    k_mat3(PTR(buf), d0, d1, d2, i0, PTR(&rows), PTR(&cols), PTR(&p));
    ASSERT(rows == d1 && cols == d2 && p == PTR(buf + i0 * d1 * d2), "matrix(i0) aliases the (d1 x d2) block");
    WITNESS_END;
}
void h_views4(void)
{
    static long buf[5 * 5 * 5 * 5];
    IN_LONG_IN(d0, 0, 5); IN_LONG_IN(d1, 0, 5); IN_LONG_IN(d2, 0, 5); IN_LONG_IN(d3, 0, 5);
    IN_LONG(i0); IN_LONG(i1);
    ASSUME(i0 >= 0 && i0 < d0 && i1 >= 0 && i1 < d1);
    long o0, o1; uint8_t* p;
    k_sub4(PTR(buf), d0, d1, d2, d3, i0, i1, PTR(&o0), PTR(&o1), PTR(&p));
    ASSERT(o0 == d2 && o1 == d3 && p == PTR(buf + (i0 * d1 + i1) * d2 * d3), "tensor(i0,i1) of a rank-4 tensor aliases the right block");
    WITNESS_END;
}
void h_reshape(void)
{
    static long buf[MAXD * MAXD * MAXD];
    IN_LONG_IN(d0, 0, MAXD); IN_LONG_IN(d1, 0, MAXD); IN_LONG_IN(d2, 0, MAXD);
    IN_LONG(r0); IN_LONG(r1);
    long s3 = d0 * d1 * d2;
    ASSUME((r0 == -1 && r1 > 0 && r1 <= 216 && s3 % r1 == 0) || (r1 == -1 && r0 > 0 && r0 <= 216 && s3 % r0 == 0) || (r0 >= 0 && r1 >= 0 && r0 <= 216 && r1 <= 216 && r0 * r1 == s3));
    long o0, o1; uint8_t* p;
    k_reshape3(PTR(buf), d0, d1, d2, r0, r1, PTR(&o0), PTR(&o1), PTR(&p));
    OBS(o0); OBS(o1);
    ASSERT(o0 >= 0 && o1 >= 0 && o0 * o1 == s3, "reshape keeps the number of elements (inferred -1 dimension exact)");
    ASSERT((r0 == -1 || o0 == r0) && (r1 == -1 || o1 == r1), "reshape keeps the given dimensions");
    ASSERT(p == PTR(buf), "reshape aliases the same elements");
    WITNESS_END;
}
void h_reshape23(void)
{
    static long buf[MAXD * MAXD];
    IN_LONG_IN(d0, 0, MAXD); IN_LONG_IN(d1, 0, MAXD);
    IN_LONG(r0); IN_LONG(r1); IN_LONG(r2);
    long s = d0 * d1;
    ASSUME(r0 >= -1 && r0 <= 36 && r1 >= -1 && r1 <= 36 && r2 >= -1 && r2 <= 36);
    ASSUME((r0 == -1) + (r1 == -1) + (r2 == -1) <= 1);
    long known = (r0 == -1 ? 1 : r0) * (r1 == -1 ? 1 : r1) * (r2 == -1 ? 1 : r2);
    ASSUME(((r0 == -1) + (r1 == -1) + (r2 == -1) == 1) ? (known > 0 && s % known == 0) : (known == s));
    long o0, o1, o2; uint8_t* p;
    k_reshape2to3(PTR(buf), d0, d1, r0, r1, r2, PTR(&o0), PTR(&o1), PTR(&o2), PTR(&p));
    ASSERT(o0 >= 0 && o1 >= 0 && o2 >= 0 && o0 * o1 * o2 == s, "rank2->rank3 reshape keeps the number of elements");
    ASSERT((r0 == -1 || o0 == r0) && (r1 == -1 || o1 == r1) && (r2 == -1 || o2 == r2) && p == PTR(buf), "rank2->rank3 reshape keeps given dims and data");
    WITNESS_END;
}
void h_slice(void)
{
    static long buf[MAXD * MAXD * MAXD];
    IN_LONG_IN(d0, 0, MAXD); IN_LONG_IN(d1, 0, MAXD); IN_LONG_IN(d2, 0, MAXD);
    IN_LONG(b); IN_LONG(e);
    ASSUME(0 <= b && b <= e && e <= d0);
    long q0, q1, q2; uint8_t* qp;
    k_slice3(PTR(buf), d0, d1, d2, b, e, PTR(&q0), PTR(&q1), PTR(&q2), PTR(&qp));
    ASSERT(q0 == e - b && q1 == d1 && q2 == d2, "slice [b,e) has dims (e-b, d1, d2)");
    ASSERT(qp == PTR(buf + b * d1 * d2), "slice [b,e) starts at the element (b,0,0)");
    WITNESS_END;
}
void h_idiv(void)
{
    IN_LONG_IN(n, 0, 255); IN_LONG_IN(d, 1, 16);
    long q = (long)k_idiv(n, d);
    OBS(q);
    /* round-half-up division: |n - q*d| <= d/2 */
    ASSERT(2 * (n - q * d) < d && 2 * (n - q * d) >= -d, "idiv(n,d) is the rounded quotient (round half up)");
    ASSERT((long)k_iround(n, d) == q * d, "iround(n,d) = idiv(n,d)*d");
    WITNESS_END;
}
void h_integral1(void)
{
    IN_LONG_IN(d0, 1, 5);
    IN_ARR_I8(in, 5);
    int32_t out[5];
    k_integral1_i8_i32(PTR(in), d0, PTR(out));
    long sum = 0;
    for (long i = 0; i < d0; ++i) { sum += in[i]; OBS(out[i]); ASSERT(out[i] == sum, "rank1 summed-area table (int8 -> int32) = naive prefix sums"); }
    WITNESS_END;
}
void h_integral2(void)
{
    IN_LONG_IN(d0, 1, 2); IN_LONG_IN(d1, 1, 3);
    IN_ARR_I8(in, 9);
    int32_t out[9];
    k_integral2_i8_i32(PTR(in), d0, d1, PTR(out));
    for (long i = 0; i < d0; ++i)
        for (long j = 0; j < d1; ++j)
        {
            long sum = 0;
            for (long a = 0; a <= i; ++a)
                for (long b = 0; b <= j; ++b) sum += in[a * d1 + b];
            ASSERT(out[i * d1 + j] == sum, "rank2 summed-area table (int8 -> int32) = naive prefix sums");
        }
    WITNESS_END;
}
void h_integral2w(void)
{
    IN_LONG_IN(d0, 1, 2); IN_LONG_IN(d1, 1, 3);
    int32_t in[6];
    for (int i = 0; i < 6; ++i) { IN_LONG_IN(v, -2147483647L - 1, 2147483647L); in[i] = (int32_t)v; }
    int64_t out[6];
    k_integral2_i32_i64(PTR(in), d0, d1, PTR(out));
    for (long i = 0; i < d0; ++i)
        for (long j = 0; j < d1; ++j)
        {
            long sum = 0;
            for (long a = 0; a <= i; ++a)
                for (long b = 0; b <= j; ++b) sum += in[a * d1 + b];
            ASSERT(out[i * d1 + j] == sum, "rank2 summed-area table (int32 -> int64) = naive prefix sums");
        }
    WITNESS_END;
}
void h_integral3(void)
{
    const long d0 = 2, d1 = 2, d2 = 2; /* concrete shape, symbolic contents */
    IN_ARR_U8(in, 8);
    int64_t out[8];
    k_integral3_u8_i64(PTR(in), d0, d1, d2, PTR(out));
    for (long i = 0; i < d0; ++i)
        for (long j = 0; j < d1; ++j)
            for (long k = 0; k < d2; ++k)
            {
                long sum = 0;
                for (long a = 0; a <= i; ++a)
                    for (long b = 0; b <= j; ++b)
                        for (long c = 0; c <= k; ++c) sum += in[(a * d1 + b) * d2 + c];
                ASSERT(out[(i * d1 + j) * d2 + k] == sum, "rank3 summed-area table (uint8 -> int64) = naive prefix sums");
            }
    WITNESS_END;
}
LIFT_MAIN(LIFT_ENTRY(h_offset4), LIFT_ENTRY(h_offset123), LIFT_ENTRY(h_views3), LIFT_ENTRY(h_views4), LIFT_ENTRY(h_reshape), LIFT_ENTRY(h_reshape23),
          LIFT_ENTRY(h_slice), LIFT_ENTRY(h_idiv), LIFT_ENTRY(h_integral1), LIFT_ENTRY(h_integral2), LIFT_ENTRY(h_integral2w), LIFT_ENTRY(h_integral3))
