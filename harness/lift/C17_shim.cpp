// C17 LIFT-C shim: both pool_t::map templates on a pool object fabricated without threads (only size() is read on the
// inline path: size()==1, or the whole range fits in one chunk / one element)
#include <nano/core/parallel.h>
using namespace nano::parallel;
#define K extern "C" __attribute__((noinline))

struct rec_t
{
    long n;
    long b[16], e[16], t[16];
};
static pool_t* fabricate(long poolsize)
{
    alignas(16) static unsigned char mem[sizeof(pool_t)];
    alignas(16) static unsigned char slots[16 * sizeof(std::thread)];
    auto* pool = reinterpret_cast<pool_t*>(mem);
    auto** v   = reinterpret_cast<unsigned char**>(&pool->m_threads); // {begin, end, end_of_storage}
    v[0]       = slots;
    v[1]       = slots + poolsize * sizeof(std::thread);
    v[2]       = slots + sizeof(slots);
    return pool;
}
K void k_map_chunks(long elements, long chunk, long poolsize, rec_t* rec)
{
    rec->n = 0;
    auto* pool = fabricate(poolsize);
    if (pool->size() != 1) __builtin_unreachable(); // specialise map() to its inline path (size()==1): the enqueue path needs threads
    pool->map(elements, chunk, [rec](long b, long e, size_t t) {
        if (rec->n < 16)
        {
            rec->b[rec->n] = b;
            rec->e[rec->n] = e;
            rec->t[rec->n] = static_cast<long>(t);
        }
        rec->n++;
    }, false);
}
K void k_map_each(long elements, long poolsize, rec_t* rec)
{
    rec->n = 0;
    auto* pool = fabricate(poolsize);
    if (pool->size() != 1) __builtin_unreachable();
    pool->map(elements, [rec](long i, size_t t) {
        if (rec->n < 16)
        {
            rec->b[rec->n] = i;
            rec->t[rec->n] = static_cast<long>(t);
        }
        rec->n++;
    }, false);
}
