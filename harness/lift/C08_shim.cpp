// C08 LIFT-C shim: bit masks, datasource iterators (sample mapping through the shuffle table) and the range checks
// of dataset_t (called on an object fabricated field-by-field: check() only reads the sample/feature counts)
#include <nano/dataset.h>
#include <nano/datasource/iterator.h>
#include <nano/datasource/mask.h>
using namespace nano;
#define K extern "C" __attribute__((noinline))

K void k_setbit(uint8_t* m, long bytes, long s) { setbit(map_tensor(m, bytes), s); }
K int k_getbit(const uint8_t* m, long bytes, long s) { return getbit(map_tensor(m, bytes), s) ? 1 : 0; }
K int k_optional(const uint8_t* m, long bytes, long samples) { return optional(map_tensor(m, bytes), samples) ? 1 : 0; }

// dereference the iterator after `steps` increments: outputs (index, given, value); returns the stored-sample index used
K long k_iter(const int* data, long nall, const uint8_t* mask, long bytes, const long* samples, long ns, const long* shuffled, long nsh, long steps,
              long* oindex, int* ogiven, int* ovalue)
{
    auto it = make_iterator(map_tensor(data, nall), map_tensor(mask, bytes), map_tensor(samples, ns), map_tensor(shuffled, nsh));
    for (long i = 0; i < steps; ++i) ++it;
    const auto [index, given, value] = *it;
    *oindex = index;
    *ogiven = given ? 1 : 0;
    *ovalue = value;
    return it.sample();
}

namespace
{
struct mimic_t : loggable_t
{
    const datasource_t* p;
};
dataset_t* fabricate(long nsamples, long nfeatures)
{
    alignas(16) static unsigned char smem[sizeof(datasource_t)];
    alignas(16) static unsigned char dmem[sizeof(dataset_t)];
    auto* src = reinterpret_cast<datasource_t*>(smem);
    auto* ds  = reinterpret_cast<dataset_t*>(dmem);
    src->m_testing.m_dims[0] = nsamples;                              // datasource_t::samples()
    reinterpret_cast<mimic_t*>(dmem)->p = src;                         // dataset_t::m_datasource (reference member)
    ds->m_feature_mapping.m_dims[0] = nfeatures;                       // dataset_t::features()
    ds->m_feature_mapping.m_dims[1] = 5;
    return ds;
}
} // namespace

// returns 1 if dataset_t::check(samples) rejected the list (exception), 0 if accepted
K int k_check_samples(long nsamples, const long* idx, long n)
{
    auto* ds = fabricate(nsamples, 1);
    try
    {
        ds->check(map_tensor(idx, n));
    }
    catch (...)
    {
        return 1;
    }
    return 0;
}
K int k_check_feature(long nfeatures, long feature)
{
    auto* ds = fabricate(1, nfeatures);
    try
    {
        ds->check(feature);
    }
    catch (...)
    {
        return 1;
    }
    return 0;
}
