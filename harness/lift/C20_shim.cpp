// C20 LIFT-C shim: bit-precise (IEEE double) view of the order-statistic position arithmetic and of histogram_t::bin
#include <nano/core/histogram.h>
#include <nano/core/stats.h>
using namespace nano;
#define K extern "C" __attribute__((noinline))

K double k_percentile_sorted(const double* v, long n, double p) { return percentile_sorted(v, v + n, p); }
K double k_median_sorted(const double* v, long n) { return median_sorted(v, v + n); }

// histogram fabricated field-by-field: bin() only reads the thresholds and the number of bins
K long k_hist_bin(const double* thresholds, long nt, double v)
{
    alignas(16) static unsigned char mem[sizeof(histogram_t)];
    auto* h = reinterpret_cast<histogram_t*>(mem);
    h->m_thresholds.m_dims[0] = nt;
    h->m_bin_counts.m_dims[0] = nt + 1;
    // thresholds storage: copy into the object's own (pre-sized) storage is an allocation; map instead through the vector's data pointer
    auto& vec = h->m_thresholds.m_data;
    *reinterpret_cast<const double**>(&vec) = thresholds;
    return h->bin(v);
}
