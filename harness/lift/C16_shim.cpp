// C16 LIFT-C shim: thin extern "C" entry points into the real tensor headers (no allocation: maps over driver buffers)
#include <nano/core/numeric.h>
#include <nano/tensor/integral.h>
#include <nano/tensor/tensor.h>
using namespace nano;
#define K extern "C" __attribute__((noinline))

K long k_offset1(long d0, long i0) { return nano::index(make_dims(d0), i0); }
K long k_offset2(long d0, long d1, long i0, long i1) { return nano::index(make_dims(d0, d1), i0, i1); }
K long k_offset3(long d0, long d1, long d2, long i0, long i1, long i2) { return nano::index(make_dims(d0, d1, d2), i0, i1, i2); }
K long k_offset4(long d0, long d1, long d2, long d3, long i0, long i1, long i2, long i3) { return nano::index(make_dims(d0, d1, d2, d3), i0, i1, i2, i3); }
K long k_size4(long d0, long d1, long d2, long d3) { return nano::size(make_dims(d0, d1, d2, d3)); }
// element access through a mapped tensor: address of element (i0,i1,i2)
K const long* k_at3(const long* data, long d0, long d1, long d2, long i0, long i1, long i2)
{
    auto t = map_tensor(data, d0, d1, d2);
    return &t(i0, i1, i2);
}
// partial-index views of a rank-3 / rank-4 tensor
K void k_sub3(const long* data, long d0, long d1, long d2, long i0, long* o0, long* o1, const long** optr)
{
    auto t = map_tensor(data, d0, d1, d2);
    auto r = t.tensor(i0);
    *o0 = r.size<0>();
    *o1 = r.size<1>();
    *optr = r.data();
}
K void k_vec3(const long* data, long d0, long d1, long d2, long i0, long i1, long* on, const long** optr)
{
    auto t = map_tensor(data, d0, d1, d2);
    auto r = t.vector(i0, i1);
    *on = r.size();
    *optr = r.data();
}
K void k_mat3(const long* data, long d0, long d1, long d2, long i0, long* orows, long* ocols, const long** optr)
{
    auto t = map_tensor(data, d0, d1, d2);
    auto r = t.matrix(i0);
    *orows = r.rows();
    *ocols = r.cols();
    *optr = r.data();
}
K void k_sub4(const long* data, long d0, long d1, long d2, long d3, long i0, long i1, long* o0, long* o1, const long** optr)
{
    auto t = map_tensor(data, d0, d1, d2, d3);
    auto r = t.tensor(i0, i1);
    *o0 = r.size<0>();
    *o1 = r.size<1>();
    *optr = r.data();
}
K void k_reshape3(const long* data, long d0, long d1, long d2, long r0, long r1, long* o0, long* o1, const long** optr)
{
    auto t = map_tensor(data, d0, d1, d2);
    auto r = t.reshape(r0, r1);
    *o0 = r.size<0>();
    *o1 = r.size<1>();
    *optr = r.data();
}
K void k_reshape2to3(const long* data, long d0, long d1, long r0, long r1, long r2, long* o0, long* o1, long* o2, const long** optr)
{
    auto t = map_tensor(data, d0, d1);
    auto r = t.reshape(r0, r1, r2);
    *o0 = r.size<0>();
    *o1 = r.size<1>();
    *o2 = r.size<2>();
    *optr = r.data();
}
K void k_slice3(const long* data, long d0, long d1, long d2, long b, long e, long* o0, long* o1, long* o2, const long** optr)
{
    auto t = map_tensor(data, d0, d1, d2);
    auto r = t.slice(b, e);
    *o0 = r.size<0>();
    *o1 = r.size<1>();
    *o2 = r.size<2>();
    *optr = r.data();
}
K long k_idiv(long n, long d) { return nano::idiv(n, d); }
K long k_iround(long n, long d) { return nano::iround(n, d); }
// summed-area tables with a narrower input type than the output type
K void k_integral1_i8_i32(const int8_t* in, long d0, int32_t* out) { nano::integral(map_tensor(in, d0), map_tensor(out, d0)); }
K void k_integral2_i8_i32(const int8_t* in, long d0, long d1, int32_t* out) { nano::integral(map_tensor(in, d0, d1), map_tensor(out, d0, d1)); }
K void k_integral2_i32_i64(const int32_t* in, long d0, long d1, int64_t* out) { nano::integral(map_tensor(in, d0, d1), map_tensor(out, d0, d1)); }
K void k_integral3_u8_i64(const uint8_t* in, long d0, long d1, long d2, int64_t* out) { nano::integral(map_tensor(in, d0, d1, d2), map_tensor(out, d0, d1, d2)); }
