/* C20 LIFT-C driver (bit-precise IEEE doubles): percentile position arithmetic and histogram bin look-up */
#include "lift_drv.h"
#ifdef USE_GEN
#include "shim.c"
#else
#include "shim.h"
#endif
#define PTR(x) ((uint8_t*)(x))
#define NMAX 128

/* values v[i] = i: the percentile at an integral position k must be exactly k, at a fractional one k + 0.5 */
static double ramp[NMAX];
static void fill_ramp(void) { for (int i = 0; i < NMAX; ++i) ramp[i] = (double)i; }

void h_percentile_position(void)
{
    fill_ramp();
    IN_LONG_IN(n, 1, NMAX);
    IN_LONG_IN(p2, 0, 200); /* percentage on a 0.5 grid: p = p2 / 2 */
    double p = (double)p2 / 2.0;
    double got = k_percentile_sorted(PTR(ramp), n, p);
    /* exact position in integer arithmetic: p2*(n-1)/200 */
    long num = p2 * (n - 1);
    long k = num / 200, r = num % 200;
    OBS(k);
    if (r == 0) ASSERT(got == (double)k, "integral position p*(n-1)/100: percentile is exactly the element at that position");
    else ASSERT(got == (double)k + 0.5, "fractional position: percentile is the midpoint of the two neighbours");
    WITNESS_END;
}
void h_median(void)
{
    fill_ramp();
    IN_LONG_IN(n, 1, NMAX);
    double got = k_median_sorted(PTR(ramp), n);
    ASSERT(got == (double)(n - 1) / 2.0, "median of 0..n-1 is (n-1)/2 for every n");
    WITNESS_END;
}
void h_bin(void)
{
    double thr[3];
    for (int i = 0; i < 3; ++i) { IN_DOUBLE(t); thr[i] = t; }
    IN_LONG_IN(nt, 1, 3);
    IN_DOUBLE(v);
    for (int i = 0; i < 3; ++i) ASSUME(thr[i] == thr[i] && thr[i] >= -1e300 && thr[i] <= 1e300);
    ASSUME(v == v && v >= -1e300 && v <= 1e300);
    for (int i = 0; i + 1 < 3; ++i) if (i + 1 < nt) ASSUME(thr[i] <= thr[i + 1]);
    long b = (long)k_hist_bin(PTR(thr), nt, v);
    long expect = 0;
    for (int i = 0; i < 3; ++i) if (i < nt && thr[i] <= v) ++expect;
    OBS(b);
    ASSERT(b >= 0 && b <= nt, "bin index inside [0, bins)");
    ASSERT(b == expect, "bin(v) = number of thresholds <= v for every finite double v (no integer truncation)");
    WITNESS_END;
}
LIFT_MAIN(LIFT_ENTRY(h_percentile_position), LIFT_ENTRY(h_median), LIFT_ENTRY(h_bin))
