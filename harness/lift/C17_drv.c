/* C17 LIFT-C driver (arithmetic clause only): map() chunk tiling / exactly-once dispatch on the inline path */
#include "lift_drv.h"
#ifdef USE_GEN
#include "shim.c"
#else
#include "shim.h"
#endif
#define PTR(x) ((uint8_t*)(x))
struct rec { long n; long b[16], e[16], t[16]; };

void h_map_chunks(void)
{
    struct rec r; memset(&r, 0, sizeof r);
    IN_LONG_IN(elements, 0, 1099511627776L);
    IN_LONG_IN(chunk, 1, 1099511627776L);
    const long poolsize = 1; /* concrete: size()==1 selects the inline path; the enqueue path (threads) is outside the claim */
    IN_LONG_IN(nchunks, 0, 8); /* ceil(elements/chunk), stated without a division */
    ASSUME(nchunks * chunk >= elements && (nchunks == 0 ? elements == 0 : (nchunks - 1) * chunk < elements));
    k_map_chunks(elements, chunk, poolsize, PTR(&r));
    OBS(r.n);
    ASSERT(r.n == nchunks, "operator invoked once per chunk: ceil(elements/chunk) calls");
    long expect_begin = 0;
    for (int i = 0; i < 8; ++i)
        if (i < r.n)
        {
            ASSERT(r.b[i] == expect_begin, "chunks tile [0,elements) without gap or overlap");
            ASSERT(r.e[i] > r.b[i] && r.e[i] - r.b[i] <= chunk && r.e[i] <= elements, "every chunk is non-empty, at most chunksize long and inside the range");
            ASSERT(r.t[i] == 0, "inline path passes worker id 0 (< pool size)");
            expect_begin = r.e[i];
        }
    ASSERT(expect_begin == elements, "last chunk ends at `elements`");
    WITNESS_END;
}
void h_map_each(void)
{
    struct rec r; memset(&r, 0, sizeof r);
    IN_LONG_IN(elements, 0, 8);
    const long poolsize = 1;
    k_map_each(elements, poolsize, PTR(&r));
    ASSERT(r.n == elements, "operator invoked exactly once per index");
    for (int i = 0; i < 8; ++i) if (i < r.n) ASSERT(r.b[i] == i && r.t[i] == 0, "indices visited once each, in order, worker id 0");
    WITNESS_END;
}
LIFT_MAIN(LIFT_ENTRY(h_map_chunks), LIFT_ENTRY(h_map_each))
