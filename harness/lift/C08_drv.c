/* C08 LIFT-C driver: masks, iterator -> stored sample mapping, range checks; all indices symbolic */
#include "lift_drv.h"
#ifdef USE_GEN
#include "shim.c"
#else
#include "shim.h"
#endif
#define PTR(x) ((uint8_t*)(x))

void h_mask(void)
{
    IN_LONG_IN(bytes, 1, 3);
    IN_ARR_U8(m, 3);
    IN_LONG(s); IN_LONG(q);
    ASSUME(s >= 0 && s < 8 * bytes && q >= 0 && q < 8 * bytes);
    uint8_t before[3]; memcpy(before, m, 3);
    int qbefore = (int)k_getbit(PTR(m), bytes, q);
    k_setbit(PTR(m), bytes, s);
    ASSERT((int)k_getbit(PTR(m), bytes, s) == 1, "set then get returns 1");
    if (q != s) ASSERT((int)k_getbit(PTR(m), bytes, q) == qbefore, "setting one bit flips no other bit");
    for (int b = 0; b < 3; ++b) if (b >= bytes) ASSERT(m[b] == before[b], "setbit writes no byte outside the mask");
    /* getbit agrees with the documented layout: bit (7 - s%8) of byte s/8 */
    ASSERT((int)k_getbit(PTR(before), bytes, q) == ((before[q / 8] >> (7 - (q % 8))) & 1), "getbit reads bit (7 - s%8) of byte s/8");
    WITNESS_END;
}
void h_optional(void)
{
    IN_LONG_IN(samples, 1, 20);
    IN_ARR_U8(m, 3);
    long bytes = (samples + 7) / 8;
    int expect = 0;
    for (long s = 0; s < samples; ++s) if (!((m[s / 8] >> (7 - (s % 8))) & 1)) expect = 1;
    ASSERT((int)k_optional(PTR(m), bytes, samples) == expect, "optional(mask) iff some sample below `samples` is missing (also for counts not multiple of 8)");
    WITNESS_END;
}
void h_iter(void)
{
    int data[6]; for (int i = 0; i < 6; ++i) data[i] = 100 + i;
    IN_LONG_IN(nall, 1, 6);
    IN_ARR_U8(mask, 1);
    IN_LONG_IN(ns, 1, 4);
    IN_ARR_LONG(samples, 4, 0, 5);
    IN_LONG_IN(useshuffle, 0, 1);
    IN_ARR_LONG(shuffled, 6, 0, 5);
    IN_LONG(steps);
    ASSUME(steps >= 0 && steps < ns);
    for (int i = 0; i < 4; ++i) if (i < ns) ASSUME(samples[i] < nall);
    for (int i = 0; i < 6; ++i) if (i < nall) ASSUME(shuffled[i] < nall);
    long oindex; int given, value;
    long used = (long)k_iter(PTR(data), nall, PTR(mask), 1, PTR(samples), ns, PTR(shuffled), useshuffle ? nall : 0, steps, PTR(&oindex), PTR(&given), PTR(&value));
    long expect = useshuffle ? shuffled[samples[steps]] : samples[steps];
    OBS(used);
    ASSERT(oindex == steps, "iterator reports its position in the sample list");
    ASSERT(used == expect, "iterator reads stored sample shuffled[samples[i]] (samples[i] without shuffling), repetitions and any order allowed");
    ASSERT(value == 100 + expect, "iterator value = stored cell of that sample");
    ASSERT(given == ((mask[expect / 8] >> (7 - (expect % 8))) & 1), "iterator `given` = mask bit of that sample");
    WITNESS_END;
}
void h_check_samples(void)
{
    IN_LONG_IN(N, 1, 16);
    IN_LONG_IN(n, 0, 4); /* the empty list is a list too: nothing to reject, nothing to read */
    IN_ARR_LONG(idx, 4, -3, 19);
    int bad = 0;
    for (int i = 0; i < 4; ++i) if (i < n && (idx[i] < 0 || idx[i] >= N)) bad = 1;
    int rejected = (int)k_check_samples(N, PTR(idx), n);
    ASSERT(rejected == bad, "sample lists are rejected iff some index lies outside [0,N) (index N itself included)");
    WITNESS_END;
}
void h_check_feature(void)
{
    IN_LONG_IN(F, 0, 12);
    IN_LONG_IN(f, -3, 15);
    ASSERT((int)k_check_feature(F, f) == (f < 0 || f >= F), "feature indices are rejected iff outside [0,features)");
    WITNESS_END;
}
LIFT_MAIN(LIFT_ENTRY(h_mask), LIFT_ENTRY(h_optional), LIFT_ENTRY(h_iter), LIFT_ENTRY(h_check_samples), LIFT_ENTRY(h_check_feature))
