"""LIFT-C engine driver: real C++ functions -> LLVM IR (clang-14 -O1) -> C (ir2c) -> CBMC.
Per unit: a shim (.cpp, extern "C" noinline entry points into the real headers/sources) and a driver (.c) with one
function per harness. Every harness is decided by CBMC (unwinding assertions, pointer/bounds/overflow checks), has a
-DWITNESS twin that must report its final assert(0) reachable, the translation is validated differentially (generated C
vs the real C++ on pseudo-random inputs) and counter-examples are replayed on the real C++ build."""
import hashlib, json, os, re, subprocess, sys, time
from concurrent.futures import ThreadPoolExecutor
import build

LIFT = os.path.join(build.VERIF, "engine", "lift")
HDIR = os.path.join(build.VERIF, "harness", "lift")
CBMC_FLAGS = ["--unwinding-assertions", "--pointer-check", "--bounds-check", "--signed-overflow-check", "--undefined-shift-check",
              "--div-by-zero-check", "--pointer-overflow-check", "--drop-unused-functions", "--object-bits", "12", "--no-malloc-may-fail",
              "--json-ui"]
CXXFLAGS = ["-std=c++17", "-O1", "-DNDEBUG", "-DEIGEN_DONT_VECTORIZE", "-DNANO_HAS_FROM_CHARS_FLOAT", "-D" + build.GUARD,
            "-ffp-contract=off", "-fno-vectorize", "-fno-slp-vectorize", "-fno-unroll-loops", "-fno-access-control", "-w"]


def sh(cmd, **kw):
    return build.sh(cmd, **kw)


def prepare(unit):
    """returns dict with paths: gen_c, gen_h, drv, exe_gen, exe_real; rebuilt from /repo on every call (keyed cache)"""
    build.build_tools()
    build.gen_version_h()
    name = unit["name"]
    wd = os.path.join(build.CACHE, "lift", name)
    os.makedirs(wd, exist_ok=True)
    with build.Lock("lift_" + name):
        shim = os.path.join(HDIR, unit["shim"])
        drv = os.path.join(HDIR, unit["driver"])
        td = build.tools_dir()
        ll = os.path.join(wd, "shim.ll")
        gen_c = os.path.join(wd, "shim.c")
        inc = build.inc_flags() + ["-I" + HDIR]
        # 1. IR of the shim (+ optional library TUs)
        bcs = []
        srcs = [shim] + [os.path.join(build.REPO, s) for s in unit.get("lib_sources", [])]
        for i, s in enumerate(srcs):
            bc = os.path.join(wd, "u%d.bc" % i)
            sh([build.CLANG] + CXXFLAGS + inc + ["-emit-llvm", "-c", s, "-o", bc, "-MD", "-MF", bc + ".d"])
            bcs.append(bc)
        roots = unit["roots"]
        if len(bcs) > 1:
            sh(["llvm-link-14"] + bcs + ["-o", os.path.join(wd, "linked.bc")])
            sh([build.OPT, "-passes=internalize,default<O1>", "-internalize-public-api-list=" + ",".join(roots),
                os.path.join(wd, "linked.bc"), "-S", "-o", ll])
        else:
            sh(["llvm-dis-14", bcs[0], "-o", ll])
        # 2. IR -> C
        cmd = [os.path.join(td, "ir2c"), ll, gen_c] + roots + ["--rt", os.path.join(LIFT, "ir2c_rt.h")]
        for s in unit.get("stubs", []):
            cmd += ["--stub", s]
        for s in unit.get("throws", []):
            cmd += ["--throw", s]
        r = subprocess.run(cmd, capture_output=True, text=True)
        if r.returncode != 0:
            raise RuntimeError("ir2c failed for %s:\n%s" % (name, r.stderr[-3000:]))
        ir2c_log = r.stderr
        for h in ("ir2c_rt.h", "lift_drv.h"):
            open(os.path.join(wd, h), "w").write(open(os.path.join(LIFT, h)).read())
        # 3. native builds for validation / replay
        exe_gen = os.path.join(wd, "drv_gen")
        exe_real = os.path.join(wd, "drv_real")
        sh(["gcc", "-O1", "-w", "-fwrapv", "-fno-strict-aliasing", "-DNATIVE", "-DUSE_GEN", "-I" + wd, "-I" + HDIR, drv, "-o", exe_gen, "-lm"])
        shim_o = os.path.join(wd, "shim_real.o")
        sh(["g++", "-std=c++17", "-O1", "-DNDEBUG", "-DNANO_HAS_FROM_CHARS_FLOAT", "-D" + build.GUARD, "-fno-access-control", "-w"] + inc + ["-c", shim, "-o", shim_o])
        drv_o = os.path.join(wd, "drv_real.o")
        sh(["gcc", "-O1", "-w", "-DNATIVE", "-I" + wd, "-I" + HDIR, "-c", drv, "-o", drv_o])
        extra = []
        if unit.get("lib_sources") or unit.get("link_real_lib"):
            # the real functions live in libnano: link against the plain (un-instrumented) objects built from /repo's current tree
            _, plain, _ = build.build_lib()
            extra = plain
        sh(["g++", drv_o, shim_o] + extra + ["-o", exe_real, "-lm", "-lpthread"])
    funcs = re.findall(r"translated|extern/stub: (\S+)", ir2c_log)
    return {"wd": wd, "gen_c": gen_c, "drv": drv, "exe_gen": exe_gen, "exe_real": exe_real, "ir2c_log": ir2c_log.strip().splitlines()}


def validate(prep, seed):
    env = dict(os.environ, VERIF_SEED=str(seed))
    a = subprocess.run([prep["exe_gen"]], capture_output=True, text=True, env=env, timeout=600)
    b = subprocess.run([prep["exe_real"]], capture_output=True, text=True, env=env, timeout=600)
    la = [l for l in a.stdout.splitlines() if l.startswith("OBS")]
    lb = [l for l in b.stdout.splitlines() if l.startswith("OBS")]
    diff = None
    if la != lb:
        for i, (x, y) in enumerate(zip(la, lb)):
            if x != y:
                diff = {"line": i, "generated": x, "real": y}
                break
        if diff is None:
            diff = {"len_generated": len(la), "len_real": len(lb)}
    viol = [l for l in b.stdout.splitlines() if l.startswith("CONFIRMED")]
    return {"agree": la == lb, "observations": len(la), "first_difference": diff, "native_violations_on_random_inputs": len(viol),
            "native_violation_samples": viol[:3]}


def run_cbmc(prep, func, unwind, witness, timeout, extra=()):
    cmd = ["cbmc", prep["drv"], "-DUSE_GEN", "-I", prep["wd"], "-I", HDIR, "--function", func, "--unwind", str(unwind)] + CBMC_FLAGS + list(extra)
    if witness:
        cmd.insert(2, "-DWITNESS")
    t0 = time.time()
    try:
        # address-space limit (24 GB) so that a runaway SAT instance cannot take the machine down
        p = subprocess.run(["bash", "-c", "ulimit -v 25165824; exec \"$@\"", "x"] + cmd, capture_output=True, text=True, timeout=timeout)
        out = p.stdout
        rc = p.returncode
    except subprocess.TimeoutExpired:
        return {"status": "timeout", "wall_s": round(time.time() - t0, 1), "props": [], "cmd": " ".join(cmd)}
    wall = round(time.time() - t0, 1)
    try:
        js = json.loads(out)
    except Exception:
        return {"status": "error", "wall_s": wall, "props": [], "cmd": " ".join(cmd), "tail": (out[-600:] + p.stderr[-600:])}
    props, verdict, msgs = [], None, []
    for item in js:
        if "result" in item:
            props = item["result"]
        if "cProverStatus" in item:
            verdict = item["cProverStatus"]
        if item.get("messageType") == "ERROR":
            msgs.append(item.get("messageText", "")[:300])
    return {"status": verdict or "error", "wall_s": wall, "props": props, "cmd": " ".join(cmd), "errors": msgs, "rc": rc}


def trace_values(prep, func, unwind, prop, timeout):
    """re-run for one failing property with a trace; returns {input name: value} (first assignment to each harness-local name)"""
    cmd = ["cbmc", prep["drv"], "-DUSE_GEN", "-I", prep["wd"], "-I", HDIR, "--function", func, "--unwind", str(unwind)] + CBMC_FLAGS + ["--property", prop, "--trace"]
    try:
        p = subprocess.run(cmd, capture_output=True, text=True, timeout=timeout)
        js = json.loads(p.stdout)
    except Exception as e:
        return {}
    vals = {}
    for item in js:
        for r in item.get("result", []):
            for st in r.get("trace", []):
                if st.get("stepType") != "assignment" or st.get("hidden"):
                    continue
                fn = st.get("sourceLocation", {}).get("function")
                if fn != func:
                    continue
                lhs = st.get("lhs", "")
                v = st.get("value", {})
                data = v.get("data")
                if data is None or lhs in vals:
                    continue
                lhs = re.sub(r"\[(\d+)[a-zA-Z]*\]", r"[\1]", lhs)
                if lhs in vals:
                    continue
                if v.get("name") in ("integer", "float", "boolean"):
                    vals[lhs] = data.rstrip("f") if v.get("name") == "float" else re.sub(r"[uUlL]+$", "", data)
    return vals


def run_lift_unit(pid, unit, tier, seed, outdir):
    t0 = time.time()
    prep = prepare(unit)
    val = validate(prep, seed)
    harnesses = unit.get(tier) or unit.get("quick")
    to = unit.get("timeout", {}).get(tier, 240 if tier == "quick" else 1500)

    def one(h):
        main = run_cbmc(prep, h["func"], h["unwind"], False, to, h.get("flags", ()))
        wit = run_cbmc(prep, h["func"], h["unwind"], True, to, h.get("flags", ()))
        return h, main, wit

    with ThreadPoolExecutor(min(len(harnesses), 8) or 1) as ex:
        results = list(ex.map(one, harnesses))

    labels, violations, samples, summ = {}, [], [], []
    obligations = discharged = inconclusive = queries = 0
    complete = True
    for h, main, wit in results:
        queries += 2
        nprops = len(main["props"])
        fails = [p for p in main["props"] if p.get("status") == "FAILURE"]
        succ = [p for p in main["props"] if p.get("status") == "SUCCESS"]
        wit_reach = any(p.get("status") == "FAILURE" and "WITNESS" in p.get("description", "") for p in wit["props"])
        # the witness twin must fail ONLY on the reachability assert (otherwise the harness itself is broken)
        verdict_ok = main["status"] in ("success", "failure") and wit["status"] in ("failure",) and wit_reach
        user = [p for p in main["props"] if ".assertion." in p.get("property", "") and "unwind" not in p.get("property", "")]
        if not verdict_ok:
            complete = False
            inconclusive += max(1, len(user))
            labels["inconclusive: %s (%s / witness %s)" % (h["func"], main["status"], wit["status"] if not wit_reach else "ok")] = {"checked": 1, "discharged": 0, "violated": 0, "unknown": 1}
        else:
            for p in main["props"]:
                d = p.get("description", "")
                isuser = p in user
                key = "%s: %s" % (h["func"], d) if isuser else "%s: [built-in] %s" % (h["func"], re.sub(r"\s+", " ", d)[:60])
                e = labels.setdefault(key, {"checked": 0, "discharged": 0, "violated": 0, "unknown": 0})
                e["checked"] += 1
                obligations += 1
                if p.get("status") == "SUCCESS":
                    e["discharged"] += 1
                    discharged += 1
                elif p.get("status") == "FAILURE":
                    e["violated"] += 1
            for p in fails[:2]:
                vals = trace_values(prep, h["func"], h["unwind"], p["property"], to)
                vf = os.path.join(outdir, "%s.%s.values" % (unit["name"], h["func"]))
                open(vf, "w").write("".join("%s %s\n" % kv for kv in vals.items()))
                rp = subprocess.run([prep["exe_real"], h["func"], vf], capture_output=True, text=True, timeout=300)
                conf = [l for l in rp.stdout.splitlines() if l.startswith("CONFIRMED")]
                builtin = p not in user
                violations.append({"label": "%s: %s" % (h["func"], p.get("description", "")), "harness": h["func"], "property_id": p.get("property"),
                                   "values": vals, "confirmed": bool(conf), "replay_output": conf[:3] + [l for l in rp.stdout.splitlines() if "LIFT-SUMMARY" in l],
                                   "note": ("built-in check (pointer/overflow): not reproducible natively, triaged by reading" if builtin else ""),
                                   "unit": unit["name"]})
        samples.append({"unit": unit["name"], "harness": h["func"], "what": h.get("desc", ""), "unwind": h["unwind"], "cbmc_status": main["status"],
                        "properties_checked": nprops, "properties_failed": len(fails), "witness_reachable": wit_reach,
                        "example_properties": [p.get("description", "")[:100] for p in user[:4]]})
        summ.append({"harness": h["func"], "status": main["status"], "witness": wit["status"], "witness_reachable": wit_reach, "props": nprops,
                     "failed": len(fails), "wall_s": main["wall_s"], "witness_wall_s": wit["wall_s"], "errors": (main.get("errors") or [])[:2], "tail": main.get("tail", "")[:300]})
    internal = []
    if not val["agree"]:
        internal.append("translation validation failed: %s" % json.dumps(val["first_difference"]))
    res = {"unit": unit["name"], "engine": "LIFT-C", "obligations": obligations, "discharged": discharged, "inconclusive": inconclusive, "queries": queries,
           "solver_s": round(sum(s["wall_s"] + s["witness_wall_s"] for s in summ), 1), "complete": complete and not internal, "samples": samples,
           "labels": labels, "violations": violations, "encoded": unit.get("encoded", []) + ["IR functions: " + "; ".join(prep["ir2c_log"][:12])],
           "exe_real": prep["exe_real"], "wd": prep["wd"],
           "summary": {"harnesses": summ, "translation_validation": val, "wall_s": round(time.time() - t0, 1)}}
    if internal:
        raise RuntimeError("; ".join(internal))
    return res


def replay(pid, unit, v, path):
    prep = prepare(unit)
    vf = os.path.join(prep["wd"], "replay.values")
    open(vf, "w").write("".join("%s %s\n" % kv for kv in v.get("values", {}).items()))
    rp = subprocess.run([prep["exe_real"], v.get("harness", ""), vf], capture_output=True, text=True, timeout=300)
    print(rp.stdout[-1500:])
    if any(l.startswith("CONFIRMED") for l in rp.stdout.splitlines()):
        print("VIOLATION property=%s replay=%s" % (pid, path))
        return 1
    print("replay: no violation reproduced on the current tree")
    return 0
