"""LIFT-C engine driver (IR -> C -> CBMC)."""


def run_lift_unit(pid, unit, tier, seed, outdir):
    raise RuntimeError("LIFT-C not built yet")


def replay(pid, unit, v, path):
    return 2
