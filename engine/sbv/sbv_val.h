// SBV engine, part 2: values (concrete APInt | z3 bit-vector term | aggregate), term construction, shadow memory.
// Memory model: the interpreter works on HOST memory (the same code is also linked natively, globals/vtables/heap are
// the process's own); symbolic bytes live in a shadow map keyed by host address.
#pragma once
#include "sbv_core.h"
#include "llvm/ADT/APFloat.h"
#include "llvm/ADT/APInt.h"
#include "llvm/ADT/APSInt.h"
#include "llvm/ADT/SmallString.h"

namespace sbv
{
using llvm::APInt;

struct Val
{
    enum : uint8_t { U = 0, Cc, Sy, Ag };
    uint8_t                           k = U;
    unsigned                          w = 0;
    APInt                             c;
    int                               t = -1;
    std::shared_ptr<std::vector<Val>> a;

    bool isC() const { return k == Cc; }
    bool isS() const { return k == Sy; }
    bool isA() const { return k == Ag; }
    uint64_t u64() const { return c.getZExtValue(); }
    int64_t  s64() const { return c.getSExtValue(); }
};
inline Val VC(unsigned w, uint64_t v, bool sign = false)
{
    Val r;
    r.k = Val::Cc;
    r.w = w;
    r.c = APInt(w, v, sign);
    return r;
}
inline Val VA(const APInt& a)
{
    Val r;
    r.k = Val::Cc;
    r.w = a.getBitWidth();
    r.c = a;
    return r;
}
inline Val VS(const z3::expr& e)
{
    z3::expr s = e.simplify();
    if (s.is_numeral())
    {
        unsigned w = s.get_sort().bv_size();
        if (w <= 64) return VC(w, s.get_numeral_uint64());
        std::string d = Z3_get_numeral_string(*C, s);
        return VA(APInt(w, d, 10));
    }
    Val r;
    r.k = Val::Sy;
    r.w = s.get_sort().bv_size();
    T->push_back(s);
    r.t = (int)T->size() - 1;
    return r;
}
inline Val VAgg(std::vector<Val> v)
{
    Val r;
    r.k = Val::Ag;
    r.a = std::make_shared<std::vector<Val>>(std::move(v));
    return r;
}
inline z3::expr E(const Val& v)
{
    if (v.isS()) return (*T)[v.t];
    if (!v.isC())
    {
        fprintf(stderr, "sbv: E() of non-scalar\n");
        finish(K_CRASH, "internal: term of non-scalar value");
    }
    if (v.w <= 64) return C->bv_val((uint64_t)v.c.getZExtValue(), v.w);
    llvm::SmallString<64> s;
    v.c.toStringUnsigned(s, 10);
    return C->bv_val(s.c_str(), v.w);
}
inline z3::expr B(const Val& v) // i1 (or any width) as a boolean: value != 0
{
    if (v.isC()) return C->bool_val(!v.c.isZero());
    return (E(v) != C->bv_val(0, v.w)).simplify();
}
inline Val fromBool(const z3::expr& b)
{
    z3::expr s = b.simplify();
    if (s.is_true()) return VC(1, 1);
    if (s.is_false()) return VC(1, 0);
    return VS(z3::ite(s, C->bv_val(1, 1), C->bv_val(0, 1)));
}

// ---------------------------------------------------------------------------------------------------------------
// shadow memory: 16-byte lines
struct SByte
{
    int     t = -1; // term index (-1: concrete, host memory is authoritative)
    uint8_t b = 0;  // byte index inside the term (0 = least significant)
};
struct Line
{
    SByte e[16];
    int   n = 0;
};
inline std::unordered_map<uint64_t, Line>* shadow = nullptr;

inline bool any_sym(uint64_t a, uint64_t n)
{
    if (shadow->empty() || n == 0) return false;
    for (uint64_t l = a >> 4; l <= (a + n - 1) >> 4; ++l)
    {
        auto it = shadow->find(l);
        if (it == shadow->end()) continue;
        uint64_t lo = std::max(a, l << 4), hi = std::min(a + n, (l + 1) << 4);
        for (uint64_t x = lo; x < hi; ++x)
            if (it->second.e[x & 15].t >= 0) return true;
    }
    return false;
}
inline SByte get_sb(uint64_t a)
{
    auto it = shadow->find(a >> 4);
    if (it == shadow->end()) return SByte();
    return it->second.e[a & 15];
}
inline void set_sb(uint64_t a, SByte s)
{
    if (s.t < 0)
    {
        auto it = shadow->find(a >> 4);
        if (it == shadow->end()) return;
        SByte& o = it->second.e[a & 15];
        if (o.t >= 0)
        {
            o = SByte();
            if (--it->second.n == 0) shadow->erase(it);
        }
        return;
    }
    Line&  l = (*shadow)[a >> 4];
    SByte& o = l.e[a & 15];
    if (o.t < 0) l.n++;
    o = s;
}
inline void clear_shadow(uint64_t a, uint64_t n)
{
    if (shadow->empty() || n == 0) return;
    if (n > (1u << 20))
    {
        // large block: walk the map instead
        for (auto it = shadow->begin(); it != shadow->end();)
        {
            uint64_t base = it->first << 4;
            if (base + 16 <= a || base >= a + n)
            {
                ++it;
                continue;
            }
            for (int i = 0; i < 16; ++i)
                if (base + i >= a && base + i < a + n && it->second.e[i].t >= 0)
                {
                    it->second.e[i] = SByte();
                    it->second.n--;
                }
            if (it->second.n == 0) it = shadow->erase(it);
            else ++it;
        }
        return;
    }
    for (uint64_t x = a; x < a + n; ++x) set_sb(x, SByte());
}
inline void copy_mem(uint64_t dst, uint64_t src, uint64_t n, bool move)
{
    if (n == 0) return;
    bool ss = any_sym(src, n);
    if (!ss)
    {
        clear_shadow(dst, n);
        if (move) std::memmove((void*)dst, (void*)src, n);
        else std::memcpy((void*)dst, (void*)src, n);
        return;
    }
    std::vector<SByte> tmp(n);
    for (uint64_t i = 0; i < n; ++i) tmp[i] = get_sb(src + i);
    std::memmove((void*)dst, (void*)src, n);
    for (uint64_t i = 0; i < n; ++i) set_sb(dst + i, tmp[i]);
}

// load nbytes at concrete address as one bit-vector value of width 8*nbytes
inline Val load_bytes(uint64_t a, unsigned nbytes)
{
    unsigned w = 8 * nbytes;
    if (!any_sym(a, nbytes))
    {
        if (nbytes <= 8)
        {
            uint64_t v = 0;
            std::memcpy(&v, (void*)a, nbytes);
            return VC(w, v);
        }
        APInt r(w, 0);
        for (unsigned i = 0; i < nbytes; ++i) r.insertBits(APInt(8, *(uint8_t*)(a + i)), 8 * i);
        return VA(r);
    }
    // assemble from most significant byte down; group runs
    std::vector<z3::expr> parts; // most significant first
    int                   i = (int)nbytes - 1;
    while (i >= 0)
    {
        SByte s = get_sb(a + i);
        int   j = i;
        if (s.t < 0)
        {
            while (j - 1 >= 0 && get_sb(a + j - 1).t < 0) --j;
            // bytes j..i concrete
            unsigned cnt = i - j + 1;
            if (cnt <= 8)
            {
                uint64_t v = 0;
                std::memcpy(&v, (void*)(a + j), cnt);
                parts.push_back(C->bv_val(v, 8 * cnt));
            }
            else
            {
                for (int x = i; x >= j; --x) parts.push_back(C->bv_val((unsigned)*(uint8_t*)(a + x), 8));
            }
        }
        else
        {
            while (j - 1 >= 0)
            {
                SByte p = get_sb(a + j - 1);
                if (p.t == s.t && p.b + (i - (j - 1)) == s.b) --j;
                else break;
            }
            // bytes j..i come from term s.t, term-bytes (s.b-(i-j))..s.b
            unsigned lo = s.b - (i - j), hi = s.b;
            z3::expr te = (*T)[s.t];
            unsigned tw = te.get_sort().bv_size();
            if (lo == 0 && 8 * (hi + 1) == tw) parts.push_back(te);
            else parts.push_back(te.extract(8 * hi + 7, 8 * lo));
        }
        i = j - 1;
    }
    z3::expr r = parts[0];
    for (size_t x = 1; x < parts.size(); ++x) r = z3::concat(r, parts[x]);
    return VS(r);
}
inline void store_bytes(uint64_t a, unsigned nbytes, const Val& v)
{
    if (v.isC())
    {
        clear_shadow(a, nbytes);
        if (nbytes <= 8)
        {
            uint64_t x = v.c.getZExtValue();
            std::memcpy((void*)a, &x, nbytes);
        }
        else
        {
            for (unsigned i = 0; i < nbytes; ++i) *(uint8_t*)(a + i) = (uint8_t)v.c.extractBitsAsZExtValue(8, 8 * i);
        }
        return;
    }
    int      t  = v.t;
    unsigned tw = v.w;
    if (tw != 8 * nbytes)
    {
        // widen with zero bits (i1 stored as a byte etc.)
        Val z = VS(z3::zext(E(v), 8 * nbytes - tw));
        if (z.isC())
        {
            store_bytes(a, nbytes, z);
            return;
        }
        t = z.t;
    }
    // a concat of extracts of other terms is stored byte-wise so that partial reloads stay simple
    std::memset((void*)a, 0, nbytes);
    for (unsigned i = 0; i < nbytes; ++i)
    {
        SByte s;
        s.t = t;
        s.b = (uint8_t)i;
        set_sb(a + i, s);
    }
}
} // namespace sbv
