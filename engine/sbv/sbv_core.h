// SBV engine, part 1: shared state of the process tree, solver access, fork-based path exploration, reporting.
// (adapted from engine/sre/symrt.cpp; terms are z3 bit-vector expressions)
#pragma once
#include <atomic>
#include <cerrno>
#include <chrono>
#include <cmath>
#include <csignal>
#include <cstdint>
#include <cstdio>
#include <cstdlib>
#include <cstring>
#include <fcntl.h>
#include <map>
#include <memory>
#include <semaphore.h>
#include <string>
#include <tuple>
#include <sys/mman.h>
#include <sys/time.h>
#include <sys/wait.h>
#include <unistd.h>
#include <unordered_map>
#include <vector>
#include <z3++.h>

namespace sbv
{
constexpr int MAXLAB = 384;
constexpr int MAXSMP = 10;
struct Label
{
    char              name[160];
    std::atomic<long> checked, discharged, violated, unknown;
};
struct Shared
{
    sem_t             slots, lock;
    std::atomic<long> paths, pruned, excluded, violations, inconclusive, truncated, crashed;
    std::atomic<long> queries, q_sat, q_unsat, q_unknown, solver_us, forks, pending, started, live, maxlive;
    std::atomic<long> obligations, discharged, obl_unknown, branch_unknown, maxdepth, nsamples, stop;
    std::atomic<long> nlabels, nviolfiles, slowest_us, instructions, native_calls, ptr_merges, concretizations, race_accesses;
    Label             labels[MAXLAB];
    char              samples[MAXSMP][900];
};
inline Shared* S = nullptr;

inline z3::context*                             C = nullptr;
inline std::vector<z3::expr>*                   T = nullptr; // term table
inline std::vector<z3::expr>*                   pc = nullptr;
inline std::unique_ptr<z3::model>               mdl;
inline std::vector<pid_t>                       children;
inline std::vector<std::string>                 notes;
inline std::string                              g_config, g_out;
inline int                                      depth = 0, jobs = 1;
inline long                                     max_paths = 100000, max_viol = 3;
inline double                                   deadline = 0, query_s = 10, t_start = 0;
inline bool                                     is_root = true, have_slot = true;
inline bool                                     concrete_mode = false;
inline std::map<std::string, std::string>       replay_vals;
inline uint64_t                                 rnd_seed = 0;
inline long                                     g_icount = 0, g_race_count = 0;
inline std::map<std::string, int>               name_count;

enum { K_DONE = 0, K_PRUNED, K_EXCLUDED, K_VIOLATION, K_INCONCLUSIVE, K_TRUNCATED, K_CRASH, K_FAULT };
[[noreturn]] void finish(int kind, const char* reason);

inline double now()
{
    return std::chrono::duration<double>(std::chrono::steady_clock::now().time_since_epoch()).count();
}

inline Label* label(const char* name)
{
    long n = S->nlabels.load();
    for (long i = 0; i < n; ++i)
        if (std::strncmp(S->labels[i].name, name, sizeof(S->labels[i].name) - 1) == 0) return &S->labels[i];
    sem_wait(&S->lock);
    n = S->nlabels.load();
    for (long i = 0; i < n; ++i)
        if (std::strncmp(S->labels[i].name, name, sizeof(S->labels[i].name) - 1) == 0)
        {
            sem_post(&S->lock);
            return &S->labels[i];
        }
    Label* l = &S->labels[n < MAXLAB ? n : MAXLAB - 1];
    if (n < MAXLAB)
    {
        std::strncpy(l->name, name, sizeof(l->name) - 1);
        S->nlabels.store(n + 1);
    }
    sem_post(&S->lock);
    return l;
}
inline void add_sample(const std::string& s)
{
    long k = S->nsamples.fetch_add(1);
    if (k < MAXSMP) std::strncpy(S->samples[k], s.c_str(), sizeof(S->samples[k]) - 1);
}

inline volatile sig_atomic_t in_query = 0;
inline volatile sig_atomic_t alarms_in_query = 0;
inline void                  abandon_stuck_query();
inline void                  arm_timer(double secs);
inline void                  on_alarm(int)
{
    if (!in_query || !C) return;
    // first expiry: cooperative interrupt + grace period; second expiry: the solver does not react (bit-blasting of a large
    // floating-point term, a long polynomial step): the path is given up and counted as truncated, never as explored
    if (alarms_in_query++ == 0)
    {
        Z3_interrupt(*C);
        arm_timer(5.0);
    }
    else abandon_stuck_query();
}
struct QR
{
    z3::check_result           r;
    std::unique_ptr<z3::model> m;
};
inline void arm_timer(double secs)
{
    struct itimerval it;
    std::memset(&it, 0, sizeof it);
    it.it_value.tv_sec  = (long)secs;
    it.it_value.tv_usec = (long)((secs - (long)secs) * 1e6);
    setitimer(ITIMER_REAL, &it, nullptr);
}
inline int g_strategy = 0;
inline bool g_fp_terms = false; // floating-point terms were created: the eager pipeline goes through z3's qffp tactic // 0: smt first then sat; 1: sat only; 2: smt only
inline QR query(const z3::expr* extra1, const z3::expr* extra2 = nullptr)
{
    S->queries++;
    double t0 = now();
    QR     out;
    out.r = z3::unknown;
    // portfolio: the lazy SMT core is very fast on ite/equality structure (symbolic pointers, permutations) but can be slow
    // on arithmetic; eager bit-blasting + SAT is the reverse and heavy-tailed. Each attempt is a fresh solver.
    z3::solver q(*C);
    for (int attempt = 0; attempt < 2 && out.r == z3::unknown; ++attempt)
    {
        bool   use_smt = g_strategy == 2 || (g_strategy == 0 && (attempt == 0) != g_fp_terms);
        if (g_strategy != 0 && attempt == 1) break;
        double budget  = g_strategy == 0 ? (attempt == 0 ? (g_fp_terms ? query_s * 0.5 : std::min(3.0, query_s * 0.3)) : query_s - (now() - t0)) : query_s;
        if (budget <= 0.05) break;
        z3::tactic pre = z3::tactic(*C, "simplify") & z3::tactic(*C, "propagate-values") & z3::tactic(*C, "solve-eqs") & z3::tactic(*C, "simplify");
        q              = use_smt ? (pre & z3::tactic(*C, "smt")).mk_solver()
                         : g_fp_terms ? (pre & z3::tactic(*C, "qffp")).mk_solver()
                                      : (pre & z3::tactic(*C, "bit-blast") & z3::tactic(*C, "sat")).mk_solver();
        for (auto& a : *pc) q.add(a);
        if (extra1) q.add(*extra1);
        if (extra2) q.add(*extra2);
        in_query        = 1;
        alarms_in_query = 0;
        arm_timer(budget);
        try
        {
            out.r = q.check();
        }
        catch (z3::exception& e)
        {
            out.r = z3::unknown;
        }
        arm_timer(0);
        in_query = 0;
        if (out.r == z3::sat)
        {
            try
            {
                out.m.reset(new z3::model(q.get_model()));
            }
            catch (z3::exception&)
            {
                out.r = z3::unknown;
            }
        }
    }
    long us = (long)((now() - t0) * 1e6);
    S->solver_us += us;
    if (us > 1000000)
        if (const char* d = getenv("SBV_DUMP_SLOW"))
        {
            static int k = 0;
            std::string f = std::string(d) + "/q" + std::to_string(getpid()) + "_" + std::to_string(k++) + "_" + std::to_string(us / 1000) + "ms.smt2";
            FILE* fp = fopen(f.c_str(), "w");
            if (fp)
            {
                fputs(q.to_smt2().c_str(), fp);
                fclose(fp);
            }
        }
    long prev = S->slowest_us.load();
    while (us > prev && !S->slowest_us.compare_exchange_weak(prev, us)) {}
    if (out.r == z3::sat) S->q_sat++;
    else if (out.r == z3::unsat) S->q_unsat++;
    else S->q_unknown++;
    return out;
}
inline int model_eval_bool(const z3::expr& c)
{
    if (!mdl) return -1;
    try
    {
        z3::expr v = mdl->eval(c, true);
        if (v.is_true()) return 1;
        if (v.is_false()) return 0;
    }
    catch (z3::exception&)
    {
    }
    return -1;
}
inline void ensure_model()
{
    if (mdl) return;
    QR r = query(nullptr);
    if (r.r == z3::sat)
    {
        mdl = std::move(r.m);
        return;
    }
    if (r.r == z3::unsat) finish(K_PRUNED, "path condition infeasible");
    finish(K_INCONCLUSIVE, "solver unknown on path condition");
}
inline void add_pc(const z3::expr& c)
{
    z3::expr s = c.simplify();
    if (s.is_true()) return;
    if (s.is_false()) finish(K_PRUNED, "assumption false");
    pc->push_back(s);
    if (mdl && model_eval_bool(s) != 1) mdl.reset();
}
inline void acquire_slot()
{
    S->pending++;
    while (sem_wait(&S->slots) != 0 && errno == EINTR) {}
    S->pending--;
    have_slot = true;
    long l = ++S->live;
    long p = S->maxlive.load();
    while (l > p && !S->maxlive.compare_exchange_weak(p, l)) {}
}
inline void release_slot()
{
    if (have_slot)
    {
        have_slot = false;
        S->live--;
        sem_post(&S->slots);
    }
}
inline void budget_check()
{
    if (S->stop.load()) finish(K_TRUNCATED, "stopped");
    if (deadline > 0 && now() > deadline) finish(K_TRUNCATED, "deadline");
}

// fork: returns true in the child. The child has no slot yet (acquires one), parent keeps going.
inline bool fork_path()
{
    ++depth;
    long d = S->maxdepth.load();
    while (depth > d && !S->maxdepth.compare_exchange_weak(d, depth)) {}
    if (S->started.load() >= max_paths)
    {
        S->truncated++;
        return false;
    }
    // the exploration is over (deadline, violation limit): paths made of short runs between forks (schedule exploration) never
    // reach the instruction-count based budget check, so the fork itself ends them
    if (S->stop.load()) finish(K_TRUNCATED, "stopped");
    if (deadline > 0 && now() > deadline) finish(K_TRUNCATED, "deadline");
    S->started++;
    S->forks++;
    fflush(stdout);
    fflush(stderr);
    pid_t pid = fork();
    if (pid < 0)
    {
        S->truncated++;
        return false;
    }
    if (pid == 0)
    {
        is_root = false;
        children.clear();
        have_slot = false;
        g_icount  = 0;
        g_race_count = 0;
        acquire_slot();
        return true;
    }
    children.push_back(pid);
    if (S->pending.load() > 3 * jobs + 8)
    {
        release_slot();
        int st;
        while (waitpid(pid, &st, 0) < 0 && errno == EINTR) {}
        children.pop_back();
        acquire_slot();
    }
    return false;
}

// facts learnt on this path: term == constant (from concretisation / forced branches) and conditions implied by the path
// condition; both stay valid because the path condition only grows
inline z3::expr_vector*                  subs_from = nullptr;
inline z3::expr_vector*                  subs_to   = nullptr;
inline std::unordered_map<unsigned, int>* implied  = nullptr;
inline z3::expr_vector*                  keepalive = nullptr;
inline void learn_equal(const z3::expr& term, const z3::expr& value)
{
    if (!subs_from)
    {
        subs_from = new z3::expr_vector(*C);
        subs_to   = new z3::expr_vector(*C);
    }
    if (term.is_numeral() || term.is_true() || term.is_false()) return;
    subs_from->push_back(term);
    subs_to->push_back(value);
}
inline z3::expr apply_known(const z3::expr& e)
{
    if (!subs_from || subs_from->size() == 0) return e.simplify();
    z3::expr x = e;
    return x.substitute(*subs_from, *subs_to).simplify();
}

// returns the side this process continues on; may fork
inline int decide(const z3::expr& c0)
{
    z3::expr c = apply_known(c0);
    if (c.is_true()) return 1;
    if (c.is_false()) return 0;
    if (!implied)
    {
        implied   = new std::unordered_map<unsigned, int>;
        keepalive = new z3::expr_vector(*C);
    }
    keepalive->push_back(c); // AST ids are recycled when a term dies: cached conditions must stay alive
    {
        auto it = implied->find(c.id());
        if (it != implied->end()) return it->second;
    }
    budget_check();
    if (getenv("SBV_QLOG")) fprintf(stderr, "decide[%d]: %s\n", (int)getpid(), c.to_string().substr(0, 300).c_str());
    ensure_model();
    int v = model_eval_bool(c);
    if (v < 0)
    {
        QR rt = query(&c);
        if (rt.r == z3::sat)
        {
            mdl = std::move(rt.m);
            v   = 1;
        }
        else if (rt.r == z3::unsat)
        {
            pc->push_back(!c);
            (*implied)[c.id()] = 0;
            return 0;
        }
        else
        {
            S->branch_unknown++;
            finish(K_INCONCLUSIVE, "solver unknown on both sides of a branch");
        }
    }
    z3::expr mine  = v ? c : !c;
    z3::expr other = v ? !c : c;
    QR       ro    = query(&other);
    if (ro.r == z3::unsat)
    {
        (*implied)[c.id()] = v;
        return v;
    }
    if (ro.r == z3::unknown)
    {
        S->branch_unknown++;
        pc->push_back(mine);
        (*implied)[c.id()] = v;
        return v;
    }
    if (fork_path())
    {
        mdl = std::move(ro.m);
        pc->push_back(other);
        (*implied)[c.id()] = !v;
        learn_equal(c, C->bool_val(!v));
        return !v;
    }
    pc->push_back(mine);
    (*implied)[c.id()] = v;
    learn_equal(c, C->bool_val(v != 0));
    return v;
}

inline void json_escape(std::string& o, const std::string& s)
{
    for (char ch : s)
    {
        if (ch == '"' || ch == '\\')
        {
            o += '\\';
            o += ch;
        }
        else if (ch == '\n') o += "\\n";
        else if ((unsigned char)ch < 32) o += ' ';
        else o += ch;
    }
}
inline std::string model_json(z3::model& m)
{
    std::string o     = "{";
    bool        first = true;
    for (unsigned i = 0; i < m.size(); ++i)
    {
        z3::func_decl d = m[i];
        if (d.arity() != 0) continue;
        std::string name = d.name().str();
        z3::expr    v    = m.get_const_interp(d);
        std::string dec;
        try
        {
            dec = Z3_get_numeral_string(*C, v);
        }
        catch (z3::exception&)
        {
            dec = v.to_string();
        }
        if (!first) o += ", ";
        first = false;
        o += "\"";
        json_escape(o, name);
        o += "\": \"";
        json_escape(o, dec);
        o += "\"";
    }
    return o + "}";
}

inline void report_violation(const char* lab, z3::model* m, const std::string& what)
{
    Label* l = label(lab);
    l->checked++;
    l->violated++;
    S->obligations++;
    long k = S->nviolfiles.fetch_add(1);
    if (k < 20 && !g_out.empty())
    {
        std::string f = g_out + ".viol." + std::to_string(k) + ".json";
        std::string o = "{\n \"label\": \"";
        json_escape(o, lab);
        o += "\",\n \"config\": \"";
        json_escape(o, g_config);
        o += "\",\n \"rounding_level\": false,\n \"obligation\": \"";
        json_escape(o, what.substr(0, 3000));
        o += "\",\n \"choices\": {},\n \"notes\": [";
        for (size_t i = 0; i < notes.size(); ++i)
        {
            if (i) o += ", ";
            o += "\"";
            json_escape(o, notes[i]);
            o += "\"";
        }
        o += "],\n \"values\": ";
        o += m ? model_json(*m) : std::string("{}");
        o += "\n}\n";
        int fd = open(f.c_str(), O_WRONLY | O_CREAT | O_TRUNC, 0644);
        if (fd >= 0)
        {
            (void)!write(fd, o.data(), o.size());
            close(fd);
        }
    }
    if (S->violations.load() + 1 >= max_viol) S->stop.store(1);
    finish(K_VIOLATION, lab);
}

inline void obligation(const z3::expr& holds, const char* lab)
{
    Label*   l = label(lab);
    z3::expr h = holds.simplify();
    if (h.is_true())
    {
        l->checked++;
        l->discharged++;
        S->obligations++;
        S->discharged++;
        return;
    }
    budget_check();
    z3::expr neg = !h;
    QR       r   = query(&neg);
    if (r.r == z3::unsat)
    {
        l->checked++;
        l->discharged++;
        S->obligations++;
        S->discharged++;
        if (S->nsamples.load() < MAXSMP)
            add_sample(std::string("obligation[") + lab + "] discharged (unsat of negation) under " + std::to_string(pc->size()) +
                       " path constraints: " + h.to_string().substr(0, 500));
        return;
    }
    if (r.r == z3::unknown)
    {
        l->checked++;
        l->unknown++;
        S->obligations++;
        S->obl_unknown++;
        return;
    }
    report_violation(lab, r.m.get(), h.to_string());
}

inline std::string pc_summary()
{
    std::string s;
    for (size_t i = 0; i < pc->size() && s.size() < 400; ++i)
    {
        if (i) s += " & ";
        s += (*pc)[i].to_string().substr(0, 160);
    }
    return s;
}
inline void wait_children()
{
    int st;
    for (;;)
    {
        pid_t p = wait(&st);
        if (p < 0)
        {
            if (errno == EINTR) continue;
            break;
        }
        if (WIFSIGNALED(st)) S->crashed++;
    }
}
void write_summary();

[[noreturn]] inline void finish(int kind, const char* reason)
{
    switch (kind)
    {
    case K_DONE:
        S->paths++;
        if (S->nsamples.load() < MAXSMP / 2)
        {
            std::string s = "path done, depth " + std::to_string(depth) + ", " + std::to_string(pc->size()) + " constraints";
            for (auto& n : notes) s += "; " + n;
            s += "; pc: " + pc_summary();
            add_sample(s);
        }
        break;
    case K_PRUNED: S->pruned++; break;
    case K_EXCLUDED:
        S->excluded++;
        label((std::string("excluded: ") + reason).c_str())->checked++;
        break;
    case K_VIOLATION:
        S->paths++;
        S->violations++;
        break;
    case K_INCONCLUSIVE:
        S->inconclusive++;
        label((std::string("inconclusive: ") + reason).c_str())->checked++;
        break;
    case K_TRUNCATED: S->truncated++; break;
    case K_FAULT:
    {
        // the interpreted REAL code faulted (null dereference, division by zero, abort, uncaught exception, ...) on a feasible
        // path: reported like a violated obligation, with the path's model as the failing input (confirmed by the native replay
        // dying / throwing the same way)
        static bool in_fault = false;
        if (concrete_mode || in_fault)
        {
            S->crashed++;
            label((std::string("crash: ") + reason).c_str())->checked++;
            break;
        }
        in_fault = true;
        QR r     = query(nullptr);
        if (r.r == z3::unsat)
        {
            S->pruned++;
            break;
        }
        std::string lab = std::string("fault: ") + reason;
        Label*      l   = label(lab.c_str());
        l->checked++;
        l->violated++;
        S->obligations++;
        S->paths++;
        S->violations++;
        long k = S->nviolfiles.fetch_add(1);
        if (k < 20 && !g_out.empty())
        {
            std::string f = g_out + ".viol." + std::to_string(k) + ".json";
            std::string o = "{\n \"label\": \"";
            json_escape(o, lab);
            o += "\",\n \"config\": \"";
            json_escape(o, g_config);
            o += "\",\n \"rounding_level\": false,\n \"fault\": true,\n \"obligation\": \"the real code must not fault on this path\",\n \"choices\": {},\n \"notes\": [],\n \"values\": ";
            o += r.m ? model_json(*r.m) : std::string("{}");
            o += "\n}\n";
            int fd = open(f.c_str(), O_WRONLY | O_CREAT | O_TRUNC, 0644);
            if (fd >= 0)
            {
                (void)!write(fd, o.data(), o.size());
                close(fd);
            }
        }
        if (S->violations.load() >= max_viol) S->stop.store(1);
        break;
    }
    default:
        S->crashed++;
        label((std::string("crash: ") + reason).c_str())->checked++;
        break;
    }
    S->instructions += g_icount;
    g_icount = 0;
    S->race_accesses += g_race_count;
    g_race_count = 0;
    release_slot();
    wait_children();
    if (is_root)
    {
        write_summary();
        _exit(S->violations.load() ? 1 : 0);
    }
    _exit(0);
}

inline const char* const STUCK_LABEL = "truncated: solver ignored the interrupt (path given up)";
inline void              abandon_stuck_query()
{
    if (S)
    {
        S->truncated++;
        long n = S->nlabels.load();
        for (long i = 0; i < n; ++i)
            if (std::strcmp(S->labels[i].name, STUCK_LABEL) == 0)
            {
                S->labels[i].checked++;
                break;
            }
        if (have_slot)
        {
            have_slot = false;
            S->live--;
            sem_post(&S->slots);
        }
    }
    int st;
    while (wait(&st) > 0 || errno == EINTR) {}
    if (is_root && S)
    {
        write_summary();
        _exit(S->violations.load() ? 1 : 0);
    }
    _exit(0);
}

inline void on_crash(int sig)
{
    if (S)
    {
        S->crashed++;
        const char* nm = sig == SIGSEGV ? "crash: SIGSEGV" : sig == SIGABRT ? "crash: SIGABRT" : sig == SIGFPE ? "crash: SIGFPE" : "crash: signal";
        long        n  = S->nlabels.load();
        for (long i = 0; i < n; ++i)
            if (std::strcmp(S->labels[i].name, nm) == 0)
            {
                S->labels[i].checked++;
                break;
            }
        if (have_slot)
        {
            have_slot = false;
            S->live--;
            sem_post(&S->slots);
        }
    }
    int st;
    while (wait(&st) > 0 || errno == EINTR) {}
    if (is_root && S)
    {
        write_summary();
        _exit(S->violations.load() ? 1 : 0);
    }
    _exit(0);
}

inline void write_summary()
{
    std::string o  = "{\n";
    auto        kv = [&](const char* k, long v) { o += std::string(" \"") + k + "\": " + std::to_string(v) + ",\n"; };
    o += " \"config\": \"";
    json_escape(o, g_config);
    o += "\",\n";
    kv("paths", S->paths);
    kv("pruned", S->pruned);
    kv("excluded", S->excluded);
    kv("violations", S->violations);
    kv("inconclusive", S->inconclusive);
    kv("truncated", S->truncated);
    kv("crashed", S->crashed);
    kv("queries", S->queries);
    kv("q_sat", S->q_sat);
    kv("q_unsat", S->q_unsat);
    kv("q_unknown", S->q_unknown);
    kv("forks", S->forks);
    kv("max_depth", S->maxdepth);
    kv("max_live", S->maxlive);
    kv("obligations", S->obligations);
    kv("discharged", S->discharged);
    kv("obligations_unknown", S->obl_unknown);
    kv("branch_unknown", S->branch_unknown);
    kv("instructions_interpreted", S->instructions);
    kv("native_calls", S->native_calls);
    kv("race_accesses_checked", S->race_accesses);
    kv("symbolic_pointer_merges", S->ptr_merges);
    kv("concretizations", S->concretizations);
    kv("slowest_query_us", S->slowest_us);
    o += " \"solver_s\": " + std::to_string(S->solver_us.load() / 1e6) + ",\n";
    o += " \"wall_s\": " + std::to_string(now() - t_start) + ",\n";
    o += std::string(" \"exhaustive\": ") + ((S->truncated.load() == 0 && S->stop.load() == 0) ? "true" : "false") + ",\n";
    o += " \"labels\": [";
    long n = S->nlabels.load();
    for (long i = 0; i < n; ++i)
    {
        if (i) o += ",";
        o += "\n  {\"label\": \"";
        json_escape(o, S->labels[i].name);
        o += "\", \"checked\": " + std::to_string(S->labels[i].checked.load()) + ", \"discharged\": " + std::to_string(S->labels[i].discharged.load()) +
             ", \"violated\": " + std::to_string(S->labels[i].violated.load()) + ", \"unknown\": " + std::to_string(S->labels[i].unknown.load()) + "}";
    }
    o += "\n ],\n \"samples\": [";
    long ns = std::min<long>(S->nsamples.load(), MAXSMP);
    for (long i = 0; i < ns; ++i)
    {
        if (i) o += ",";
        o += "\n  \"";
        json_escape(o, S->samples[i]);
        o += "\"";
    }
    o += "\n ]\n}\n";
    if (g_out.empty()) (void)!write(1, o.data(), o.size());
    else
    {
        int fd = open(g_out.c_str(), O_WRONLY | O_CREAT | O_TRUNC, 0644);
        if (fd >= 0)
        {
            (void)!write(fd, o.data(), o.size());
            close(fd);
        }
    }
}

// deterministic pseudo-random values shared with sbv_native.cpp (concrete validation mode)
inline uint64_t splitmix(uint64_t x)
{
    x += 0x9e3779b97f4a7c15ULL;
    x = (x ^ (x >> 30)) * 0xbf58476d1ce4e5b9ULL;
    x = (x ^ (x >> 27)) * 0x94d049bb133111ebULL;
    return x ^ (x >> 31);
}
inline uint64_t name_hash(const std::string& name, uint64_t seed)
{
    uint64_t h = splitmix(seed ^ 0x5b5b5b5bULL);
    for (unsigned char ch : name) h = splitmix(h ^ ch);
    return h;
}
// concrete value for a named input: replay file first, else pseudo-random
inline bool replay_value(const std::string& name, uint64_t& out)
{
    auto it = replay_vals.find(name);
    if (it == replay_vals.end()) return false;
    out = std::strtoull(it->second.c_str(), nullptr, 10);
    return true;
}
inline void load_replay(const char* path)
{
    // minimal parser of the "values": {"name": "decimal", ...} object written by report_violation
    FILE* f = fopen(path, "r");
    if (!f) return;
    std::string s;
    char        buf[4096];
    size_t      n;
    while ((n = fread(buf, 1, sizeof buf, f)) > 0) s.append(buf, n);
    fclose(f);
    size_t p = s.find("\"values\"");
    if (p == std::string::npos) return;
    p = s.find('{', p);
    while (p != std::string::npos)
    {
        size_t a = s.find('"', p);
        if (a == std::string::npos) break;
        size_t b = a + 1;
        std::string key;
        while (b < s.size() && s[b] != '"')
        {
            if (s[b] == '\\') ++b;
            key += s[b++];
        }
        size_t c = s.find('"', b + 1);
        if (c == std::string::npos) break;
        size_t d = s.find('"', c + 1);
        if (d == std::string::npos) break;
        replay_vals[key] = s.substr(c + 1, d - c - 1);
        p                = d + 1;
        size_t e         = s.find_first_of(",}", p);
        if (e == std::string::npos || s[e] == '}') break;
    }
}
} // namespace sbv
