// Harness API of the SBV engine (symbolic bit-vector execution of the real LLVM IR).
// The same harness source is (a) interpreted symbolically by engine/sbv/sbv.cpp (these functions are intercepted by
// name) and (b) compiled natively against engine/sbv/sbv_native.cpp for validation (pseudo-random inputs) and replay
// of solver counter-examples.
#pragma once
#include <stddef.h>
#include <stdint.h>
#ifdef __cplusplus
extern "C"
{
#endif
    const char* sbv_config(void);                        // configuration string "k=v;k=v"
    long        sbv_cfg(const char* key, long dflt);     // integer value of a key of the configuration
    int         sbv_cfg_is(const char* key, const char* value);
    void        sbv_make_symbolic(void* p, size_t n, const char* name); // n fresh symbolic bytes (one term per call when n<=8)
    uint64_t    sbv_u64(const char* name);
    int64_t     sbv_i64(const char* name);
    int64_t     sbv_range(const char* name, int64_t lo, int64_t hi); // fresh symbolic value in [lo, hi]
    uint32_t    sbv_u32(const char* name);
    uint8_t     sbv_u8(const char* name);
    void        sbv_assume(int cond);
    void        sbv_check(int cond, const char* label); // obligation: solver must refute !cond under the path condition
    void        sbv_reach(const char* label);           // reachability witness (counted per label)
    void        sbv_out(const char* label, uint64_t v); // observable compared between interpreter and native build
    void        sbv_note(const char* text);
    void        sbv_prune(void);
    void        sbv_excluded(const char* reason);
    int         sbv_concrete(void);                     // 1 in native / concrete-interpretation mode
    int         sbv_is_symbolic(const void* p, size_t n);
    // contracts: mode 0 (default) = the intercepted function returns an arbitrary value of its contract; mode 1 = the smallest one
    // (used when the random source is irrelevant to the clause under test). name: "udist"
    void        sbv_set_contract(const char* name, int mode);
    // thread model: a visible operation without effect (lets other threads of the interpreted program run here); native: sched_yield
    void        sbv_yield(void);
    // fork-free helpers
    int         sbv_ite(int cond, int a, int b);
#ifdef __cplusplus
}
#endif
