// Native implementation of the SBV harness API: the same harness runs on the real (un-interpreted) build with
//  * pseudo-random inputs derived from (SYM_RANDOM_SEED, name)      -> validation of the interpreter (OUT lines must agree)
//  * the model values of a solver counter-example (SYM_REPLAY=file) -> confirmation of a violation on the real build
// Contracts of the interpreter (std::uniform_int_distribution) are mirrored by strong overrides reading the same names.
#include "sbv.h"
#include <sched.h>
#include <cstdio>
#include <cstdlib>
#include <cstring>
#include <map>
#include <random>
#include <string>
#include <tuple>
#include <type_traits>
#include <vector>

namespace
{
std::map<std::string, std::string> vals;
std::map<std::string, int>         name_count;
std::map<std::string, int>         contract_mode;
std::string                        config;
uint64_t                           seed   = 0;
bool                               replay = false;

uint64_t splitmix(uint64_t x)
{
    x += 0x9e3779b97f4a7c15ULL;
    x = (x ^ (x >> 30)) * 0xbf58476d1ce4e5b9ULL;
    x = (x ^ (x >> 27)) * 0x94d049bb133111ebULL;
    return x ^ (x >> 31);
}
uint64_t name_hash(const std::string& name)
{
    uint64_t h = splitmix(seed ^ 0x5b5b5b5bULL);
    for (unsigned char ch : name) h = splitmix(h ^ ch);
    return h;
}
std::string fresh_name(const std::string& stem)
{
    int k = name_count[stem]++;
    return k == 0 ? stem : stem + "#" + std::to_string(k);
}
uint64_t input(const std::string& name, unsigned w)
{
    uint64_t v;
    auto     it = vals.find(name);
    if (it != vals.end()) v = strtoull(it->second.c_str(), nullptr, 10);
    else v = replay ? 0 : name_hash(name);
    return w >= 64 ? v : (v & ((1ULL << w) - 1));
}
void load(const char* path)
{
    FILE* f = fopen(path, "r");
    if (!f) return;
    std::string s;
    char        buf[4096];
    size_t      n;
    while ((n = fread(buf, 1, sizeof buf, f)) > 0) s.append(buf, n);
    fclose(f);
    size_t p = s.find("\"values\"");
    if (p == std::string::npos) return;
    p = s.find('{', p);
    while (p != std::string::npos)
    {
        size_t a = s.find('"', p);
        if (a == std::string::npos) break;
        size_t      b = a + 1;
        std::string key;
        while (b < s.size() && s[b] != '"')
        {
            if (s[b] == '\\') ++b;
            key += s[b++];
        }
        size_t c = s.find('"', b + 1);
        if (c == std::string::npos) break;
        size_t d = s.find('"', c + 1);
        if (d == std::string::npos) break;
        vals[key] = s.substr(c + 1, d - c - 1);
        p         = d + 1;
        size_t e  = s.find_first_of(",}", p);
        if (e == std::string::npos || s[e] == '}') break;
    }
}
} // namespace

extern "C"
{
    const char* sbv_config(void) { return config.c_str(); }
    long        sbv_cfg(const char* key, long dflt)
    {
        std::string s = ";" + config + ";", k = std::string(";") + key + "=";
        size_t      p = s.find(k);
        return p == std::string::npos ? dflt : strtol(s.c_str() + p + k.size(), nullptr, 10);
    }
    int sbv_cfg_is(const char* key, const char* value)
    {
        std::string s = ";" + config + ";";
        return s.find(std::string(";") + key + "=" + value + ";") != std::string::npos;
    }
    void sbv_make_symbolic(void* p, size_t n, const char* name)
    {
        std::string nm = fresh_name(name);
        if (n == 0) return;
        if (n <= 8)
        {
            uint64_t v = input(nm, 8 * (unsigned)n);
            memcpy(p, &v, n);
        }
        else
            for (size_t i = 0; i < n; ++i) ((uint8_t*)p)[i] = (uint8_t)input(nm + "[" + std::to_string(i) + "]", 8);
    }
    uint64_t sbv_u64(const char* name) { return input(fresh_name(name), 64); }
    int64_t  sbv_i64(const char* name) { return (int64_t)input(fresh_name(name), 64); }
    uint32_t sbv_u32(const char* name) { return (uint32_t)input(fresh_name(name), 32); }
    uint8_t  sbv_u8(const char* name) { return (uint8_t)input(fresh_name(name), 8); }
    int64_t  sbv_range(const char* name, int64_t lo, int64_t hi)
    {
        std::string nm = fresh_name(name);
        auto        it = vals.find(nm);
        if (it != vals.end()) return (int64_t)strtoull(it->second.c_str(), nullptr, 10);
        if (replay) return lo;
        uint64_t span = (uint64_t)(hi - lo) + 1;
        return lo + (int64_t)(span ? name_hash(nm) % span : name_hash(nm));
    }
    void sbv_assume(int cond)
    {
        if (!cond)
        {
            printf("PRUNED\n");
            fflush(stdout);
            _Exit(0);
        }
    }
    void sbv_check(int cond, const char* label)
    {
        if (!cond) printf("CONFIRMED-VIOLATION %s\n", label);
    }
    void sbv_reach(const char*) {}
    void sbv_out(const char* label, uint64_t v) { printf("OUT %s %llu\n", label, (unsigned long long)v); }
    void sbv_note(const char*) {}
    void sbv_prune(void)
    {
        printf("PRUNED\n");
        fflush(stdout);
        _Exit(0);
    }
    void sbv_excluded(const char* r)
    {
        printf("EXCLUDED %s\n", r);
        fflush(stdout);
        _Exit(0);
    }
    int sbv_concrete(void) { return 1; }
    int sbv_is_symbolic(const void*, size_t) { return 0; }
    int sbv_ite(int c, int a, int b) { return c ? a : b; }
    void sbv_yield(void) { sched_yield(); }
    void sbv_set_contract(const char* name, int mode) { contract_mode[name] = mode; }
    void sbv_harness(const char* cfg);
}

// contract mirror: the instantiations used by libnano (the library objects have these symbols weak and not inlined)
static long draw_signed(long a, long b)
{
    if (contract_mode["udist"] == 1) return a;
    return sbv_range("udist", a, b);
}
static unsigned long draw_unsigned(unsigned long a, unsigned long b)
{
    if (contract_mode["udist"] == 1) return a;
    std::string nm = fresh_name("udist");
    auto        it = vals.find(nm);
    unsigned long r;
    if (it != vals.end()) r = strtoull(it->second.c_str(), nullptr, 10);
    else if (replay) r = a;
    else
    {
        uint64_t span = b - a + 1;
        r             = a + (span ? name_hash(nm) % span : name_hash(nm));
    }
    if (getenv("SBV_DEBUG")) fprintf(stderr, "udist %s [%lu,%lu] -> %lu\n", nm.c_str(), a, b, r);
    return r;
}
// mode 2: the draw is a function of (engine state, a, b); a std::minstd_rand engine advances by one real step
template <class tengine>
static bool draw_memo(tengine& engine, unsigned long a, unsigned long b, unsigned long*& slot)
{
    static std::map<std::tuple<unsigned long, unsigned long, unsigned long>, unsigned long> memo;
    if (contract_mode["udist"] != 2) return false;
    if constexpr (std::is_same_v<tengine, std::minstd_rand>)
    {
        unsigned long state;
        static_assert(sizeof(engine) == sizeof(state));
        std::memcpy(&state, &engine, sizeof(state));
        engine();
        const auto key = std::make_tuple(state, a, b);
        const auto it  = memo.find(key);
        if (it != memo.end())
        {
            slot = &it->second;
            return true;
        }
        slot  = &memo[key];
        *slot = b + 1; // marker: to be drawn
        return true;
    }
    else
    {
        fprintf(stderr, "udist contract mode 2 needs a std::minstd_rand engine\n");
        abort();
    }
}
#define SBV_UDIST(ENGINE)                                                                                                                  \
    template <>                                                                                                                            \
    template <>                                                                                                                            \
    long std::uniform_int_distribution<long>::operator()(ENGINE& e, const param_type& p)                                                   \
    {                                                                                                                                      \
        unsigned long* slot = nullptr;                                                                                                     \
        if (!draw_memo(e, (unsigned long)p.a(), (unsigned long)p.b(), slot)) return draw_signed(p.a(), p.b());                             \
        if (*slot == (unsigned long)p.b() + 1) *slot = (unsigned long)draw_signed(p.a(), p.b());                                           \
        return (long)*slot;                                                                                                                \
    }                                                                                                                                      \
    template <>                                                                                                                            \
    template <>                                                                                                                            \
    unsigned long std::uniform_int_distribution<unsigned long>::operator()(ENGINE& e, const param_type& p)                                 \
    {                                                                                                                                      \
        unsigned long* slot = nullptr;                                                                                                     \
        if (!draw_memo(e, p.a(), p.b(), slot)) return draw_unsigned(p.a(), p.b());                                                         \
        if (*slot == p.b() + 1) *slot = draw_unsigned(p.a(), p.b());                                                                       \
        return *slot;                                                                                                                      \
    }
// contract mirror of std::discrete_distribution: an arbitrary index of positive probability (replay: the recorded index)
static long draw_discrete(const std::vector<double>& prob)
{
    if (prob.empty()) return 0;
    std::vector<size_t> pos;
    for (size_t i = 0; i < prob.size(); ++i)
        if (prob[i] > 0.0) pos.push_back(i);
    if (pos.empty()) return 0;
    std::string nm = fresh_name("ddist");
    auto        it = vals.find(nm);
    if (it != vals.end()) return (long)strtoull(it->second.c_str(), nullptr, 10);
    if (replay) return (long)pos[0];
    return (long)pos[name_hash(nm) % pos.size()];
}
template <>
template <>
long std::discrete_distribution<long>::operator()(std::minstd_rand&, const param_type& p)
{
    return draw_discrete(p.probabilities());
}
SBV_UDIST(std::mt19937_64)
SBV_UDIST(std::minstd_rand)
SBV_UDIST(std::mt19937)

int main(int argc, char** argv)
{
    config = argc > 1 ? argv[1] : "";
    if (const char* e = getenv("SYM_RANDOM_SEED")) seed = strtoull(e, nullptr, 10);
    if (const char* e = getenv("SYM_REPLAY"))
        if (strcmp(e, "/dev/null") != 0)
        {
            replay = true;
            load(e);
        }
    try
    {
        sbv_harness(config.c_str());
    }
    catch (...)
    {
        printf("UNCAUGHT-EXCEPTION\n");
    }
    fflush(stdout);
    return 0;
}
