// SBV engine: symbolic bit-vector execution of the real code from its LLVM-14 bitcode (a KLEE-style interpreter).
//  * the harness + libnano are ALSO linked natively into this process: globals, vtables, heap and libstdc++ objects
//    are the process's own host memory; functions that have bitcode are always interpreted, functions without
//    (libstdc++.so, libc) are called natively with concrete arguments
//  * integers/pointers/bytes are concrete APInts or z3 bit-vector terms; symbolic bytes live in a shadow map
//  * a branch on a symbolic condition asks the solver which sides are feasible and fork()s the process
//  * loads/stores through a symbolic pointer are merged over the feasible targets (ite), sizes are concretised by forking
//  * obligations (sbv_check) are solver queries: path condition & !cond must be unsat
#include "sbv_val.h"
#include "sbv.h"
#include "llvm/Bitcode/BitcodeReader.h"
#include "llvm/IR/Constants.h"
#include "llvm/IR/DataLayout.h"
#include "llvm/IR/GetElementPtrTypeIterator.h"
#include "llvm/IR/InlineAsm.h"
#include "llvm/IR/InstrTypes.h"
#include "llvm/IR/Instructions.h"
#include "llvm/IR/IntrinsicInst.h"
#include "llvm/IR/LLVMContext.h"
#include "llvm/IR/Module.h"
#include "llvm/IR/Operator.h"
#include "llvm/Support/MemoryBuffer.h"
#include "llvm/Support/raw_ostream.h"
#include <cpuid.h>
#include <cxxabi.h>
#include <dlfcn.h>
#include <exception>
#include <fnmatch.h>
#include <functional>
#include <malloc.h>
#include <set>
#include <sys/single_threaded.h>
#include <typeinfo>

using namespace llvm;
using namespace sbv;

namespace
{
LLVMContext*                          Ctx;
std::vector<std::unique_ptr<Module>>  Mods;
StringMap<Function*>                  FnByName;
const DataLayout*                     DL;
std::unordered_map<uint64_t, Function*> Addr2Fn;
DenseMap<const GlobalValue*, uint64_t> GAddr;
std::set<std::string>*                native_seen;
uint64_t                              fake_next = 0x0100000000000000ULL;
int                                   merge_cap = 64;
int                                   conc_cap  = 64;
bool                                  trace     = false;

[[noreturn]] void unsupported(const std::string& what)
{
    if (getenv("SBV_VERBOSE")) fprintf(stderr, "sbv: unsupported: %s\n", what.c_str());
    finish(K_INCONCLUSIVE, ("unsupported: " + what).substr(0, 150).c_str());
}

// ---------------------------------------------------------------------------------------------------------------
struct FnInfo
{
    DenseMap<const Value*, unsigned> idx;
    unsigned                         n = 0;
};
DenseMap<const Function*, FnInfo*> FInfo;
FnInfo* info(Function* F)
{
    auto it = FInfo.find(F);
    if (it != FInfo.end()) return it->second;
    if (F->isMaterializable())
    {
        if (Error e = F->materialize())
        {
            consumeError(std::move(e));
            unsupported("cannot materialize " + F->getName().str());
        }
    }
    FnInfo* fi = new FnInfo;
    for (auto& a : F->args()) fi->idx[&a] = fi->n++;
    for (auto& bb : *F)
        for (auto& i : bb)
            if (!i.getType()->isVoidTy()) fi->idx[&i] = fi->n++;
    FInfo[F] = fi;
    return fi;
}

struct Frame
{
    Function*             F;
    FnInfo*               fi;
    BasicBlock*           bb   = nullptr;
    BasicBlock*           prev = nullptr;
    BasicBlock::iterator  ip;
    std::vector<Val>      regs;
    std::vector<std::pair<void*, uint64_t>> allocas;
    CallBase*             site = nullptr; // call instruction in the caller that created this frame
    std::vector<Val>      varargs;
};
std::vector<Frame*> stack;

struct Pending
{
    uint64_t obj = 0, tinfo = 0;
    bool     active = false;
};
Pending              pending;
std::vector<Pending> caught;
std::vector<std::exception_ptr> native_excs;

unsigned bitsOf(Type* t)
{
    if (t->isIntegerTy()) return t->getIntegerBitWidth();
    if (t->isPointerTy()) return 64;
    if (t->isFloatTy()) return 32;
    if (t->isDoubleTy()) return 64;
    if (t->isHalfTy()) return 16;
    if (t->isX86_FP80Ty()) return 80;
    if (t->isFP128Ty()) return 128;
    return 0;
}
bool isScalar(Type* t)
{
    return bitsOf(t) != 0;
}

// ---------------------------------------------------------------------------------------------------------------
// scalar operations
Val zeroOf(Type* t);
Val binop(unsigned opc, const Val& a, const Val& b);

Val zeroOf(Type* t)
{
    if (isScalar(t)) return VC(bitsOf(t), 0);
    std::vector<Val> v;
    if (auto* st = dyn_cast<StructType>(t))
        for (unsigned i = 0; i < st->getNumElements(); ++i) v.push_back(zeroOf(st->getElementType(i)));
    else if (auto* at = dyn_cast<ArrayType>(t))
        for (uint64_t i = 0; i < at->getNumElements(); ++i) v.push_back(zeroOf(at->getElementType()));
    else if (auto* vt = dyn_cast<FixedVectorType>(t))
        for (unsigned i = 0; i < vt->getNumElements(); ++i) v.push_back(zeroOf(vt->getElementType()));
    else if (t->isVoidTy() || t->isTokenTy() || t->isMetadataTy() || t->isLabelTy()) return Val();
    else unsupported("zero of type");
    return VAgg(std::move(v));
}

void div_guard(const Val& b)
{
    if (b.isC())
    {
        if (b.c.isZero()) finish(K_FAULT, "integer division by zero");
        return;
    }
    if (decide(E(b) == C->bv_val(0, b.w))) finish(K_FAULT, "integer division by zero");
}

Val binop(unsigned opc, const Val& a, const Val& b)
{
    if (a.isA() || b.isA())
    {
        std::vector<Val> r;
        for (size_t i = 0; i < a.a->size(); ++i) r.push_back(binop(opc, (*a.a)[i], (*b.a)[i]));
        return VAgg(std::move(r));
    }
    if (opc == Instruction::UDiv || opc == Instruction::SDiv || opc == Instruction::URem || opc == Instruction::SRem) div_guard(b);
    if (a.isC() && b.isC())
    {
        const APInt &x = a.c, &y = b.c;
        unsigned     w = a.w;
        switch (opc)
        {
        case Instruction::Add: return VA(x + y);
        case Instruction::Sub: return VA(x - y);
        case Instruction::Mul: return VA(x * y);
        case Instruction::UDiv: return VA(x.udiv(y));
        case Instruction::SDiv: return VA(x.sdiv(y));
        case Instruction::URem: return VA(x.urem(y));
        case Instruction::SRem: return VA(x.srem(y));
        case Instruction::Shl: return VA(y.uge(w) ? APInt(w, 0) : x.shl(y));
        case Instruction::LShr: return VA(y.uge(w) ? APInt(w, 0) : x.lshr(y));
        case Instruction::AShr: return VA(y.uge(w) ? x.ashr(w - 1) : x.ashr(y));
        case Instruction::And: return VA(x & y);
        case Instruction::Or: return VA(x | y);
        case Instruction::Xor: return VA(x ^ y);
        default: unsupported("binop");
        }
    }
    // cheap identities keep pointer arithmetic concrete-friendly
    if (opc == Instruction::Add || opc == Instruction::Or || opc == Instruction::Xor || opc == Instruction::Sub)
    {
        if (b.isC() && b.c.isZero()) return a;
        if (a.isC() && a.c.isZero() && opc != Instruction::Sub) return b;
    }
    if (opc == Instruction::Mul)
    {
        if ((a.isC() && a.c.isZero()) || (b.isC() && b.c.isZero())) return VC(a.w, 0);
        if (b.isC() && b.c.isOne()) return a;
        if (a.isC() && a.c.isOne()) return b;
    }
    if (opc == Instruction::And)
    {
        if ((a.isC() && a.c.isZero()) || (b.isC() && b.c.isZero())) return VC(a.w, 0);
    }
    z3::expr x = E(a), y = E(b);
    switch (opc)
    {
    case Instruction::Add: return VS(x + y);
    case Instruction::Sub: return VS(x - y);
    case Instruction::Mul: return VS(x * y);
    case Instruction::UDiv: return VS(z3::udiv(x, y));
    case Instruction::SDiv: return VS(x / y);
    case Instruction::URem: return VS(z3::urem(x, y));
    case Instruction::SRem: return VS(z3::srem(x, y));
    case Instruction::Shl: return VS(z3::shl(x, y));
    case Instruction::LShr: return VS(z3::lshr(x, y));
    case Instruction::AShr: return VS(z3::ashr(x, y));
    case Instruction::And: return VS(x & y);
    case Instruction::Or: return VS(x | y);
    case Instruction::Xor: return VS(x ^ y);
    default: unsupported("binop");
    }
}

Val icmp(unsigned pred, const Val& a, const Val& b)
{
    if (a.isA())
    {
        std::vector<Val> r;
        for (size_t i = 0; i < a.a->size(); ++i) r.push_back(icmp(pred, (*a.a)[i], (*b.a)[i]));
        return VAgg(std::move(r));
    }
    if (a.isC() && b.isC())
    {
        const APInt &x = a.c, &y = b.c;
        bool         r = false;
        switch (pred)
        {
        case CmpInst::ICMP_EQ: r = x == y; break;
        case CmpInst::ICMP_NE: r = x != y; break;
        case CmpInst::ICMP_UGT: r = x.ugt(y); break;
        case CmpInst::ICMP_UGE: r = x.uge(y); break;
        case CmpInst::ICMP_ULT: r = x.ult(y); break;
        case CmpInst::ICMP_ULE: r = x.ule(y); break;
        case CmpInst::ICMP_SGT: r = x.sgt(y); break;
        case CmpInst::ICMP_SGE: r = x.sge(y); break;
        case CmpInst::ICMP_SLT: r = x.slt(y); break;
        case CmpInst::ICMP_SLE: r = x.sle(y); break;
        }
        return VC(1, r);
    }
    z3::expr x = E(a), y = E(b);
    switch (pred)
    {
    case CmpInst::ICMP_EQ: return fromBool(x == y);
    case CmpInst::ICMP_NE: return fromBool(x != y);
    case CmpInst::ICMP_UGT: return fromBool(z3::ugt(x, y));
    case CmpInst::ICMP_UGE: return fromBool(z3::uge(x, y));
    case CmpInst::ICMP_ULT: return fromBool(z3::ult(x, y));
    case CmpInst::ICMP_ULE: return fromBool(z3::ule(x, y));
    case CmpInst::ICMP_SGT: return fromBool(x > y);
    case CmpInst::ICMP_SGE: return fromBool(x >= y);
    case CmpInst::ICMP_SLT: return fromBool(x < y);
    default: return fromBool(x <= y);
    }
}

// ---------------------------------------------------------------------------------------------------------------
// symbolic floating point: values stay IEEE bit patterns (bit-vector terms); every operation goes through z3's FP theory
// (bit-precise, round-to-nearest-even). NaN payloads produced by operations are z3's canonical NaN (hardware may differ).
bool g_has_fp = false;
z3::sort fpSort(Type* t)
{
    if (t->isDoubleTy()) return z3::sort(*C, Z3_mk_fpa_sort_double(*C));
    if (t->isFloatTy()) return z3::sort(*C, Z3_mk_fpa_sort_single(*C));
    if (t->isHalfTy()) return z3::sort(*C, Z3_mk_fpa_sort_half(*C));
    unsupported("symbolic floating point of this width");
}
std::unordered_map<int, int>* fp_of_term = nullptr; // term-table index of an IEEE bit pattern -> index of the FP-sorted term it encodes
std::vector<z3::expr>*        fp_terms   = nullptr;
z3::expr toFP(const Val& v, Type* t)
{
    g_has_fp = g_fp_terms = true;
    if (v.isS() && fp_of_term)
    {
        auto it = fp_of_term->find(v.t);
        if (it != fp_of_term->end()) return (*fp_terms)[it->second];
    }
    return z3::expr(*C, Z3_mk_fpa_to_fp_bv(*C, E(v), fpSort(t)));
}
Val fromFP(const z3::expr& f)
{
    Val r = VS(z3::expr(*C, Z3_mk_fpa_to_ieee_bv(*C, f)));
    if (r.isS())
    {
        // chained operations use the FP-sorted term directly (no to_ieee_bv / to_fp round trip in the formula)
        if (!fp_of_term)
        {
            fp_of_term = new std::unordered_map<int, int>;
            fp_terms   = new std::vector<z3::expr>;
        }
        fp_terms->push_back(f);
        (*fp_of_term)[r.t] = (int)fp_terms->size() - 1;
    }
    return r;
}
z3::expr RM(int mode) // 0 RNE, 1 RTN (floor), 2 RTP (ceil), 3 RTZ, 4 RNA
{
    switch (mode)
    {
    case 1: return z3::expr(*C, Z3_mk_fpa_rtn(*C));
    case 2: return z3::expr(*C, Z3_mk_fpa_rtp(*C));
    case 3: return z3::expr(*C, Z3_mk_fpa_rtz(*C));
    case 4: return z3::expr(*C, Z3_mk_fpa_rna(*C));
    default: return z3::expr(*C, Z3_mk_fpa_rne(*C));
    }
}
bool symfp_ok(Type* t)
{
    return t->isDoubleTy() || t->isFloatTy();
}

const fltSemantics& semOf(Type* t)
{
    return t->getFltSemantics();
}
APFloat toF(const Val& v, Type* t)
{
    if (!v.isC()) unsupported("floating-point operation on a symbolic value");
    return APFloat(semOf(t), v.c);
}
Val fromF(const APFloat& f)
{
    return VA(f.bitcastToAPInt());
}
double toD(const Val& v, Type* t)
{
    if (!v.isC()) unsupported("floating-point operation on a symbolic value");
    if (t->isDoubleTy()) return v.c.bitsToDouble();
    if (t->isFloatTy()) return (double)v.c.bitsToFloat();
    APFloat f(semOf(t), v.c);
    bool    li;
    f.convert(APFloat::IEEEdouble(), APFloat::rmNearestTiesToEven, &li);
    return f.convertToDouble();
}
Val fromD(double d, Type* t)
{
    if (t->isDoubleTy()) return VA(APInt::doubleToBits(d));
    if (t->isFloatTy()) return VA(APInt::floatToBits((float)d));
    APFloat f(d);
    bool    li;
    f.convert(semOf(t), APFloat::rmNearestTiesToEven, &li);
    return fromF(f);
}
Val fbin(unsigned opc, const Val& a, const Val& b, Type* t)
{
    if (a.isA())
    {
        std::vector<Val> r;
        Type*            et = cast<FixedVectorType>(t)->getElementType();
        for (size_t i = 0; i < a.a->size(); ++i) r.push_back(fbin(opc, (*a.a)[i], (*b.a)[i], et));
        return VAgg(std::move(r));
    }
    if ((a.isS() || b.isS()) && symfp_ok(t))
    {
        z3::expr x = toFP(a, t), y = toFP(b, t), rm = RM(0);
        switch (opc)
        {
        case Instruction::FAdd: return fromFP(z3::expr(*C, Z3_mk_fpa_add(*C, rm, x, y)));
        case Instruction::FSub: return fromFP(z3::expr(*C, Z3_mk_fpa_sub(*C, rm, x, y)));
        case Instruction::FMul: return fromFP(z3::expr(*C, Z3_mk_fpa_mul(*C, rm, x, y)));
        case Instruction::FDiv: return fromFP(z3::expr(*C, Z3_mk_fpa_div(*C, rm, x, y)));
        default: unsupported("frem on a symbolic value");
        }
    }
    if (t->isDoubleTy())
    {
        double x = toD(a, t), y = toD(b, t), r = 0;
        switch (opc)
        {
        case Instruction::FAdd: r = x + y; break;
        case Instruction::FSub: r = x - y; break;
        case Instruction::FMul: r = x * y; break;
        case Instruction::FDiv: r = x / y; break;
        case Instruction::FRem: r = std::fmod(x, y); break;
        }
        return fromD(r, t);
    }
    if (t->isFloatTy())
    {
        if (!a.isC() || !b.isC()) unsupported("floating-point operation on a symbolic value");
        float x = a.c.bitsToFloat(), y = b.c.bitsToFloat(), r = 0;
        switch (opc)
        {
        case Instruction::FAdd: r = x + y; break;
        case Instruction::FSub: r = x - y; break;
        case Instruction::FMul: r = x * y; break;
        case Instruction::FDiv: r = x / y; break;
        case Instruction::FRem: r = std::fmod(x, y); break;
        }
        return VA(APInt::floatToBits(r));
    }
    APFloat x = toF(a, t), y = toF(b, t);
    switch (opc)
    {
    case Instruction::FAdd: x.add(y, APFloat::rmNearestTiesToEven); break;
    case Instruction::FSub: x.subtract(y, APFloat::rmNearestTiesToEven); break;
    case Instruction::FMul: x.multiply(y, APFloat::rmNearestTiesToEven); break;
    case Instruction::FDiv: x.divide(y, APFloat::rmNearestTiesToEven); break;
    case Instruction::FRem: x.mod(y); break;
    }
    return fromF(x);
}
Val fcmp(unsigned pred, const Val& a, const Val& b, Type* t)
{
    if (a.isA())
    {
        std::vector<Val> r;
        Type*            et = cast<FixedVectorType>(t)->getElementType();
        for (size_t i = 0; i < a.a->size(); ++i) r.push_back(fcmp(pred, (*a.a)[i], (*b.a)[i], et));
        return VAgg(std::move(r));
    }
    if ((a.isS() || b.isS()) && symfp_ok(t))
    {
        z3::expr x = toFP(a, t), y = toFP(b, t);
        z3::expr un = z3::expr(*C, Z3_mk_fpa_is_nan(*C, x)) || z3::expr(*C, Z3_mk_fpa_is_nan(*C, y));
        z3::expr eq = z3::expr(*C, Z3_mk_fpa_eq(*C, x, y)), lt = z3::expr(*C, Z3_mk_fpa_lt(*C, x, y)), gt = z3::expr(*C, Z3_mk_fpa_gt(*C, x, y));
        switch (pred)
        {
        case CmpInst::FCMP_FALSE: return VC(1, 0);
        case CmpInst::FCMP_OEQ: return fromBool(eq);
        case CmpInst::FCMP_OGT: return fromBool(gt);
        case CmpInst::FCMP_OGE: return fromBool(gt || eq);
        case CmpInst::FCMP_OLT: return fromBool(lt);
        case CmpInst::FCMP_OLE: return fromBool(lt || eq);
        case CmpInst::FCMP_ONE: return fromBool(lt || gt);
        case CmpInst::FCMP_ORD: return fromBool(!un);
        case CmpInst::FCMP_UNO: return fromBool(un);
        case CmpInst::FCMP_UEQ: return fromBool(un || eq);
        case CmpInst::FCMP_UGT: return fromBool(un || gt);
        case CmpInst::FCMP_UGE: return fromBool(un || gt || eq);
        case CmpInst::FCMP_ULT: return fromBool(un || lt);
        case CmpInst::FCMP_ULE: return fromBool(un || lt || eq);
        case CmpInst::FCMP_UNE: return fromBool(un || lt || gt);
        default: return VC(1, 1);
        }
    }
    APFloat            x = toF(a, t), y = toF(b, t);
    APFloat::cmpResult c = x.compare(y);
    bool               un = c == APFloat::cmpUnordered, eq = c == APFloat::cmpEqual, lt = c == APFloat::cmpLessThan, gt = c == APFloat::cmpGreaterThan;
    bool               r = false;
    switch (pred)
    {
    case CmpInst::FCMP_FALSE: r = false; break;
    case CmpInst::FCMP_OEQ: r = eq; break;
    case CmpInst::FCMP_OGT: r = gt; break;
    case CmpInst::FCMP_OGE: r = gt || eq; break;
    case CmpInst::FCMP_OLT: r = lt; break;
    case CmpInst::FCMP_OLE: r = lt || eq; break;
    case CmpInst::FCMP_ONE: r = lt || gt; break;
    case CmpInst::FCMP_ORD: r = !un; break;
    case CmpInst::FCMP_UNO: r = un; break;
    case CmpInst::FCMP_UEQ: r = un || eq; break;
    case CmpInst::FCMP_UGT: r = un || gt; break;
    case CmpInst::FCMP_UGE: r = un || gt || eq; break;
    case CmpInst::FCMP_ULT: r = un || lt; break;
    case CmpInst::FCMP_ULE: r = un || lt || eq; break;
    case CmpInst::FCMP_UNE: r = un || lt || gt; break;
    case CmpInst::FCMP_TRUE: r = true; break;
    }
    return VC(1, r);
}

uint64_t concretize(const Val& v, const char* what);
bool     fp2int_eager = true;
// integers derived from symbolic floating point are typically sizes / indices / positions: they are made concrete at once by
// forking over their feasible values, so that the floating-point constraints are solved once per value and not in every later query
Val fp2int(const Val& v)
{
    if (!fp2int_eager || !v.isS()) return v;
    return VC(v.w, concretize(v, "integer converted from symbolic floating point"));
}
Val castv(unsigned opc, const Val& v, Type* from, Type* to)
{
    if (v.isA())
    {
        std::vector<Val> r;
        if (opc == Instruction::BitCast && !to->isVectorTy())
        {
            // vector -> scalar bitcast: concatenate (little endian: element 0 lowest)
            Val acc = (*v.a)[0];
            for (size_t i = 1; i < v.a->size(); ++i)
            {
                const Val& e = (*v.a)[i];
                if (acc.isC() && e.isC()) acc = VA(e.c.concat(acc.c));
                else acc = VS(z3::concat(E(e), E(acc)));
            }
            return acc;
        }
        Type *fe = cast<FixedVectorType>(from)->getElementType(), *te = cast<FixedVectorType>(to)->getElementType();
        if (opc == Instruction::BitCast && bitsOf(fe) != bitsOf(te)) unsupported("vector bitcast with element size change");
        for (auto& e : *v.a) r.push_back(castv(opc, e, fe, te));
        return VAgg(std::move(r));
    }
    unsigned tw = bitsOf(to);
    switch (opc)
    {
    case Instruction::Trunc: return v.isC() ? VA(v.c.trunc(tw)) : VS(E(v).extract(tw - 1, 0));
    case Instruction::ZExt: return v.isC() ? VA(v.c.zext(tw)) : VS(z3::zext(E(v), tw - v.w));
    case Instruction::SExt: return v.isC() ? VA(v.c.sext(tw)) : VS(z3::sext(E(v), tw - v.w));
    case Instruction::PtrToInt:
    case Instruction::IntToPtr:
        if (tw == v.w) return v;
        if (tw < v.w) return v.isC() ? VA(v.c.trunc(tw)) : VS(E(v).extract(tw - 1, 0));
        return v.isC() ? VA(v.c.zext(tw)) : VS(z3::zext(E(v), tw - v.w));
    case Instruction::BitCast:
    case Instruction::AddrSpaceCast:
        if (to->isVectorTy())
        {
            auto*            vt = cast<FixedVectorType>(to);
            unsigned         ew = bitsOf(vt->getElementType());
            std::vector<Val> r;
            for (unsigned i = 0; i < vt->getNumElements(); ++i)
                r.push_back(v.isC() ? VA(v.c.extractBits(ew, i * ew)) : VS(E(v).extract(i * ew + ew - 1, i * ew)));
            return VAgg(std::move(r));
        }
        return v;
    case Instruction::FPToUI:
    case Instruction::FPToSI:
    {
        if (v.isS() && symfp_ok(from))
        {
            z3::expr f = toFP(v, from);
            return fp2int(VS(z3::expr(*C, opc == Instruction::FPToSI ? Z3_mk_fpa_to_sbv(*C, RM(3), f, tw) : Z3_mk_fpa_to_ubv(*C, RM(3), f, tw))));
        }
        APFloat f = toF(v, from);
        APSInt  r(tw, opc == Instruction::FPToUI);
        bool    exact;
        f.convertToInteger(r, APFloat::rmTowardZero, &exact);
        return VA(r);
    }
    case Instruction::UIToFP:
    case Instruction::SIToFP:
    {
        if (!v.isC())
        {
            if (!symfp_ok(to)) unsupported("int->fp conversion of a symbolic value to this type");
            g_has_fp = g_fp_terms = true;
            return fromFP(z3::expr(*C, opc == Instruction::SIToFP ? Z3_mk_fpa_to_fp_signed(*C, RM(0), E(v), fpSort(to)) : Z3_mk_fpa_to_fp_unsigned(*C, RM(0), E(v), fpSort(to))));
        }
        APFloat f(semOf(to));
        f.convertFromAPInt(v.c, opc == Instruction::SIToFP, APFloat::rmNearestTiesToEven);
        return fromF(f);
    }
    case Instruction::FPTrunc:
    case Instruction::FPExt:
    {
        if (v.isS() && symfp_ok(from) && symfp_ok(to)) return fromFP(z3::expr(*C, Z3_mk_fpa_to_fp_float(*C, RM(0), toFP(v, from), fpSort(to))));
        APFloat f = toF(v, from);
        bool    li;
        f.convert(semOf(to), APFloat::rmNearestTiesToEven, &li);
        return fromF(f);
    }
    default: unsupported("cast");
    }
}

Val selectv(const Val& c, const Val& a, const Val& b)
{
    if (c.isA())
    {
        std::vector<Val> r;
        for (size_t i = 0; i < c.a->size(); ++i) r.push_back(selectv((*c.a)[i], (*a.a)[i], (*b.a)[i]));
        return VAgg(std::move(r));
    }
    if (c.isC()) return c.c.isZero() ? b : a;
    if (a.isA())
    {
        std::vector<Val> r;
        for (size_t i = 0; i < a.a->size(); ++i) r.push_back(selectv(c, (*a.a)[i], (*b.a)[i]));
        return VAgg(std::move(r));
    }
    if (a.k == Val::U) return b;
    if (b.k == Val::U) return a;
    return VS(z3::ite(B(c), E(a), E(b)));
}

// ---------------------------------------------------------------------------------------------------------------
// feasible values of a term (bounded enumeration by blocking clauses)
std::vector<uint64_t> feasible_values(const z3::expr& e, int cap, bool& complete)
{
    std::vector<uint64_t> out;
    complete = false;
    budget_check();
    z3::expr block = C->bool_val(true);
    for (int i = 0; i <= cap; ++i)
    {
        QR r = query(&block);
        if (r.r == z3::unsat)
        {
            complete = true;
            return out;
        }
        if (r.r != z3::sat) return out;
        if ((int)out.size() == cap) return out;
        z3::expr v = r.m->eval(e, true);
        uint64_t x = v.get_numeral_uint64();
        out.push_back(x);
        block = block && (e != C->bv_val(x, e.get_sort().bv_size()));
        if (i == 0 && !mdl) mdl = std::move(r.m);
    }
    return out;
}

// make a value concrete by forking over its feasible values
uint64_t concretize(const Val& v, const char* what)
{
    if (v.isC()) return v.u64();
    z3::expr e = apply_known(E(v));
    if (e.is_numeral()) return e.get_numeral_uint64();
    S->concretizations++;
    int      n = 0;
    for (;;)
    {
        budget_check();
        ensure_model();
        z3::expr mv = mdl->eval(e, true);
        uint64_t x  = mv.get_numeral_uint64();
        z3::expr eq = (e == C->bv_val(x, v.w));
        z3::expr ne = !eq;
        QR       ro = query(&ne);
        if (ro.r == z3::unsat)
        {
            learn_equal(e, C->bv_val(x, v.w));
            return x;
        }
        if (ro.r == z3::unknown)
        {
            S->branch_unknown++;
            pc->push_back(eq);
            return x;
        }
        if (++n > conc_cap) finish(K_INCONCLUSIVE, (std::string("too many values when concretising ") + what).c_str());
        if (fork_path())
        {
            // child continues the enumeration with e != x
            mdl = std::move(ro.m);
            pc->push_back(ne);
            continue;
        }
        pc->push_back(eq);
        learn_equal(e, C->bv_val(x, v.w));
        return x;
    }
}

// live heap blocks and stack slots with exact bounds (used to bound what a native callee can reach through a pointer argument)
std::map<uint64_t, uint64_t>* live_blocks = nullptr;
// freed heap blocks (see the free() intercept)
std::map<uint64_t, uint64_t>* quarantine       = nullptr;
uint64_t                      quarantine_bytes = 0;
inline void check_freed(uint64_t a)
{
    if (quarantine->empty()) return;
    auto it = quarantine->upper_bound(a);
    if (it == quarantine->begin()) return;
    --it;
    if (a < it->first + it->second) label("memory: access to a freed heap block (reads 0xDD poison)")->checked++;
}

#include "sbv_race.inc"

// ---------------------------------------------------------------------------------------------------------------
// typed memory access
void  store_val(uint64_t a, Type* t, const Val& v);
Val   load_val(uint64_t a, Type* t)
{
    if (isScalar(t))
    {
        unsigned w  = bitsOf(t);
        unsigned nb = (unsigned)DL->getTypeStoreSize(t);
        if (a < 4096) finish(K_FAULT, "null pointer dereference (load)");
        check_freed(a);
        RACE_READ(a, nb);
        Val r = load_bytes(a, nb);
        if (8 * nb != w) r = r.isC() ? VA(r.c.trunc(w)) : VS(E(r).extract(w - 1, 0));
        return r;
    }
    std::vector<Val> v;
    if (auto* st = dyn_cast<StructType>(t))
    {
        const StructLayout* sl = DL->getStructLayout(st);
        for (unsigned i = 0; i < st->getNumElements(); ++i) v.push_back(load_val(a + sl->getElementOffset(i), st->getElementType(i)));
    }
    else if (auto* at = dyn_cast<ArrayType>(t))
    {
        uint64_t es = DL->getTypeAllocSize(at->getElementType());
        for (uint64_t i = 0; i < at->getNumElements(); ++i) v.push_back(load_val(a + i * es, at->getElementType()));
    }
    else if (auto* vt = dyn_cast<FixedVectorType>(t))
    {
        uint64_t es = DL->getTypeStoreSize(vt->getElementType());
        for (unsigned i = 0; i < vt->getNumElements(); ++i) v.push_back(load_val(a + i * es, vt->getElementType()));
    }
    else unsupported("load of type");
    return VAgg(std::move(v));
}
void store_val(uint64_t a, Type* t, const Val& v)
{
    if (isScalar(t))
    {
        unsigned nb = (unsigned)DL->getTypeStoreSize(t);
        if (a < 4096) finish(K_FAULT, "null pointer dereference (store)");
        check_freed(a);
        if (v.k == Val::U)
        {
            return; // store of undef: leave memory as is
        }
        RACE_WRITE(a, nb);
        if (v.isC() && v.w != 8 * nb) store_bytes(a, nb, VA(v.c.zext(8 * nb)));
        else store_bytes(a, nb, v);
        return;
    }
    if (v.k == Val::U) return;
    if (auto* st = dyn_cast<StructType>(t))
    {
        const StructLayout* sl = DL->getStructLayout(st);
        for (unsigned i = 0; i < st->getNumElements(); ++i) store_val(a + sl->getElementOffset(i), st->getElementType(i), (*v.a)[i]);
    }
    else if (auto* at = dyn_cast<ArrayType>(t))
    {
        uint64_t es = DL->getTypeAllocSize(at->getElementType());
        for (uint64_t i = 0; i < at->getNumElements(); ++i) store_val(a + i * es, at->getElementType(), (*v.a)[i]);
    }
    else if (auto* vt = dyn_cast<FixedVectorType>(t))
    {
        uint64_t es = DL->getTypeStoreSize(vt->getElementType());
        for (unsigned i = 0; i < vt->getNumElements(); ++i) store_val(a + i * es, vt->getElementType(), (*v.a)[i]);
    }
    else unsupported("store of type");
}

// symbolic pointer: merge over the feasible targets
Val load_sym(const Val& p, Type* t)
{
    if (p.isC()) return load_val(p.u64(), t);
    bool     complete;
    z3::expr pe   = apply_known(E(p));
    if (pe.is_numeral()) return load_val(pe.get_numeral_uint64(), t);
    S->ptr_merges++;
    auto     vals = feasible_values(pe, merge_cap, complete);
    if (!complete) finish(K_INCONCLUSIVE, "symbolic pointer with too many targets (load)");
    if (vals.empty()) finish(K_PRUNED, "infeasible");
    Val r = load_val(vals.back(), t);
    for (int i = (int)vals.size() - 2; i >= 0; --i) r = selectv(fromBool(pe == C->bv_val(vals[i], 64)), load_val(vals[i], t), r);
    return r;
}
void store_sym(const Val& p, Type* t, const Val& v)
{
    if (p.isC())
    {
        store_val(p.u64(), t, v);
        return;
    }
    bool     complete;
    z3::expr pe   = apply_known(E(p));
    if (pe.is_numeral())
    {
        store_val(pe.get_numeral_uint64(), t, v);
        return;
    }
    S->ptr_merges++;
    auto     vals = feasible_values(pe, merge_cap, complete);
    if (!complete) finish(K_INCONCLUSIVE, "symbolic pointer with too many targets (store)");
    if (vals.size() == 1)
    {
        store_val(vals[0], t, v);
        return;
    }
    for (uint64_t a : vals)
    {
        Val old = load_val(a, t);
        store_val(a, t, selectv(fromBool(pe == C->bv_val(a, 64)), v, old));
    }
}

// ---------------------------------------------------------------------------------------------------------------
// constants and globals
Val      constVal(Constant* c);
uint64_t faddr(Function* F);

void init_global_mem(uint64_t a, Constant* c)
{
    Type* t = c->getType();
    if (isa<ConstantAggregateZero>(c) || isa<UndefValue>(c))
    {
        return; // memory is calloc'ed
    }
    if (auto* cds = dyn_cast<ConstantDataSequential>(c))
    {
        StringRef raw = cds->getRawDataValues();
        std::memcpy((void*)a, raw.data(), raw.size());
        return;
    }
    if (auto* cs = dyn_cast<ConstantStruct>(c))
    {
        const StructLayout* sl = DL->getStructLayout(cs->getType());
        for (unsigned i = 0; i < cs->getNumOperands(); ++i) init_global_mem(a + sl->getElementOffset(i), cs->getOperand(i));
        return;
    }
    if (auto* ca = dyn_cast<ConstantArray>(c))
    {
        uint64_t es = DL->getTypeAllocSize(ca->getType()->getElementType());
        for (unsigned i = 0; i < ca->getNumOperands(); ++i) init_global_mem(a + i * es, ca->getOperand(i));
        return;
    }
    if (auto* cv = dyn_cast<ConstantVector>(c))
    {
        uint64_t es = DL->getTypeStoreSize(cv->getType()->getElementType());
        for (unsigned i = 0; i < cv->getNumOperands(); ++i) init_global_mem(a + i * es, cv->getOperand(i));
        return;
    }
    Val v = constVal(c);
    store_val(a, t, v);
}

uint64_t gaddr(GlobalVariable* g)
{
    auto it = GAddr.find(g);
    if (it != GAddr.end()) return it->second;
    uint64_t a = 0;
    if (g->getName() == "__dso_handle")
    {
        static uint64_t dummy_dso[2];
        GAddr[g] = (uint64_t)&dummy_dso[0];
        return GAddr[g];
    }
    if (!g->hasLocalLinkage())
    {
        a = (uint64_t)dlsym(RTLD_DEFAULT, g->getName().str().c_str());
    }
    if (!a)
    {
        if (g->isDeclaration())
        {
            // declaration in this module; maybe defined (with local copy semantics) in another loaded module
            for (auto& m : Mods)
                if (GlobalVariable* d = m->getGlobalVariable(g->getName(), true))
                    if (!d->isDeclaration() && d != g)
                    {
                        a        = gaddr(d);
                        GAddr[g] = a;
                        return a;
                    }
            unsupported("unresolved global " + g->getName().str());
        }
        Type*    t  = g->getValueType();
        uint64_t sz = std::max<uint64_t>(DL->getTypeAllocSize(t), 1);
        void*    p  = nullptr;
        if (posix_memalign(&p, 64, (sz + 63) & ~63ULL)) finish(K_CRASH, "out of memory");
        std::memset(p, 0, sz);
        a        = (uint64_t)p;
        GAddr[g] = a;
        if (g->isThreadLocal()) race_tls[a] = sz;
        if (g->hasInitializer()) init_global_mem(a, g->getInitializer());
        return a;
    }
    GAddr[g] = a;
    if (g->isThreadLocal()) race_tls[a] = std::max<uint64_t>(DL->getTypeAllocSize(g->getValueType()), 1);
    return a;
}
uint64_t faddr(Function* F)
{
    auto it = GAddr.find(F);
    if (it != GAddr.end()) return it->second;
    uint64_t a = 0;
    if (!F->hasLocalLinkage()) a = (uint64_t)dlsym(RTLD_DEFAULT, F->getName().str().c_str());
    if (!a)
    {
        a = fake_next;
        fake_next += 16;
    }
    GAddr[F] = a;
    if (!F->isDeclaration()) Addr2Fn[a] = F;
    else
    {
        auto d = FnByName.find(F->getName());
        if (d != FnByName.end()) Addr2Fn[a] = d->second;
    }
    return a;
}

Val gepOffset(Val base, Type* srcTy, ArrayRef<Val> idx, gep_type_iterator gi, gep_type_iterator ge)
{
    Val      acc = base;
    unsigned k   = 0;
    for (; gi != ge; ++gi, ++k)
    {
        const Val& iv = idx[k];
        if (StructType* st = gi.getStructTypeOrNull())
        {
            uint64_t off = DL->getStructLayout(st)->getElementOffset((unsigned)iv.u64());
            acc          = binop(Instruction::Add, acc, VC(64, off));
        }
        else
        {
            uint64_t es = DL->getTypeAllocSize(gi.getIndexedType());
            Val      i64v = iv;
            if (iv.w < 64) i64v = iv.isC() ? VA(iv.c.sext(64)) : VS(z3::sext(E(iv), 64 - iv.w));
            else if (iv.w > 64) i64v = iv.isC() ? VA(iv.c.trunc(64)) : VS(E(iv).extract(63, 0));
            acc = binop(Instruction::Add, acc, binop(Instruction::Mul, i64v, VC(64, es)));
        }
    }
    return acc;
}

Val constExpr(ConstantExpr* ce)
{
    unsigned opc = ce->getOpcode();
    if (opc == Instruction::GetElementPtr)
    {
        auto*            go = cast<GEPOperator>(ce);
        Val              b  = constVal(cast<Constant>(go->getPointerOperand()));
        std::vector<Val> idx;
        for (auto it = go->idx_begin(); it != go->idx_end(); ++it) idx.push_back(constVal(cast<Constant>(*it)));
        return gepOffset(b, go->getSourceElementType(), idx, gep_type_begin(go), gep_type_end(go));
    }
    if (Instruction::isCast(opc)) return castv(opc, constVal(ce->getOperand(0)), ce->getOperand(0)->getType(), ce->getType());
    if (Instruction::isBinaryOp(opc)) return binop(opc, constVal(ce->getOperand(0)), constVal(ce->getOperand(1)));
    if (opc == Instruction::ICmp) return icmp(ce->getPredicate(), constVal(ce->getOperand(0)), constVal(ce->getOperand(1)));
    if (opc == Instruction::Select) return selectv(constVal(ce->getOperand(0)), constVal(ce->getOperand(1)), constVal(ce->getOperand(2)));
    unsupported(std::string("constant expression ") + ce->getOpcodeName());
}

Val constVal(Constant* c)
{
    if (auto* ci = dyn_cast<ConstantInt>(c)) return VA(ci->getValue());
    if (auto* cf = dyn_cast<ConstantFP>(c)) return VA(cf->getValueAPF().bitcastToAPInt());
    if (isa<ConstantPointerNull>(c)) return VC(64, 0);
    if (auto* g = dyn_cast<GlobalVariable>(c)) return VC(64, gaddr(g));
    if (auto* f = dyn_cast<Function>(c)) return VC(64, faddr(f));
    if (auto* ga = dyn_cast<GlobalAlias>(c)) return constVal(ga->getAliasee());
    if (auto* ce = dyn_cast<ConstantExpr>(c)) return constExpr(ce);
    if (isa<UndefValue>(c) || isa<ConstantAggregateZero>(c)) return zeroOf(c->getType());
    if (isa<ConstantTokenNone>(c)) return Val();
    if (auto* cds = dyn_cast<ConstantDataSequential>(c))
    {
        std::vector<Val> v;
        for (unsigned i = 0; i < cds->getNumElements(); ++i) v.push_back(constVal(cds->getElementAsConstant(i)));
        return VAgg(std::move(v));
    }
    if (isa<ConstantAggregate>(c))
    {
        std::vector<Val> v;
        for (unsigned i = 0; i < c->getNumOperands(); ++i) v.push_back(constVal(cast<Constant>(c->getOperand(i))));
        return VAgg(std::move(v));
    }
    unsupported("constant kind");
}

inline Val get(Frame& f, Value* v)
{
    if (auto* c = dyn_cast<Constant>(v)) return constVal(c);
    if (isa<MetadataAsValue>(v) || isa<InlineAsm>(v)) return Val();
    auto it = f.fi->idx.find(v);
    if (it == f.fi->idx.end()) unsupported("unknown value");
    return f.regs[it->second];
}
inline void set(Frame& f, Value* v, Val x)
{
    f.regs[f.fi->idx[v]] = std::move(x);
}

// thread model (sbv_threads.inc, included last)
bool        intercept_threads(const std::string& name, CallBase& cb, Frame& f, std::vector<Val>& args, Val& ret, bool& threw);
bool        thread_finished();
extern bool call_suspended;
#include "sbv_calls.inc"
#include "sbv_exec.inc"
#include "sbv_threads.inc"
} // namespace

// Heap blocks that NATIVE code allocates (libstdc++.so's string / stream internals call operator new themselves) must start a
// fresh access history for the race analysis as well: the interpreter executable replaces the global allocation functions, so
// every operator new of the process passes here (those of the interpreter itself included, which is harmless).
static inline void* sbv_new(size_t n, size_t al, bool nothrow)
{
    void* p = nullptr;
    if (al > 16)
    {
        if (posix_memalign(&p, al, n ? n : 1)) p = nullptr;
    }
    else p = std::malloc(n ? n : 1);
    if (!p)
    {
        if (nothrow) return nullptr;
        throw std::bad_alloc();
    }
    if (race_on && !race_busy)
    {
        race_busy = true;
        race_fresh((uint64_t)p, n);
        race_busy = false;
    }
    return p;
}
void* operator new(size_t n) { return sbv_new(n, 0, false); }
void* operator new[](size_t n) { return sbv_new(n, 0, false); }
void* operator new(size_t n, const std::nothrow_t&) noexcept { return sbv_new(n, 0, true); }
void* operator new[](size_t n, const std::nothrow_t&) noexcept { return sbv_new(n, 0, true); }
void* operator new(size_t n, std::align_val_t a) { return sbv_new(n, (size_t)a, false); }
void* operator new[](size_t n, std::align_val_t a) { return sbv_new(n, (size_t)a, false); }
void* operator new(size_t n, std::align_val_t a, const std::nothrow_t&) noexcept { return sbv_new(n, (size_t)a, true); }
void* operator new[](size_t n, std::align_val_t a, const std::nothrow_t&) noexcept { return sbv_new(n, (size_t)a, true); }
void  operator delete(void* p) noexcept { std::free(p); }
void  operator delete[](void* p) noexcept { std::free(p); }
void  operator delete(void* p, size_t) noexcept { std::free(p); }
void  operator delete[](void* p, size_t) noexcept { std::free(p); }
void  operator delete(void* p, std::align_val_t) noexcept { std::free(p); }
void  operator delete[](void* p, std::align_val_t) noexcept { std::free(p); }
void  operator delete(void* p, size_t, std::align_val_t) noexcept { std::free(p); }
void  operator delete[](void* p, size_t, std::align_val_t) noexcept { std::free(p); }
void  operator delete(void* p, const std::nothrow_t&) noexcept { std::free(p); }
void  operator delete[](void* p, const std::nothrow_t&) noexcept { std::free(p); }

#include "sbv_main.inc"
