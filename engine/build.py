#!/usr/bin/env python3
"""Build support shared by all checks: tools (pass plug-in, runtimes, ir2c), the instrumented + plain
libnano objects (per-TU cache keyed by content hashes of the TU and the repo headers it includes), and harnesses.
Everything is rebuilt from /repo's current working tree; the cache (/verif/.cache) only avoids recompiling TUs whose
inputs did not change."""
import hashlib, json, os, re, subprocess, sys, time, fcntl, shutil
from concurrent.futures import ThreadPoolExecutor

VERIF = os.path.dirname(os.path.dirname(os.path.abspath(__file__)))
REPO = os.environ.get("VERIF_REPO", "/repo")
CACHE = os.environ.get("VERIF_CACHE", os.path.join(VERIF, ".cache"))
SRE = os.path.join(VERIF, "engine", "sre")
SBV = os.path.join(VERIF, "engine", "sbv")
LIFT = os.path.join(VERIF, "engine", "lift")
GUARD = "NANO_VERIF"
CLANG = "clang++-14"
OPT = "opt-14"
LLC = "llc-14"
LLVM_CXX = subprocess.run(["llvm-config-14", "--cxxflags"], capture_output=True, text=True).stdout.split()
LLVM_LD = subprocess.run(["llvm-config-14", "--ldflags", "--libs", "--system-libs"], capture_output=True, text=True).stdout.split()
NPROC = int(os.environ.get("VERIF_JOBS", "16"))

BASE_FLAGS = ["-std=c++17", "-O1", "-DNDEBUG", "-DEIGEN_DONT_VECTORIZE", "-DNANO_HAS_FROM_CHARS_FLOAT",
              "-D" + GUARD, "-ffp-contract=off", "-fno-vectorize", "-fno-slp-vectorize", "-fno-unroll-loops",
              "-fPIC", "-w"]


def inc_flags():
    return ["-I" + os.path.join(CACHE, "gen"), "-I" + os.path.join(REPO, "include"), "-I" + os.path.join(REPO, "src"),
            "-isystem", "/usr/include/eigen3"]


def sh(cmd, **kw):
    # a tool that dies by a signal / prints an LLVM stack dump (seen sporadically with opt-14 under heavy parallel load) is retried;
    # ordinary failures (compile errors) are not
    for attempt in range(3):
        r = subprocess.run(cmd, capture_output=True, text=True, **kw)
        crashed = r.returncode < 0 or r.returncode in (134, 135, 136, 139) or "Stack dump" in r.stderr or "PLEASE submit a bug report" in r.stderr
        if r.returncode == 0 or not crashed:
            break
        time.sleep(1 + attempt)
    if r.returncode != 0:
        raise RuntimeError("command failed: %s\n%s\n%s" % (" ".join(cmd), r.stdout[-4000:], r.stderr[-4000:]))
    return r


_hash_cache = {}


def fhash(path):
    try:
        st = os.stat(path)
    except OSError:
        return "missing"
    k = (path, st.st_mtime_ns, st.st_size)
    if k not in _hash_cache:
        with open(path, "rb") as f:
            _hash_cache[k] = hashlib.sha256(f.read()).hexdigest()
    return _hash_cache[k]


class Lock:
    def __init__(self, name):
        os.makedirs(CACHE, exist_ok=True)
        self.path = os.path.join(CACHE, name + ".lock")

    def __enter__(self):
        self.f = open(self.path, "w")
        fcntl.flock(self.f, fcntl.LOCK_EX)
        return self

    def __exit__(self, *a):
        fcntl.flock(self.f, fcntl.LOCK_UN)
        self.f.close()


def gen_version_h():
    d = os.path.join(CACHE, "gen", "nano")
    os.makedirs(d, exist_ok=True)
    txt = open(os.path.join(REPO, "CMakeLists.txt")).read()
    m = re.search(r"project\(NANO\s+VERSION\s+(\d+)\.(\d+)\.(\d+)", txt)
    maj, mi, pa = m.groups() if m else ("0", "0", "0")
    body = ("#pragma once\n#include <cstdint>\nnamespace nano\n{\n constexpr int32_t major_version = %s;\n"
            " constexpr int32_t minor_version = %s;\n constexpr int32_t patch_version = %s;\n"
            " constexpr const char* git_commit_hash = \"verif\";\n}\n" % (maj, mi, pa))
    p = os.path.join(d, "version.h")
    if not os.path.exists(p) or open(p).read() != body:
        open(p, "w").write(body)


# ------------------------------------------------------------------------------------------------------------
def tools_dir():
    return os.path.join(CACHE, "tools")


def build_tools(verbose=False):
    """symfp.so, symrt.o, symrt_concrete.o, ir2c, irmark, sbv.o, sbv_native.o"""
    with Lock("tools"):
        td = tools_dir()
        os.makedirs(td, exist_ok=True)
        jobs = []

        def need(out, srcs, extra=""):
            key = hashlib.sha256(("".join(fhash(s) for s in srcs) + extra).encode()).hexdigest()
            kf = out + ".key"
            if os.path.exists(out) and os.path.exists(kf) and open(kf).read() == key:
                return None
            return key

        def done(out, key):
            open(out + ".key", "w").write(key)

        srcs = [os.path.join(SRE, "symfp.cpp")]
        out = os.path.join(td, "symfp.so")
        k = need(out, srcs)
        if k:
            jobs.append((out, k, [CLANG, "-shared", "-fPIC", "-O1", "-w"] + LLVM_CXX + ["-fno-exceptions", "-o", out] + srcs))
        common = [os.path.join(SRE, "sym.h"), os.path.join(SRE, "symrt_common.h")]
        for nm in ("symrt", "symrt_concrete"):
            src = os.path.join(SRE, nm + ".cpp")
            out = os.path.join(td, nm + ".o")
            k = need(out, [src] + common)
            if k:
                jobs.append((out, k, [CLANG, "-std=c++17", "-O2", "-fPIC", "-w", "-ffp-exception-behavior=strict", "-I" + SRE, "-c", src, "-o", out]))
        for nm in ("ir2c", "irmark"):
            src = os.path.join(LIFT, nm + ".cpp")
            out = os.path.join(td, nm)
            k = need(out, [src])
            if k:
                jobs.append((out, k, [CLANG, "-O1", "-w"] + LLVM_CXX + ["-fno-exceptions", src, "-o", out] + LLVM_LD))

        sbv_srcs = [os.path.join(SBV, f) for f in ("sbv.cpp", "sbv_core.h", "sbv_val.h", "sbv.h", "sbv_calls.inc", "sbv_exec.inc", "sbv_main.inc", "sbv_threads.inc", "sbv_race.inc")]
        out = os.path.join(td, "sbv.o")
        k = need(out, sbv_srcs)
        if k:
            cxx = [f for f in LLVM_CXX if f not in ("-fno-exceptions", "-fno-rtti") and not f.startswith("-std=")]
            jobs.append((out, k, [CLANG, "-std=c++17", "-O1", "-w"] + cxx + ["-fexceptions", "-frtti", "-I" + SBV, "-c", sbv_srcs[0], "-o", out]))
        out = os.path.join(td, "sbv_native.o")
        k = need(out, [os.path.join(SBV, "sbv_native.cpp"), os.path.join(SBV, "sbv.h")])
        if k:
            jobs.append((out, k, [CLANG, "-std=c++17", "-O1", "-w", "-fPIC", "-I" + SBV, "-c", os.path.join(SBV, "sbv_native.cpp"), "-o", out]))

        def run(j):
            out, k, cmd = j
            sh(cmd)
            done(out, k)
            return out

        with ThreadPoolExecutor(NPROC) as ex:
            for o in ex.map(run, jobs):
                if verbose:
                    print("built", o, file=sys.stderr)
        return td


# ------------------------------------------------------------------------------------------------------------
def overridable_file():
    return os.path.join(SRE, "overridable.txt")


def flags_key():
    toolsrc = [os.path.join(SRE, "symfp.cpp"), overridable_file()]
    return hashlib.sha256((" ".join(BASE_FLAGS) + "".join(fhash(s) for s in toolsrc) + "v4" + REPO).encode()).hexdigest()


def repo_sources():
    out = []
    for root, _, files in os.walk(os.path.join(REPO, "src")):
        for f in sorted(files):
            if f.endswith(".cpp"):
                out.append(os.path.join(root, f))
    return sorted(out)


def tu_name(src):
    rel = os.path.relpath(src, os.path.join(REPO, "src"))
    return rel.replace("/", "__")[:-4]


def deps_key(depfile, src, fkey):
    """hash of the repo-local files listed in a make-style dep file"""
    try:
        txt = open(depfile).read()
    except OSError:
        return None
    files = [t for t in txt.replace("\\\n", " ").split()[1:]]
    h = hashlib.sha256(fkey.encode())
    for f in sorted(set(files)):
        if f.startswith("/usr/") or f.startswith("/lib/"):
            continue
        h.update(f.encode())
        h.update(fhash(f).encode())
    return h.hexdigest()


def compile_unit(src, outdir, name, extra_flags=(), want_plain=True, want_sym=True):
    """front end -> .bc (unoptimised) -> [symmark, O1, symfp] -> sym.o ; [symmark, O1] -> plain.bc (kept: interpreted by the
    SBV engine) -> plain.o ; cached"""
    fkey = flags_key() + " ".join(extra_flags)
    base = os.path.join(outdir, name)
    dep, keyf = base + ".d", base + ".key"
    symo, plaino = base + ".sym.o", base + ".plain.o"
    k = deps_key(dep, src, fkey)
    if (k is not None and os.path.exists(keyf) and open(keyf).read() == k and (os.path.exists(symo) or not want_sym)
            and ((os.path.exists(plaino) and os.path.exists(base + ".plain.bc")) or not want_plain)):
        return False
    env = dict(os.environ, SYMFP_OVERRIDABLE=overridable_file())
    plugin = os.path.join(tools_dir(), "symfp.so")
    bc = base + ".bc"
    sh([CLANG] + BASE_FLAGS + list(extra_flags) + inc_flags() + ["-Xclang", "-disable-llvm-passes", "-emit-llvm", "-c",
                                                                 src, "-o", bc, "-MD", "-MF", dep])
    if want_sym:
        sh([OPT, "-load-pass-plugin", plugin, "-passes=symmark,default<O1>,symfp", bc, "-o", base + ".sym.bc"], env=env)
        sh([LLC, "-O2", "-filetype=obj", "-relocation-model=pic", base + ".sym.bc", "-o", symo])
        weaken(symo)
        os.remove(base + ".sym.bc")
    if want_plain:
        sh([OPT, "-load-pass-plugin", plugin, "-passes=symmark,default<O1>", bc, "-o", base + ".plain.bc"], env=env)
        sh([LLC, "-O2", "-filetype=obj", "-relocation-model=pic", base + ".plain.bc", "-o", plaino])
        weaken(plaino)
    os.remove(bc)
    k = deps_key(dep, src, fkey)
    open(keyf, "w").write(k)
    return True


def weaken(obj):
    names = [l.strip() for l in open(overridable_file()) if l.strip() and not l.startswith("#")]
    if not names:
        return
    args = ["objcopy", "--wildcard"]
    for n in names:
        args.append("--weaken-symbol=" + n)
    sh(args + [obj])


def build_lib(verbose=False):
    """returns (list of sym objects, list of plain objects, stats)"""
    t0 = time.time()
    build_tools(verbose)
    with Lock("lib"):
        gen_version_h()
        outdir = os.path.join(CACHE, "lib")
        os.makedirs(outdir, exist_ok=True)
        srcs = repo_sources()
        names = {tu_name(s) for s in srcs}
        # remove stale objects of deleted TUs
        for f in os.listdir(outdir):
            stem = f.split(".")[0]
            if stem not in names:
                os.remove(os.path.join(outdir, f))
        rebuilt = 0
        with ThreadPoolExecutor(NPROC) as ex:
            for r in ex.map(lambda s: compile_unit(s, outdir, tu_name(s)), srcs):
                rebuilt += 1 if r else 0
        sym = [os.path.join(outdir, tu_name(s) + ".sym.o") for s in srcs]
        plain = [os.path.join(outdir, tu_name(s) + ".plain.o") for s in srcs]
        st = {"translation_units": len(srcs), "recompiled": rebuilt, "build_s": round(time.time() - t0, 1)}
        if verbose:
            print("libnano:", st, file=sys.stderr)
        return sym, plain, st


def build_harness(name, sources, verbose=False, extra_flags=(), exclude=()):
    """compiles harness sources with the same pipeline and links <name>.sym and <name>.plain ; returns paths"""
    sym, plain, st = build_lib(verbose)
    # translation units that the harness re-compiles itself (#include of the .cpp) are left out of the link
    sym = [o for o in sym if os.path.basename(o).split(".")[0] not in exclude]
    plain = [o for o in plain if os.path.basename(o).split(".")[0] not in exclude]
    hd = os.path.join(CACHE, "harness", name)
    os.makedirs(hd, exist_ok=True)
    with Lock("harness_" + name):
        objs_s, objs_p = [], []
        ef = ["-fno-access-control", "-I" + SRE, "-I" + os.path.join(VERIF, "harness", "sre")] + list(extra_flags)
        for s in sources:
            n = os.path.basename(s)[:-4]
            compile_unit(s, hd, n, ef + ["-DSYM_SYMBOLIC"], want_plain=False)
            compile_unit(s, hd, n + "_c", ef + ["-DSYM_CONCRETE"], want_plain=True)
            objs_s.append(os.path.join(hd, n + ".sym.o"))
            objs_p.append(os.path.join(hd, n + "_c.plain.o"))
        td = tools_dir()
        exe_s, exe_p = os.path.join(hd, name + ".sym"), os.path.join(hd, name + ".plain")
        lk = hashlib.sha256("".join(fhash(o) for o in objs_s + objs_p + sym + plain +
                                    [os.path.join(td, "symrt.o"), os.path.join(td, "symrt_concrete.o")]).encode()).hexdigest()
        kf = os.path.join(hd, "link.key")
        if not (os.path.exists(exe_s) and os.path.exists(exe_p) and os.path.exists(kf) and open(kf).read() == lk):
            sh([CLANG, "-o", exe_s] + objs_s + [os.path.join(td, "symrt.o")] + sym + ["-lz3", "-lpthread", "-lm"])
            sh([CLANG, "-o", exe_p] + objs_p + [os.path.join(td, "symrt_concrete.o")] + plain + ["-lpthread", "-lm"])
            open(kf, "w").write(lk)
    return exe_s, exe_p, st


def build_sbv_harness(name, sources, verbose=False, extra_flags=()):
    """SBV engine: harness -> plain.bc (interpreted) + plain.o (linked natively, twice: with the interpreter and with the native
    API implementation). Returns (exe_sbv, exe_native, modules_file, stats)"""
    sym, plain, st = build_lib(verbose)
    hd = os.path.join(CACHE, "harness", name)
    os.makedirs(hd, exist_ok=True)
    with Lock("harness_" + name):
        objs, bcs = [], []
        ef = ["-fno-access-control", "-I" + SBV, "-I" + os.path.join(VERIF, "harness", "sbv")] + list(extra_flags)
        for s in sources:
            n = os.path.basename(s)[:-4]
            compile_unit(s, hd, n, ef, want_plain=True, want_sym=False)
            objs.append(os.path.join(hd, n + ".plain.o"))
            bcs.append(os.path.join(hd, n + ".plain.bc"))
        td = tools_dir()
        exe_s, exe_n = os.path.join(hd, name + ".sbv"), os.path.join(hd, name + ".native")
        mods = os.path.join(hd, "modules.txt")
        libbc = [o[:-2] + ".bc" for o in plain]
        open(mods, "w").write("\n".join(bcs + libbc) + "\n")
        lk = hashlib.sha256("".join(fhash(o) for o in objs + plain + [os.path.join(td, "sbv.o"), os.path.join(td, "sbv_native.o")]).encode()).hexdigest()
        kf = os.path.join(hd, "link.key")
        if not (os.path.exists(exe_s) and os.path.exists(exe_n) and os.path.exists(kf) and open(kf).read() == lk):
            sh([CLANG, "-rdynamic", "-o", exe_s, os.path.join(td, "sbv.o")] + objs + plain + LLVM_LD + ["-lz3", "-ldl", "-lpthread", "-lm"])
            sh([CLANG, "-o", exe_n, os.path.join(td, "sbv_native.o")] + objs + plain + ["-lpthread", "-lm"])
            open(kf, "w").write(lk)
    return exe_s, exe_n, mods, st


if __name__ == "__main__":
    if len(sys.argv) > 1 and sys.argv[1] == "tools":
        build_tools(True)
    elif len(sys.argv) > 1 and sys.argv[1] == "lib":
        build_lib(True)
    elif len(sys.argv) > 2 and sys.argv[1] == "harness":
        print(build_harness(sys.argv[2], sys.argv[3:], True))
    else:
        build_tools(True)
        build_lib(True)
