"""Registry: property id -> units (harnesses), bounds, assumptions. One entry per claimed property."""

SRE_ASSUME = [
    "SRE: double arithmetic is interpreted over the reals (rounding, overflow to inf, NaN generation outside the claim)",
    "SRE: verified artefact is the scalar clang-14 -O1 -DNDEBUG -DEIGEN_DONT_VECTORIZE build of /repo's current sources",
    "SRE: paths dividing by a symbolic zero / taking sqrt of a symbolic negative are excluded (counted as div_guards/sqrt_guards)",
    "SRE: thread pool constructed without OS threads (pool_t::map inline), nano::make_rng() seeded with 42 (link-time overrides, harness/sre/sre_support.cpp)",
]

PROPERTIES = {}
HOOK_COMMITS = []
WIP = "check not built yet in this session (work in progress; planned per DESIGN.md)"
NOT_APPLICABLE = {"C%02d" % i: WIP for i in range(1, 21)}
NOT_APPLICABLE["C12"] = ("integer index-set code inside heap-allocating functions (kfold/random splitters, samplers): lifted code gave CBMC no verdict "
                         "(600-900 s, 14-35 GB, three memory models) and the SRE engine has no symbolic integers; quantifier is over permutations/seeds")
NOT_APPLICABLE["C18"] = ("data-race freedom / schedule independence over OS-thread interleavings of std::thread/mutex/condition_variable code: "
                         "no solver-based engine in this image can execute C++ threads symbolically (CBMC C++ front end stops at libstdc++ headers)")
SRE_TECH = "bounded symbolic execution of the real code over symbolic reals (LLVM-instrumented libnano, fork per feasible branch), z3 nlsat decides every obligation"
SRE_NOTE = ("trusted: clang-14/LLVM-14, symfp pass + symrt runtime (cross-validated against the un-instrumented build on every run), z3 4.8.12; "
            "assumes real arithmetic (no rounding), scalar -O1 code path, stated input boxes and sizes; inline thread pool and fixed RNG seed")

PROPERTIES["C05"] = {
    "level": "other",
    "level_text": "bounded symbolic verification: for every value of the symbolic objective/constraint coefficients, point, penalty and multipliers (sizes fixed) the real penalty functions equal their defining formulas; solver verdict per obligation, counter-examples replayed on the IEEE build",
    "level_note": SRE_NOTE,
    "technique": SRE_TECH,
    "explanation": "C05: penalty/augmented-Lagrangian functions vs. independently written defining formulas for symbolic objective, constraints, point, penalty and multipliers.",
    "assumptions": SRE_ASSUME,
    "bounds": {"dims": 2, "constraints_per_function": "<= 3"},
    "outside": ["quality of the inner minimisation of the penalty / augmented-Lagrangian solvers"],
    "units": [
        {"engine": "sre", "harness": "C05_penalty", "sources": ["C05_penalty.cpp"],
         "quick": ["mix0"], "thorough": ["mix0"],
         "encoded": ["nano::linear_penalty_function_t::do_vgrad", "nano::quadratic_penalty_function_t::do_vgrad",
                     "nano::augmented_lagrangian_function_t::do_vgrad", "nano::vgrad(constraint_t)", "nano::function_t::constrain"]},
    ],
}
