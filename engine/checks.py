"""Registry: property id -> units (harnesses), bounds, assumptions. One entry per claimed property."""

SRE_ASSUME = [
    "SRE: double arithmetic is interpreted over the reals (rounding, overflow to inf, NaN generation outside the claim)",
    "SRE: verified artefact is the scalar clang-14 -O1 -DNDEBUG -DEIGEN_DONT_VECTORIZE build of /repo's current sources",
    "SRE: paths dividing by a symbolic zero / taking sqrt of a symbolic negative are excluded (counted as div_guards/sqrt_guards)",
    "SRE: thread pool constructed without OS threads (pool_t::map inline; configurations with threads=K: K workers, enqueue path, tasks run sequentially by the completion barrier with scheduled worker ids), nano::make_rng() seeded with 42 (link-time overrides, harness/sre/sre_support.cpp)",
]

PROPERTIES = {}
HOOK_COMMITS = []
WIP = "check not built yet in this session (work in progress; planned per DESIGN.md)"
NOT_APPLICABLE = {"C%02d" % i: WIP for i in range(1, 21)}
NOT_APPLICABLE["C18"] = ("data-race freedom and bit-identical results of shared const objects under concurrent use: the subject is the absence of unsynchronised conflicting "
                         "memory accesses, which needs happens-before tracking of every access of real threads (ThreadSanitizer territory). The SBV interpreter's cooperative thread "
                         "model (used for C17) switches threads only at synchronisation operations, so races between them are invisible to it by construction; CBMC's C++ front end stops "
                         "at the libstdc++ headers; SRE runs pools inline. The schedule-independence of RESULTS is covered where it is decidable: C09 / C10 / C14 configurations with the "
                         "sequentialised K-worker pool (any assignment of tasks to workers) and C17's thread-model unit")
SRE_TECH = "bounded symbolic execution of the real code over symbolic reals (LLVM-instrumented libnano, fork per feasible branch), z3 nlsat (fallback: cvc5 on the same SMT-LIB text) decides every obligation"
SRE_NOTE = ("trusted: clang-14/LLVM-14, symfp pass + symrt runtime (cross-validated against the un-instrumented build on every run), z3 4.8.12 (nlsat) and, for the queries z3 leaves unknown, cvc5 1.0; "
            "assumes real arithmetic (no rounding), scalar -O1 code path, stated input boxes and sizes; inline thread pool and fixed RNG seed")

LIFT_TECH = "bounded model checking (CBMC 6.11, SAT) of C lifted from the clang-14 LLVM IR of the real functions; all indices/dimensions/bytes symbolic within stated ranges"
LIFT_NOTE = ("trusted: clang-14 -O1, ir2c translator (validated differentially against the real C++ on every run), CBMC 6.11; bounded by --unwind with unwinding assertions; "
             "malloc never fails; every harness has a witness twin whose assert(0) must be reachable")
SBV_TECH = ("bounded symbolic execution of the real code at the LLVM-IR level (own KLEE-style interpreter over the clang-14 bitcode of libnano and the harness, "
            "bit-vector terms, fork per feasible branch, symbolic pointers merged over their feasible targets); z3 (QF_BV: lazy SMT core, then bit-blasting + SAT) decides every obligation")
SBV_NOTE = ("trusted: clang-14/LLVM-14 -O1 bitcode, the SBV interpreter (cross-validated against the native build of the same bitcode on every run), z3 4.8.12; "
            "libstdc++/libc functions without bitcode run natively on concrete arguments (listed per run as `native:` labels); stated contracts replace the random source")
SBV_ASSUME = [
    "SBV: verified artefact is the scalar clang-14 -O1 -DNDEBUG -DEIGEN_DONT_VECTORIZE bitcode of /repo's current sources, interpreted with machine-integer (bit-vector) semantics",
    "SBV: functions without bitcode (libstdc++.so, libc) are executed natively on concrete arguments; a native call that would read symbolic memory ends the path as inconclusive",
    "SBV: floating-point operations are executed concretely; a floating-point operation on a symbolic value ends the path as inconclusive",
    "SBV: malloc/new never fail; undef values read as 0",
]

PROPERTIES["C12"] = {
    "level": "other",
    "level_text": "bounded symbolic verification: for EVERY list of n distinct symbolic sample indices and EVERY behaviour of the random source (each std::uniform_int_distribution draw is an arbitrary value of its range, so every permutation std::shuffle can produce and every with-replacement selection is covered) the real k-fold / random splitters and the index samplers return sorted, disjoint, covering index sets of the promised sizes; solver verdict per obligation on every path of the real code",
    "level_note": SBV_NOTE + "; " + SRE_NOTE,
    "technique": SBV_TECH + "; ball sampling (unit C12_ball, real arithmetic) by " + SRE_TECH,
    "explanation": "C12: kfold_splitter_t::split, random_splitter_t::split, sample_without_replacement, sample_with_replacement (uniform and weighted), gboost::sampler_t::sample (all four sub-sampling types) executed symbolically from their bitcode (std::shuffle, Eigen segment copies, std::sort, tensor storage as compiled).",
    "assumptions": SBV_ASSUME + ["contract: std::uniform_int_distribution<T>::operator()(rng, param) returns an arbitrary value of [param.a, param.b] (replaces the pseudo-random engine: 'any seed' becomes 'any draw sequence')",
                                 "sample indices: distinct symbolic int64 in [0, 10^6], given in arbitrary order (ordered=0) or increasing order",
                                 "contract: std::discrete_distribution<T>::operator()(rng, param) returns an arbitrary index of POSITIVE probability (the standard's distribution; libstdc++ returns index 0 of zero weight only if generate_canonical yields exactly 0.0, i.e. two consecutive minimal draws, which minstd_rand cannot produce) - so the zero-weight clause is verified for libnano's code AROUND the distribution: construction from the weights, alignment of weights with samples (gboost sampler: weights per dataset sample, looked up through the sample list), mapping of the drawn position to the sample index"],
    "bounds": {"n": "3..6 samples with symbolic indices and arbitrary draws; size clause of the random splitter: n in {7,20,25,40} (quick) / every n in 2..40 (thorough) with EVERY train percentage 10..90 symbolic", "folds": "2..3", "count": "<= n"},
    "outside": ["'equal seeds give equal splits' is decided relative to the engine state (mode=determ: the real std::minstd_rand steps and every draw is an arbitrary but fixed value per (engine state, range)); the arithmetic by which libstdc++ maps engine outputs to a range is replaced by that contract; seeds other than the configured one (42) and n > 4 are outside the quick tier",
                "the arithmetic inside std::discrete_distribution (replaced by its contract); ball sampling is decided over the reals for arbitrary draws (unit C12_ball): floating-point rounding of the normalisation and the all-zero direction (probability zero) are outside",
                "weighted modes: the zero / positive weight pattern and (gboost sampler) the subset are enumerated by forking, the positive weights themselves are fixed numbers", "n > 6"],
    "units": [
        {"engine": "sre", "harness": "C12_ball", "sources": ["C12_ball.cpp"],
         "quick": ["n=1", "n=2", "n=3"],
         "thorough": ["n=1", "n=2", "n=3", "n=4", "n=5"],
         "budget": {"quick": {"deadline_s": 60, "max_paths": 4000, "query_s": 15}, "thorough": {"deadline_s": 600, "max_paths": 50000, "query_s": 60}},
         "encoded": ["nano::sample_from_ball(x0, radius, rng) with std::normal_distribution<double>::operator() and std::generate_canonical<double, 53, rng_t> replaced by arbitrary values of their range (link-time), std::pow ackermannised with its range facts, Eigen lpNorm<2>"]},
        {"engine": "sbv", "harness": "C12_split", "sources": ["C12_split.cpp"],
         "quick": ["mode=determ;n=4;folds=2;which=0;twice=0", "mode=determ;n=4;folds=2;which=0;twice=1", "mode=determ;n=4;folds=2;which=1;twice=2", "mode=determ;n=3;folds=2;which=0;twice=3", "mode=determ;n=4;folds=2;which=0;twice=4", "mode=kfold;n=4;folds=2", "mode=kfold;n=5;folds=2", "mode=kfold;n=3;folds=3", "mode=kfold;n=4;folds=3;ordered=1", "mode=random;n=4;folds=2;perc=80",
                   "mode=random;n=3;folds=2;perc=10", "mode=without;n=4;count=2", "mode=without;n=4;count=4", "mode=without;n=4;count=0", "mode=with;n=3;count=3", "mode=with;n=4;count=2",
                   "mode=randsize;n=7;folds=2", "mode=randsize;n=20;folds=2", "mode=randsize;n=25;folds=2", "mode=randsize;n=40;folds=2",
                   "mode=weighted;n=4;count=3", "mode=gsampler;n=3;N=5;type=1", "mode=gsampler;n=3;N=5;type=2", "mode=gsampler;n=3;N=5;type=3", "mode=gsampler;n=3;N=5;type=4"],
         "thorough": ["mode=determ;n=%d;folds=%d;which=%d;twice=%d" % t for t in ((4, 2, 0, 0), (4, 2, 0, 1), (4, 2, 0, 2), (3, 2, 0, 3), (4, 2, 0, 3), (4, 2, 1, 0), (4, 2, 1, 1), (4, 2, 1, 2), (3, 2, 1, 3), (4, 2, 0, 4), (3, 2, 1, 4), (5, 2, 0, 0), (4, 3, 0, 0))] +
                     ["mode=kfold;n=%d;folds=%d;ordered=%d" % (n, f, o) for (n, f) in ((3, 2), (3, 3), (4, 2), (4, 3), (5, 2), (5, 3), (6, 2), (6, 3)) for o in (0, 1)] +
                     ["mode=random;n=%d;folds=%d;perc=%d" % (n, f, p) for (n, f, p) in ((4, 2, 80), (5, 2, 50), (3, 2, 10), (5, 2, 90), (6, 2, 75), (5, 3, 10))] +
                     ["mode=without;n=%d;count=%d" % (n, c) for (n, c) in ((4, 2), (5, 5), (4, 0), (6, 3), (5, 1))] + ["mode=with;n=%d;count=%d" % (n, c) for (n, c) in ((3, 3), (4, 2), (2, 5), (5, 3))] +
                     ["mode=randsize;n=%d;folds=2" % n for n in range(2, 41)] +
                     ["mode=weighted;n=%d;count=%d" % t for t in ((4, 3), (5, 2), (3, 4))] + ["mode=gsampler;n=%d;N=%d;type=%d" % (n, N, t) for (n, N) in ((3, 5), (4, 6), (2, 4)) for t in (1, 2, 3, 4)],
         "budget": {"quick": {"deadline_s": 150, "max_paths": 20000, "query_s": 20}, "thorough": {"deadline_s": 1500, "max_paths": 400000, "query_s": 60}},
         "encoded": ["nano::kfold_splitter_t::split", "nano::random_splitter_t::split", "nano::sample_without_replacement", "nano::sample_with_replacement", "nano::idiv", "nano::make_rng",
                     "std::shuffle<long*, std::minstd_rand> (libstdc++, incl. the two-draws-at-once path)", "std::sort / std::__insertion_sort instantiations on long*", "nano::tensor_t storage / Eigen segment assignment",
                     "nano::parameter_t assignment and value<>() (concrete)"]},
    ],
}

PROPERTIES["C05"] = {
    "level": "other",
    "level_text": "bounded symbolic verification: for every value of the symbolic objective/constraint coefficients, point, penalty and multipliers (sizes fixed) the real penalty functions equal their defining formulas; solver verdict per obligation, counter-examples replayed on the IEEE build",
    "level_note": SRE_NOTE,
    "technique": SRE_TECH,
    "explanation": "C05: penalty/augmented-Lagrangian functions vs. independently written defining formulas for symbolic objective, constraints, point, penalty and multipliers; augmented-Lagrangian outer loop with a scripted (arbitrary-point) inner solver: converged => recomputed feasibility <= epsilon, stored constraint values = recomputed.",
    "assumptions": SRE_ASSUME,
    "bounds": {"dims": "2 (functions), 1..2 (solver)", "constraints_per_function": "<= 4", "AL outer iterations explored": "2..3"},
    "outside": ["quality of the inner minimisation (the inner solver is an arbitrary-point oracle; outer iterations explored up to the `outers` bound)", "linear/quadratic penalty solvers: their outer loops run under the same scripted inner solver for the honest-result clause (reported value = objective at the returned point, stored constraint values), no feasibility promise is checked for them"],
    "units": [
        {"engine": "sre", "harness": "C05_penalty", "sources": ["C05_penalty.cpp"],
         "quick": ["k=0,1,2;d=2", "k=3,4;d=2", "k=5,6;d=2", "k=7,8;d=2", "k=9,10;d=2", "k=6,3,2;d=2"],
         "thorough": ["k=0,1,2;d=2", "k=3,4;d=2", "k=5,6;d=2", "k=7,8;d=2", "k=9,10;d=2", "k=6,3,2;d=2", "k=0,4,8;d=2", "k=5,10,1;d=2",
                      "k=0,1,2;d=3;dim=1", "k=3,6;d=3", "k=7,4;d=3", "k=9,2;d=3", "k=1,2,5,6;d=2"],
         "encoded": ["nano::linear_penalty_function_t::do_vgrad", "nano::quadratic_penalty_function_t::do_vgrad",
                     "nano::augmented_lagrangian_function_t::do_vgrad", "nano::vgrad(constraint_t)", "nano::function_t::constrain"]},
        {"engine": "sre", "harness": "C05_alsolver", "sources": ["C05_alsolver.cpp"],
         "quick": ["d=1;cons=b;outers=2", "d=1;cons=l;outers=2", "d=1;cons=e;outers=2", "d=1;cons=q;outers=2", "d=1;cons=b;outers=2;solver=qp", "d=1;cons=e;outers=2;solver=lp", "d=1;cons=q;outers=2;solver=qp", "d=1;cons=l;outers=3;solver=lp"],
         "thorough": ["d=1;cons=%s;outers=%d" % (c, o) for c in ("b", "l", "e", "q", "lb", "eb") for o in (2, 3)] + ["d=2;cons=l;outers=2", "d=2;cons=e;outers=2"] +
                     ["d=1;cons=%s;outers=%d;solver=%s" % (c, o, sv) for c in ("b", "l", "e", "q", "lb") for o in (2, 3) for sv in ("lp", "qp")],
         "budget": {"quick": {"deadline_s": 60, "max_paths": 20000, "query_s": 8}, "thorough": {"deadline_s": 900, "max_paths": 300000, "query_s": 30}},
         "encoded": ["nano::solver_augmented_lagrangian_t::do_minimize", "(anonymous)::make_ro1", "(anonymous)::make_criterion", "nano::converged(bstate, cstate, eps)", "nano::solver_t::done",
                     "nano::solver_state_t::{update, update_constraints, kkt_optimality_test1/2}", "nano::augmented_lagrangian_function_t::do_vgrad (through the scripted inner solver)"]},
    ],
}

PROPERTIES["C14"] = {
    "level": "other",
    "level_text": "bounded symbolic verification: for every value of the symbolic float64 cells (fixed small sample counts, concrete missing patterns and schemas) the statistics, scaling, up-scaling and affine model conversion of the real code satisfy the advertised identities; solver verdict per obligation",
    "level_note": SRE_NOTE + "; " + SBV_NOTE,
    "technique": SRE_TECH + "; constant columns in IEEE arithmetic by " + SBV_TECH,
    "explanation": "C14: scalar_stats_t (through the real datasource -> dataset -> flatten/targets stack), scale/upscale in the 4 modes, nano::upscale(weights,bias) on symbolic data. Unit C14_const: the same stack in IEEE double arithmetic (z3 floating-point theory) for a constant column with a symbolic value.",
    "assumptions": SRE_ASSUME + ["cells are boxed to [-8,8]; W, b, raw x unbounded reals; epsilon thresholds (epsilon2) are the library's own"],
    "bounds": {"samples": "2..4", "columns": "2..5", "scaling modes": "all 4 for inputs and targets (pairs enumerated per configuration)",
               "missing patterns": "5 concrete patterns incl. all-missing and single-sample columns"},
    "outside": ["matrices larger than 4 x 5", "floating-point rounding relative to the magnitude of the summed terms (identities are proved over the reals), except for constant columns (unit C14_const)",
                "C14_const: with a fully symbolic double the solver FINDS violations (satisfiable queries: 30 s) but does not finish the unsatisfiable ones within the budget (bit-blasting of the division / square-root chain) - those configurations come back inconclusive on a correct tree; the decimal-grid configurations (value = k/10, k <= 1000, concrete per path) are exhaustive by enumeration"],
    "units": [
        {"engine": "sre", "harness": "C14_scaling", "sources": ["C14_scaling.cpp"],
         "quick": ["f=rrr;n=3;fs=2;ts=0", "f=rrr;n=3;fs=3;ts=3", "f=rrr;n=3;fs=1;ts=1;miss=1", "f=rsr;n=3;miss=1;fs=1;ts=2",
                   "f=rmr;n=3;fs=3;ts=2", "f=rrr;n=3;miss=2;fs=0;ts=3", "f=rrr;n=3;miss=2;fs=1;ts=0", "f=rrr;n=3;miss=2;fs=2;ts=1", "f=rrr;n=3;miss=2;fs=3;ts=3", "f=rrr;n=3;miss=3;fs=3;ts=0", "f=Sr;n=2;fs=1;ts=1", "f=rrr;n=3;fs=2;ts=0;threads=3;sched=0", "f=rrr;n=3;fs=1;ts=1;miss=1;threads=2;sched=2"],
         "thorough": ["f=rrr;n=3;fs=%d;ts=%d;miss=%d" % (a, b, m) for a in range(4) for b in range(4) for m in (0, 1)] +
                     ["f=rsr;n=3;miss=1;fs=1;ts=2", "f=rmr;n=3;fs=3;ts=2", "f=rrr;n=3;miss=2;fs=0;ts=3", "f=rrr;n=3;miss=3;fs=3;ts=0",
                      "f=Sr;n=2;fs=1;ts=1", "f=Sr;n=2;fs=3;ts=2", "f=rrr;n=4;fs=2;ts=1", "f=rrr;n=4;fs=3;ts=3;miss=4", "f=srmr;n=3;fs=2;ts=3"] +
                     ["f=rrr;n=3;miss=%d;fs=%d;ts=%d" % (m, a, b) for m in (2, 3) for a in (1, 2, 3) for b in (0, 1, 2, 3)],
         "encoded": ["nano::scalar_stats_t::make_flatten_stats", "nano::scalar_stats_t::make_targets_stats", "(anonymous)::update(scalar_stats_t&)",
                     "(anonymous)::done(scalar_stats_t&)", "nano::scalar_stats_t::scale", "nano::scalar_stats_t::upscale",
                     "nano::upscale(stats, scaling, stats, scaling, weights, bias)", "(anonymous)::make_scaling", "nano::dataset_t::flatten",
                     "nano::dataset_t::targets"]},
        # constant columns in IEEE arithmetic (the identities above are over the reals): a column holding n times the same SYMBOLIC
        # double must have finite statistics and round-trip in every scaling mode
        {"engine": "sbv", "harness": "C14_const", "sources": ["C14_const.cpp"],
         "quick": ["n=3;mode=3", "n=3;mode=3;grid=300", "n=5;mode=3;grid=100", "n=3;mode=1;grid=100", "n=3;mode=2;grid=100"],
         "thorough": ["n=%d;mode=3" % n for n in (3, 5, 7)] + ["n=%d;mode=%d;grid=%d" % (n, m, g) for (n, g) in ((3, 1000), (5, 500), (7, 300), (10, 300)) for m in (1, 2, 3)],
         "budget": {"quick": {"deadline_s": 100, "max_paths": 20000, "query_s": 40}, "thorough": {"deadline_s": 900, "max_paths": 400000, "query_s": 300}},
         "encoded": ["nano::scalar_stats_t::make_flatten_stats", "(anonymous)::update(scalar_stats_t&)", "(anonymous)::done(scalar_stats_t&) [one-pass variance, square root, epsilon floors]", "nano::scalar_stats_t::scale", "nano::scalar_stats_t::upscale",
                     "nano::datasource_t::set / nano::dataset_t::flatten (float64 scalar feature)"]},
    ],
}

PROPERTIES["C20"] = {
    "level": "other",
    "level_text": "bounded symbolic verification: for every list of n symbolic reals (ties included), every percentage, every threshold/ratio/percentile specification and every real query v, percentile/median/histogram results equal the sorted-array reference; solver verdict per obligation",
    "level_note": SRE_NOTE,
    "technique": SRE_TECH + "; integral value lists by " + SBV_TECH + "; position arithmetic by " + LIFT_TECH,
    "explanation": "C20: nano::percentile / percentile_sorted / median / median_sorted and histogram_t (thresholds, ratios, percentiles; counts, means, medians, bin()) on symbolic values; float->int conversions are enumerated by the solver.",
    "assumptions": SRE_ASSUME + ["values boxed to [-4,4], thresholds to [-5,5], query to [-6,6], percentages to [0,100]"],
    "bounds": {"values": "n <= 4 (quick), n <= 5 (thorough)", "thresholds": "<= 2 (quick), <= 3 (thorough)"},
    "outside": ["histogram_t::make_from_exponents (log/pow thresholds)", "integral value lists longer than 4 (unit C20_histint: symbolic int16/int32/int64 values, symbolic double thresholds, bit-precise)", "lists longer than 5 with symbolic contents (the bit-precise LIFT-C unit covers the position arithmetic up to n=128 on ramp data)"],
    "units": [
        {"engine": "sre", "harness": "C20_stats", "sources": ["C20_stats.cpp"],
         "quick": ["mode=pct;n=1;var=0", "mode=pct;n=2;var=0", "mode=pct;n=3;var=0", "mode=pct;n=4;var=0", "mode=pct;n=4;var=1", "mode=pct;n=3;var=2",
                   "mode=pct;n=4;var=2", "mode=pct;n=3;var=0;edge=1", "mode=pct;n=3;var=0;edge=2",
                   "mode=hist;n=3;t=2;how=0", "mode=hist;n=3;t=1;how=1", "mode=hist;n=3;t=1;how=2", "mode=hist;n=1;t=2;how=0"],
         "thorough": ["mode=pct;n=%d;var=%d" % (n, v) for n in (1, 2, 3, 4, 5) for v in (0, 1, 2)] +
                     ["mode=pct;n=4;var=0;edge=1", "mode=pct;n=4;var=1;edge=2",
                      "mode=hist;n=3;t=2;how=0", "mode=hist;n=4;t=2;how=0", "mode=hist;n=3;t=3;how=0", "mode=hist;n=3;t=2;how=1",
                      "mode=hist;n=4;t=1;how=1", "mode=hist;n=3;t=2;how=2", "mode=hist;n=4;t=1;how=2", "mode=hist;n=1;t=2;how=0", "mode=hist;n=2;t=3;how=0"],
         "encoded": ["nano::percentile", "nano::percentile_sorted", "nano::median", "nano::median_sorted", "nano::detail::percentile",
                     "nano::histogram_t::histogram_t", "nano::histogram_t::make_from_thresholds", "nano::histogram_t::make_from_ratios",
                     "nano::histogram_t::make_from_percentiles", "nano::histogram_t::update", "nano::histogram_t::update_bin",
                     "nano::histogram_t::bin", "std::sort / std::nth_element / std::upper_bound instantiations"]},
        {"engine": "lift", "name": "C20_fp", "shim": "C20_shim.cpp", "driver": "C20_drv.c", "roots": ["k_percentile_sorted", "k_median_sorted", "k_hist_bin"],
         "quick": [{"func": "h_percentile_position", "unwind": 130, "desc": "bit-precise IEEE: percentile_sorted over 0..n-1 for every n<=128 and every percentage on a 0.5 grid: integral positions give the element, fractional ones the midpoint"},
                   {"func": "h_median", "unwind": 130, "desc": "bit-precise: median_sorted of 0..n-1 = (n-1)/2, n<=128"},
                   {"func": "h_bin", "unwind": 5, "desc": "bit-precise: histogram_t::bin(v) = #thresholds <= v for every finite double v and <=3 sorted thresholds"}],
         "thorough": [{"func": "h_percentile_position", "unwind": 130, "desc": "as quick"}, {"func": "h_median", "unwind": 130, "desc": "as quick"}, {"func": "h_bin", "unwind": 5, "desc": "as quick"}],
         "encoded": ["nano::percentile_sorted / detail::percentile (IEEE double position arithmetic, floor/ceil)", "nano::median_sorted", "nano::histogram_t::bin (std::upper_bound)"]},
        {"engine": "sbv", "harness": "C20_histint", "sources": ["C20_histint.cpp"],
         "quick": ["type=i32;n=3;t=1;how=0", "type=i16;n=3;t=2;how=0", "type=i64;n=2;t=1;how=0;means=1", "type=i32;n=4;t=1;how=0"],
         "thorough": ["type=%s;n=%d;t=%d;how=%d;means=%d" % t for t in (("i32", 3, 1, 0, 1), ("i16", 3, 2, 0, 0), ("i64", 2, 1, 0, 1), ("i32", 4, 1, 0, 0), ("i32", 4, 2, 0, 0), ("i16", 2, 1, 1, 0), ("i32", 3, 3, 0, 0), ("i64", 3, 2, 0, 1))],
         "budget": {"quick": {"deadline_s": 120, "max_paths": 20000, "query_s": 10}, "thorough": {"deadline_s": 1200, "max_paths": 200000, "query_s": 60}},
         "encoded": ["nano::histogram_t::{make_from_thresholds, make_from_ratios, histogram_t(begin,end,thresholds), update, update_bin, bin, count, mean, median} instantiated for int16/int32/int64 value lists",
                     "std::sort / std::upper_bound instantiations on integral iterators with double thresholds", "nano::median_sorted on integral lists"]},
    ],
}

_C07_ENC = ["nano::lsearchk_t::get", "nano::lsearchk_backtrack_t::do_get", "nano::lsearchk_lemarechal_t::do_get", "nano::lsearchk_fletcher_t::do_get (+zoom)",
            "nano::lsearchk_morethuente_t::do_get (+dcstep)", "nano::lsearchk_cgdescent_t::do_get (+bracket, update, updateU)",
            "nano::solver_state_t::{update, valid, has_descent, dg, has_armijo, has_wolfe, has_strong_wolfe, has_approx_*}",
            "nano::lsearch_step_t::{cubic, quadratic, secant, bisection, interpolate} (unit C07_lsearch_real)", "nano::lsearchk_t::update (unit C07_lsearch_real)"]
PROPERTIES["C07"] = {
    "level": "other",
    "level_text": "bounded symbolic verification with an oracle function: every function evaluation returns fresh symbolic (value, gradient) constrained only to be a function (equal points give equal answers), so 'for any function, point, direction, step and tolerances' is a literal quantifier; every path of the real line-search code within max_iterations is explored and success => advertised conditions is decided by the solver on each",
    "level_note": SRE_NOTE + "; unit C07_lsearch replaces lsearchk_t::update by its non-logging equivalent and lsearch_step_t::interpolate by an arbitrary real (callers clamp it); unit C07_lsearch_real keeps both real",
    "technique": SRE_TECH,
    "explanation": "C07: real lsearchk_t::get + do_get of the five line-searches on an oracle function (1-2 dims), symbolic x, d, t0 in [1e-3,1e3] or non-finite, symbolic 0<c1<c2<1, optional +inf evaluations.",
    "assumptions": SRE_ASSUME + ["oracle function: fresh symbolic value/gradient per evaluation + functional consistency; evaluations selected by inf=/inf2= return +inf"],
    "bounds": {"dims": "1..2", "max_iterations": "1..4 (quick), 1..6 (thorough)", "t0": "[1e-3,1e3], +inf, NaN, -1"},
    "outside": ["'all five line-searches succeed on convex quadratics' (needs unbounded iterations)",
                "advertised-condition clause for More-Thuente and CG_DESCENT: both return success from 'no further progress / bracketing failed' exits by design; see known findings (unit C07_quad)"],
    "units": [
        {"engine": "sre", "harness": "C07_lsearch", "sources": ["C07_lsearch.cpp"],
         "quick": ["ls=backtrack;d=1;it=3", "ls=backtrack;d=2;it=4", "ls=backtrack;d=1;it=3;inf=1", "ls=backtrack;d=1;it=3;inf=1;inf2=2", "ls=backtrack;d=1;it=2;t0=inf",
                   "ls=backtrack;d=1;it=2;t0=nan", "ls=backtrack;d=1;it=2;t0=neg",
                   "ls=lemarechal;d=1;it=3", "ls=lemarechal;d=2;it=4", "ls=lemarechal;d=1;it=3;inf=1;inf2=2", "ls=lemarechal;d=1;it=2;t0=inf",
                   "ls=fletcher;d=1;it=3", "ls=fletcher;d=2;it=2", "ls=fletcher;d=1;it=2;inf=1", "ls=fletcher;d=1;it=2;t0=nan",
                   "ls=morethuente;d=1;it=1", "ls=cgdescent;d=1;it=1", "ls=morethuente;d=1;it=1;inf=1", "ls=cgdescent;d=1;it=1;inf=1"],
         "thorough": ["ls=%s;d=%d;it=%d" % (l, d, it) for l in ("backtrack", "lemarechal") for d in (1, 2) for it in (1, 2, 4, 6)] +
                     ["ls=fletcher;d=1;it=1", "ls=fletcher;d=1;it=2", "ls=fletcher;d=1;it=3", "ls=fletcher;d=2;it=3", "ls=fletcher;d=1;it=4"] +
                     ["ls=%s;d=1;it=3;inf=1;inf2=%d" % (l, k) for l in ("backtrack", "lemarechal", "fletcher") for k in (-1, 2, 3)] +
                     ["ls=%s;d=1;it=2;t0=%s" % (l, t) for l in ("backtrack", "lemarechal", "fletcher", "morethuente", "cgdescent") for t in ("inf", "nan", "neg")] +
                     ["ls=morethuente;d=1;it=2", "ls=cgdescent;d=1;it=2", "ls=morethuente;d=2;it=1", "ls=cgdescent;d=2;it=1"],
         "budget": {"quick": {"deadline_s": 100, "max_paths": 20000}, "thorough": {"deadline_s": 900, "max_paths": 400000}},
         "encoded": _C07_ENC},
        {"engine": "sre", "harness": "C07_lsearch_real", "sources": ["C07_lsearch.cpp"], "flags": ["-DREAL_UPDATE", "-DREAL_INTERPOLATE"],
         "quick": ["ls=backtrack;d=1;it=2;interp=0", "ls=backtrack;d=1;it=2;interp=1", "ls=lemarechal;d=1;it=2;interp=1", "ls=lemarechal;d=1;it=2;interp=0"],
         "thorough": ["ls=%s;d=1;it=2;interp=%d" % (l, i) for l in ("backtrack", "lemarechal") for i in (0, 1, 2)] + ["ls=fletcher;d=1;it=1;interp=1", "ls=backtrack;d=2;it=2;interp=1"],
         "budget": {"quick": {"deadline_s": 100, "max_paths": 20000}, "thorough": {"deadline_s": 900, "max_paths": 400000}},
         "encoded": _C07_ENC},
        {"engine": "sre", "harness": "C07_quad", "sources": ["C07_lsearch.cpp"],
         "quick": ["ls=cgdescent;d=1;it=4;fn=quad;scale=10;tol=def;strict=1", "ls=morethuente;d=1;it=3;fn=quad"],
         "thorough": ["ls=cgdescent;d=1;it=4;fn=quad;scale=10;tol=def;strict=1", "ls=morethuente;d=1;it=3;fn=quad"],
         "budget": {"quick": {"deadline_s": 40, "max_paths": 3000}, "thorough": {"deadline_s": 40, "max_paths": 3000}},
         "encoded": _C07_ENC},
    ],
}

_LS_SOLVERS = ["gd", "cgd-n", "cgd-hs", "cgd-fr", "cgd-pr", "cgd-cd", "cgd-ls", "cgd-dy", "cgd-dycd", "cgd-dyhs", "cgd-frpr", "lbfgs", "dfp", "sr1", "bfgs", "hoshino", "fletcher"]
_NLS_SOLVERS = ["sgm", "ellipsoid", "sda", "wda", "cocob", "asga2", "asga4", "fgm", "dgm", "pgm", "osga"]
_SOLVER_ENC = ["nano::solver_t::minimize", "nano::solver_t::done", "nano::solver_<id>_t::do_minimize (every configured id)",
               "nano::solver_state_t::{ctor, update, update_if_better, update_calls, gradient_test, value_test, valid, has_descent}",
               "direction code: L-BFGS two-loop recursion, CG betas and restarts, quasi-Newton H updates"]
PROPERTIES["C01"] = {
    "level": "other",
    "level_text": "bounded symbolic verification of the truthfulness clause: for every line-search solver, every function (oracle), every start, every epsilon in (0,0.1] and EVERY behaviour of the line-search (replaced by an arbitrary move + arbitrary verdict), a `converged` status implies the independently recomputed gradient criterion at the returned point; all paths of the real outer loops within max_evals=10 are explored",
    "level_note": SRE_NOTE + "; lsearch_t::get replaced by an over-approximating stub (state updated at arbitrary fresh points, arbitrary boolean returned)",
    "technique": SRE_TECH,
    "explanation": "C01 (second sentence): real solver_t::minimize -> do_minimize of the 17 line-search solvers on an oracle function; `converged` => max|g_i| < eps*max(1,|f|) recomputed from the oracle's log at the returned point; reported value/gradient are the oracle's answers there. Unit C01_dir (per-iteration ingredient of the first sentence): the direction each L-BFGS / BFGS / DFP / Hoshino / CG iteration hands to the line-search equals the textbook definition (explicit inverse-Hessian matrices built from the kept curvature pairs, documented betas, restart rules) for every sequence of iterates and gradients within the bounds.",
    "assumptions": SRE_ASSUME + ["oracle function (fresh symbolic value/gradient per evaluation, functionally consistent)", "line-search = arbitrary move stub (lsevals evaluations per call)"],
    "bounds": {"dims": "1..2", "max_evals": "10 (domain minimum) => <= 4 outer iterations (14 in one thorough configuration)", "epsilon": "(0, 0.1)",
               "direction unit": "d <= 2; configurations with prex/preg pin the first iterates / gradient answers to fixed rationals (symbols constrained by equalities, exact arithmetic) so that histories of 2-4 curvature pairs stay decidable; cgd-n and the sr1/fletcher updates are not compared"},
    "outside": ["first sentence of C01: convergence of L-BFGS/BFGS within 1500 evaluations and the distance bound on all well-conditioned quadratics (needs hundreds of floating-point iterations; not decidable by bounded symbolic execution over the reals)"],
    "units": [
        {"engine": "sre", "harness": "C01_solver", "sources": ["C01_solver.cpp"],
         "quick": ["solver=%s;d=1" % s for s in _LS_SOLVERS] + ["solver=lbfgs;d=2;lsevals=2", "solver=bfgs;d=2;lsevals=2", "solver=gd;d=2", "solver=cgd-pr;d=1;inf=1", "solver=lbfgs;d=1;inf=2"],
         "thorough": ["solver=%s;d=%d;lsevals=%d" % (s, d, k) for s in _LS_SOLVERS for (d, k) in ((1, 1), (2, 2), (1, 2))] +
                     ["solver=%s;d=1;inf=%d" % (s, i) for s in ("gd", "cgd-pr", "lbfgs", "bfgs") for i in (1, 2)] + ["solver=lbfgs;d=1;hist=1", "solver=lbfgs;d=2;evals=14;lsevals=2"],
         "budget": {"quick": {"deadline_s": 60, "max_paths": 5000}, "thorough": {"deadline_s": 600, "max_paths": 200000}},
         "encoded": _SOLVER_ENC},
        # search directions (per-iteration ingredient of the convergence clause): for ANY sequence of iterates and gradients the
        # direction handed to the line-search equals its textbook definition (explicit BFGS/DFP/Hoshino matrices, CG betas, restarts)
        {"engine": "sre", "harness": "C01_dir", "sources": ["C01_solver.cpp"],
         "quick": ["solver=lbfgs;d=2;lsevals=1;dir=1;prex=3;preg=3", "solver=lbfgs;d=2;lsevals=1;dir=1;prex=3;preg=3;hist=2", "solver=lbfgs;d=1;lsevals=1;dir=1",
                   "solver=bfgs;d=2;lsevals=1;dir=1;qinit=1", "solver=dfp;d=2;lsevals=1;dir=1;prex=2;preg=2;qinit=1", "solver=bfgs;d=2;lsevals=1;dir=1;prex=2;preg=2",
                   "solver=cgd-fr;d=2;lsevals=1;dir=1", "solver=cgd-dy;d=2;lsevals=1;dir=1", "solver=cgd-hs;d=2;lsevals=1;dir=1", "solver=cgd-dycd;d=2;lsevals=1;dir=1"],
         "thorough": ["solver=lbfgs;d=2;lsevals=1;dir=1" + x for x in ("", ";hist=1", ";prex=2;preg=2", ";prex=3;preg=3", ";prex=3;preg=3;hist=2", ";prex=3;preg=3;hist=1", ";prex=4;preg=4;evals=14")] +
                     ["solver=lbfgs;d=1;lsevals=%d;dir=1" % k for k in (1, 2)] +
                     ["solver=%s;d=2;lsevals=1;dir=1%s" % (sv, x) for sv in ("bfgs", "dfp", "hoshino") for x in ("", ";qinit=1", ";prex=2;preg=2", ";prex=2;preg=2;qinit=1", ";prex=3;preg=3")] +
                     ["solver=cgd-%s;d=%d;lsevals=%d;dir=1" % (sv, d, k) for sv in ("hs", "fr", "pr", "cd", "ls", "dy", "dyhs", "dycd", "frpr") for (d, k) in ((2, 1), (1, 2))],
         "budget": {"quick": {"deadline_s": 30, "max_paths": 3000, "query_s": 5}, "thorough": {"deadline_s": 300, "max_paths": 100000, "query_s": 20}},
         "encoded": _SOLVER_ENC},
    ],
}
PROPERTIES["C02"] = {
    "level": "other",
    "level_text": "bounded symbolic verification: for every registered solver that the engine can carry (see bounds), every function (oracle) and start, on every explored path of the real minimize(): the returned point was evaluated, the reported value (and gradient for line-search solvers) equals the function's answer there, the status is legal, reported evaluation counts do not exceed the evaluations performed, non-failed results are finite, and the evaluation budget is respected",
    "level_note": SRE_NOTE + "; line-search solvers use the arbitrary-move line-search stub of C01; other solvers run entirely real code",
    "technique": SRE_TECH,
    "explanation": "C02: real solver_t::minimize of line-search and non-line-search solvers on an oracle function with max_evals at the domain minimum.",
    "assumptions": SRE_ASSUME + ["oracle function (fresh symbolic value/gradient per evaluation, functionally consistent); convex flag set for solvers that require it"],
    "bounds": {"dims": "1..2", "max_evals": "10..14", "path budget": "exploration of solvers with deep inner loops (asga*, fgm/dgm/pgm, osga) is truncated by the path/time budget; coverage counts are in the units list"},
    "outside": ["termination and budget overshoot beyond the explored depth", "monotonicity clause (value not larger than the start value): not asserted for oracle functions",
                "gradient-sampling solvers (gs, ags, gs-lbfgs, ags-lbfgs): their inner QP solve on symbolic data exceeds the solver budget and is replaced by an arbitrary simplex point (unit C02_gs: every answer the interior-point solver could give; the random sample offsets are those of the fixed-seed generator, i.e. concrete); bundle solvers (rqb, fpba1, fpba2) are covered only with bundle::max_size = 2 (analytic multiplier update, unit C02_bundle, exploration truncated by the path/time budget)",
                "penalty and augmented-Lagrangian solvers: see C05"],
    "units": [
        {"engine": "sre", "harness": "C02_penalty", "sources": ["C05_alsolver.cpp"],
         "quick": ["d=1;cons=b;outers=2;solver=qp", "d=1;cons=e;outers=2;solver=lp", "d=1;cons=q;outers=2;solver=qp", "d=1;cons=l;outers=3;solver=lp", "d=1;cons=l;outers=2;solver=al"],
         "thorough": ["d=1;cons=%s;outers=%d;solver=%s" % (c, o, sv) for c in ("b", "l", "e", "q", "lb") for o in (2, 3) for sv in ("lp", "qp", "al")] + ["d=2;cons=l;outers=2;solver=qp", "d=2;cons=e;outers=2;solver=lp"],
         "budget": {"quick": {"deadline_s": 60, "max_paths": 20000, "query_s": 8}, "thorough": {"deadline_s": 900, "max_paths": 300000, "query_s": 30}},
         "encoded": ["nano::solver_penalty_t::minimize (linear / quadratic penalty solvers), nano::solver_augmented_lagrangian_t::do_minimize: outer loops with the inner solver replaced by a scripted arbitrary-point solver (solver_t::make_solver), nano::converged, nano::solver_t::done, nano::solver_state_t::update"]},
        {"engine": "sre", "harness": "C01_solver", "sources": ["C01_solver.cpp"],
         "quick": ["solver=%s;d=1;conv=1" % s for s in ("sgm", "ellipsoid", "sda", "wda")] + ["solver=gd;d=2;lsevals=2", "solver=lbfgs;d=1", "solver=bfgs;d=1;inf=1", "solver=ellipsoid;d=1;conv=1;inf=1", "solver=sgm;d=1;conv=1;smooth=0;inf=2"],
         "thorough": ["solver=%s;d=1;conv=1" % s for s in _NLS_SOLVERS] + ["solver=%s;d=2;conv=1;smooth=0" % s for s in ("sgm", "ellipsoid", "sda", "wda", "cocob")] +
                     ["solver=%s;d=1" % s for s in _LS_SOLVERS] + ["solver=ellipsoid;d=1;conv=1;inf=1", "solver=sgm;d=1;conv=1;inf=2", "solver=cocob;d=1;conv=1;evals=14"],
         "budget": {"quick": {"deadline_s": 60, "max_paths": 3000}, "thorough": {"deadline_s": 300, "max_paths": 50000}},
         "encoded": _SOLVER_ENC},
        {"engine": "sre", "harness": "C02_deep", "sources": ["C01_solver.cpp"],
         "quick": ["solver=osga;d=1;conv=1", "solver=fgm;d=1;conv=1"],
         "thorough": ["solver=osga;d=1;conv=1", "solver=osga;d=2;conv=1;smooth=0", "solver=cocob;d=1;conv=1", "solver=asga2;d=1;conv=1", "solver=asga4;d=1;conv=1",
                      "solver=fgm;d=1;conv=1", "solver=dgm;d=1;conv=1", "solver=pgm;d=1;conv=1"],
         "budget": {"quick": {"deadline_s": 45, "max_paths": 1500, "query_s": 3}, "thorough": {"deadline_s": 600, "max_paths": 100000, "query_s": 20}},
         "encoded": _SOLVER_ENC},
        # gradient-sampling solvers: real outer loop, samplers, preconditioners and line-search; the inner QP is an arbitrary simplex point
        {"engine": "sre", "harness": "C02_gs", "sources": ["C01_solver.cpp"], "flags": ["-DQP_ORACLE"],
         "quick": ["solver=gs;d=1;conv=1;smooth=0", "solver=ags-lbfgs;d=1;conv=1;smooth=0"],
         "thorough": ["solver=%s;d=%d;conv=1;smooth=0%s" % (sv, d, x) for sv in ("gs", "ags", "gs-lbfgs", "ags-lbfgs") for (d, x) in ((1, ""), (2, ""), (1, ";qpfail=1"), (1, ";evals=16"))],
         "budget": {"quick": {"deadline_s": 30, "max_paths": 1500, "query_s": 3}, "thorough": {"deadline_s": 300, "max_paths": 100000, "query_s": 20}},
         "encoded": _SOLVER_ENC + ["nano::base_solver_gs_t<fixed / adaptive sampler, identity / lbfgs preconditioner>::do_minimize", "nano::gsample::{fixed_sampler_t, adaptive_sampler_t}::{sample, descent}",
                                   "nano::gsample::{identity, lbfgs}_preconditioner_t::update", "nano::gsample::lsearch_t::step", "nano::gsample::perturbation_t::generate", "nano::sample_from_ball (fixed-seed generator: concrete offsets)",
                                   "program::solver_t::solve(quadratic) replaced by an arbitrary point of the simplex (link time)"]},
        {"engine": "sre", "harness": "C02_bundle", "sources": ["C01_solver.cpp"],
         "quick": ["solver=rqb;d=1;conv=1;smooth=0;bsize=2", "solver=fpba1;d=1;conv=1;smooth=0;bsize=2"],
         "thorough": ["solver=%s;d=1;conv=1;smooth=0;bsize=2" % sv for sv in ("rqb", "fpba1", "fpba2")] + ["solver=rqb;d=2;conv=1;smooth=0;bsize=2", "solver=fpba2;d=1;conv=1;smooth=0;bsize=2;evals=14"],
         "budget": {"quick": {"deadline_s": 40, "max_paths": 1500, "query_s": 3}, "thorough": {"deadline_s": 600, "max_paths": 100000, "query_s": 20}},
         "encoded": _SOLVER_ENC + ["nano::solver_rqb_t::do_minimize", "nano::solver_fpba_t::do_minimize", "nano::bundle_t (max_size 2: analytic multiplier update)", "nano::csearch_t", "nano::proximity_t", "nano::nesterov sequences"]},
    ],
}

PROPERTIES["C11"] = {
    "level": "other",
    "level_text": "bounded symbolic verification: for EVERY history (symbolic per-sample errors/losses, symbolic epsilon) of the configured length the real early-stopping monitor agrees with a reference monitor written from the property statement at every step; for every content of the stored tensors ml::result_t returns exactly the statistics stored under each (trial, fold) and the true optimum trial",
    "level_note": SRE_NOTE + "; unit C11_fit replaces nano::ml::tune by a scripted driver at link time",
    "technique": SRE_TECH,
    "explanation": "C11: gboost::early_stopping_t::done/round/value/values over all histories of length k; ml::result_t::{add, store, stats, value, values, extra, optimum_trial} with distinct symbols per stored tensor (an index mix-up is a solver-visible violation).",
    "assumptions": SRE_ASSUME + ["error values boxed to [0,1000] (values >= DBL_MAX-eps would defeat the monitor's numeric_limits::max() sentinel and are outside the claim)"],
    "bounds": {"history length": "<= 5 (quick), <= 7 (thorough)", "patience": "1..4", "trials x folds": "<= 3 x 3", "samples per stored tensor": "1..2"},
    "outside": ["the inner solvers of the boosting rounds (unit C11_rounds runs the real rounds with an arbitrary-point oracle as inner solver; its exploration is truncated by the path/time budget: 8-20 complete paths in the quick tier); unit C11_fit replaces the tuning driver by a scripted one (symbolic per-fold models and error tensors) and covers the real code AFTER the driver: fold averaging, prediction = bias + sum of weak learners, final statistics recomputed on the fitted samples",
                "fit() of linear models with the real inner solver (unit C11_linear runs the real fit with an arbitrary-point oracle as inner solver: per-fold and final statistics vs recomputation; the absolute-error statistics mostly come back `unknown` from nlsat, the loss statistics are decided; exploration is truncated by the path budget in the quick tier)"],
    "units": [
        {"engine": "sre", "harness": "C11_monitor", "sources": ["C11_monitor.cpp"],
         "quick": ["mode=es;k=%d;pat=%d;valid=%d" % (k, p, v) for (k, p, v) in ((3, 1, 1), (5, 2, 1), (5, 3, 1), (4, 2, 0), (5, 4, 1), (5, 1, 1))] +
                  ["mode=res;T=2;F=2", "mode=res;T=3;F=2;big=3", "mode=res;T=2;F=3;big=5", "mode=res;T=1;F=2;big=1"],
         "thorough": ["mode=es;k=%d;pat=%d;valid=%d" % (k, p, v) for k in (3, 5, 7) for p in (1, 2, 3, 4) for v in (0, 1)] +
                     ["mode=res;T=%d;F=%d;big=%d" % (t, f, b) for (t, f) in ((2, 2), (3, 2), (2, 3), (3, 3), (1, 1)) for b in (0, 1)],
         "encoded": ["nano::gboost::early_stopping_t::done", "nano::gboost::mean_error", "nano::ml::result_t::{add, store, stats, value, values, extra, optimum_trial}",
                     "nano::ml::store_stats", "nano::ml::load_stats", "nano::percentile (through store_stats)"]},
        {"engine": "sre", "harness": "C11_fit", "sources": ["C11_fit.cpp"],
         "quick": ["n=4;sub=1;T=1;F=2;wl=1", "n=5;sub=1;T=2;F=2;wl=2", "n=4;sub=0;T=1;F=2;wl=1"],
         "thorough": ["n=4;sub=1;T=1;F=2;wl=1", "n=5;sub=1;T=2;F=2;wl=2", "n=4;sub=0;T=1;F=2;wl=1", "n=5;sub=1;T=1;F=2;wl=3", "n=6;sub=1;T=3;F=2;wl=1", "n=4;sub=0;T=2;F=3;wl=1", "n=5;sub=1;T=1;F=3;wl=2"],
         "budget": {"quick": {"deadline_s": 60, "max_paths": 5000, "query_s": 5}, "thorough": {"deadline_s": 900, "max_paths": 100000, "query_s": 30}},
         "encoded": ["nano::gboost_model_t::fit (everything after the tuning driver: optimum trial, fold-model summation, wlearner::merge, scale(1/folds), predict, gboost::evaluate, selected(), result_t::store)",
                     "nano::gboost_model_t::do_predict", "nano::learner_t::{fit_dataset, predict}", "nano::affine_wlearner_t::{do_predict, scale, try_merge}", "nano::ml::result_t::{optimum_trial, extra, store, stats}",
                     "nano::targets_iterator_t::loop", "nano::flatten_loss_t<mse>::{value, error}"]},
        {"engine": "sre", "harness": "C11_rounds", "sources": ["C11_rounds.cpp"],
         "quick": ["n=4;folds=2;ws=1;wl=dense-table;f=sr;pos=1"],
         "thorough": ["n=4;folds=2;ws=1;wl=dense-table;f=sr;pos=1", "n=4;folds=2;ws=0;wl=affine;f=rr;pos=1", "n=4;folds=2;ws=1;wl=dense-table;f=sr;pos=0", "n=5;folds=2;ws=1;wl=stump;f=rr;pos=1", "n=6;folds=3;ws=1;wl=dense-table;f=ssr;pos=1"],
         "budget": {"quick": {"deadline_s": 60, "max_paths": 3000, "query_s": 5}, "thorough": {"deadline_s": 1200, "max_paths": 100000, "query_s": 30}},
         "encoded": ["nano::gboost_model_t::fit", "(anonymous)::fit (boosting rounds: bias, gradients, weak-learner selection, make_cluster, scale function, shrinkage, early stopping)", "nano::gboost::result_t::{update, done}", "nano::gboost::evaluate",
                     "nano::gboost::early_stopping_t::done", "nano::gboost::sampler_t::sample", "nano::dense_table_wlearner_t / affine_wlearner_t::{fit, predict, scale, split}", "nano::ml::tune (real driver)", "solver_t::minimize replaced by an arbitrary-point oracle"]},
        {"engine": "sre", "harness": "C11_linear", "sources": ["C11_linear.cpp"],
         "quick": ["model=ordinary;n=5;folds=2;sc=0;sub=1"],
         "thorough": ["model=ordinary;n=4;folds=2;sc=0", "model=ordinary;n=5;folds=2;sc=0;sub=1", "model=ordinary;n=4;folds=2;sc=2", "model=ordinary;n=6;folds=3;sc=0;sub=1", "model=ridge;n=4;folds=2;sc=0"],
         "budget": {"quick": {"deadline_s": 45, "max_paths": 3000, "query_s": 5}, "thorough": {"deadline_s": 900, "max_paths": 100000, "query_s": 30}},
         "encoded": ["nano::linear_t::{fit, do_predict}", "(anonymous)::fit (flatten iterator, make_function, un-scaling of weights and bias)", "nano::linear::evaluate", "nano::linear::predict", "nano::ml::tune (real driver)", "nano::ml::result_t::{store, stats, extra, optimum_trial}",
                     "nano::kfold_splitter_t::split", "nano::upscale(stats, scaling, ...)", "solver_t::minimize replaced by an arbitrary-point oracle"]},
    ],
}

PROPERTIES["C19"] = {
    "level": "other",
    "level_text": "bounded symbolic verification: for every domain (symbolic min/max for real parameters, windowed concrete bounds for integer ones, both comparator kinds) and every history of assignments of the configured length (symbolic reals, NaN/inf/boundary values, integers, strings from a small alphabet) the real parameter_t accepts exactly the in-domain values, reads them back as assigned, and rejects the others with an exception leaving the previous value",
    "level_note": SRE_NOTE + "; " + SBV_NOTE,
    "technique": SRE_TECH + "; parameter look-up by a symbolic name and kind-mismatched reads (unit C19_names) by " + SBV_TECH,
    "explanation": "C19: factory clause (unit C19_factory: every registered solver, line-search, loss, splitter, tuner, weak learner, linear model: id, defaults inside their domains, clone equality, independent modification with SYMBOLIC in-domain / out-of-domain values); first sentence: parameter_t::make_{scalar,integer,scalar_pair,integer_pair}, operator= (double, int64, tuple, string), value<>/value_pair<>, write/read round trip against a reference model written from the property.",
    "assumptions": SRE_ASSUME + ["integer parameters: symbolic real assignments boxed to [-5.75, 6.75] (float->int conversion enumerated by the solver); out-of-range float->int conversion is UB in the source and outside the claim"],
    "bounds": {"history length": "<= 3 (quick), <= 4 (thorough)", "integer window": "[-2,3]", "comparators": "all LE/LT combinations"},
    "outside": ["parsing of arbitrary text (stod/stoll on garbage beyond the 4-string alphabet)", "factory clause 'behaves identically' (behavioural equivalence of clones beyond equal parameters)", "data-source, generator and function factories (objects that need files / have no parameters / are covered by C06)"],
    "units": [
        {"engine": "sbv", "harness": "C19_names", "sources": ["C19_names.cpp", "sbv_support.cpp"],
         "quick": ["L=3", "L=4", "obj=solver;L=16", "obj=solver;L=22", "mode=enum;L=5", "mode=enum;L=6"],
         "thorough": ["L=3", "L=4", "L=5", "obj=solver;L=16", "obj=solver;L=22", "obj=solver;L=28", "mode=enum;L=5", "mode=enum;L=6", "mode=enum;L=8"],
         "budget": {"quick": {"deadline_s": 100, "max_paths": 20000, "query_s": 20}, "thorough": {"deadline_s": 900, "max_paths": 200000, "query_s": 60}},
         "encoded": ["nano::configurable_t::{register_parameter, parameter_if, parameter} + the file-local find_param with a SYMBOLIC name (every byte string up to the configured length)", "nano::parameter_t::{value<T>, value_pair<T>} kind checks (integer, scalar, pair, enumeration, string)", "nano::parameter_t::operator=(string_t) on an enumeration parameter with a SYMBOLIC string (file-local update(name, enum_t&, value))"]},
        {"engine": "sre", "harness": "C19_params", "sources": ["C19_params.cpp"],
         "quick": ["kind=fr;lo=%d;hi=%d;ops=3;ser=%d" % (a, b, a) for a in (0, 1) for b in (0, 1)] + ["kind=fr;lo=0;hi=1;ops=2;sp=%d" % s for s in (1, 2, 3, 4, 5)] +
                  ["kind=fp;ops=2;lo=0;mid=0;hi=0", "kind=fp;ops=2;lo=1;mid=1;hi=1", "kind=fp;ops=1;sp=1", "kind=ir;ops=2;lo=0;hi=1", "kind=ir;ops=2;lo=1;hi=0",
                   "kind=ip;lo=1;hi=1;mid=0", "kind=ip;lo=0;hi=0;mid=1"],
         "thorough": ["kind=fr;lo=%d;hi=%d;ops=4;ser=1" % (a, b) for a in (0, 1) for b in (0, 1)] + ["kind=fr;lo=%d;hi=%d;ops=2;sp=%d" % (a, 1 - a, s) for a in (0, 1) for s in (1, 2, 3, 4, 5)] +
                     ["kind=fp;ops=2;lo=%d;mid=%d;hi=%d;ser=1" % (a, b, c) for a in (0, 1) for b in (0, 1) for c in (0, 1)] + ["kind=fp;ops=2;sp=%d" % s for s in (1, 2, 4, 5)] +
                     ["kind=ir;ops=3;lo=%d;hi=%d" % (a, b) for a in (0, 1) for b in (0, 1)] + ["kind=ip;lo=%d;hi=%d;mid=%d" % (a, b, c) for a in (0, 1) for b in (0, 1) for c in (0, 1)],
         "encoded": ["nano::parameter_t::make_scalar/_integer/_scalar_pair/_integer_pair", "nano::parameter_t::operator=(scalar/int64/tuple/string)", "(anonymous)::update(range_t/pair_range_t)",
                     "(anonymous)::check(LEorLT)", "nano::parameter_t::value / value_pair", "nano::parameter_t::read / write", "nano::operator==(parameter_t)"]},
        {"engine": "sre", "harness": "C19_factory", "sources": ["C19_factory.cpp"], "flags": ["-fno-access-control"],
         "quick": ["fac=solver;from=%d;count=1;nested=1" % i for i in range(0, 36)] + ["fac=%s" % f for f in ("lsearchk", "lsearch0", "loss", "splitter", "tuner", "wlearner", "linear")],
         "thorough": ["fac=solver;from=%d;count=1;nested=1" % i for i in range(0, 40)] + ["fac=%s" % f for f in ("lsearchk", "lsearch0", "loss", "splitter", "tuner", "wlearner", "linear")],
         "budget": {"quick": {"deadline_s": 60, "max_paths": 5000}, "thorough": {"deadline_s": 300, "max_paths": 50000}},
         "encoded": ["nano::factory_t<T>::{ids, get}", "T::all() for solver, lsearch0, lsearchk, loss, splitter, tuner, wlearner, linear", "nano::configurable_t::{parameter, parameters, register_parameter}", "T::clone (clonable_t)",
                     "nano::parameter_t::operator=(scalar / int64)", "nano::operator==(parameter_t)", "nano::typed_t::type_id", "nano::solver_t copy constructor / lsearch0(const lsearch0_t&) / lsearchk(const lsearchk_t&) (nested configurable objects)"]},
    ],
}

_C16_ROOTS = ["k_offset1", "k_offset2", "k_offset3", "k_offset4", "k_size4", "k_at3", "k_sub3", "k_vec3", "k_mat3", "k_sub4", "k_reshape3", "k_reshape2to3", "k_slice3",
              "k_idiv", "k_iround", "k_integral1_i8_i32", "k_integral2_i8_i32", "k_integral2_i32_i64", "k_integral3_u8_i64"]
_C16_H = [{"func": "h_offset4", "unwind": 8, "desc": "rank-4 offset: in range, row-major formula, injective, order preserving; all dims in 0..6 and indices symbolic"},
          {"func": "h_offset123", "unwind": 8, "desc": "rank 1-3 offsets"},
          {"func": "h_views3", "unwind": 8, "desc": "operator(), tensor(i0), vector(i0,i1), matrix(i0) alias the right elements"},
          {"func": "h_views4", "unwind": 8, "desc": "tensor(i0,i1) of a rank-4 tensor"},
          {"func": "h_reshape", "unwind": 8, "desc": "reshape rank3->rank2 incl. one inferred -1"},
          {"func": "h_reshape23", "unwind": 8, "desc": "reshape rank2->rank3 incl. one inferred -1"},
          {"func": "h_slice", "unwind": 8, "desc": "first-axis slice [b,e)"},
          {"func": "h_idiv", "unwind": 4, "desc": "idiv/iround: round-half-up division"},
          {"func": "h_integral1", "unwind": 7, "desc": "summed-area table rank 1, int8 -> int32, all contents symbolic"},
          {"func": "h_integral2", "unwind": 11, "desc": "summed-area table rank 2 (<=2x3), int8 -> int32"},
          {"func": "h_integral2w", "unwind": 8, "desc": "summed-area table rank 2 (<=2x3), int32 -> int64, full int32 range"},
          {"func": "h_integral3", "unwind": 10, "desc": "summed-area table rank 3 (2x2x2), uint8 -> int64"}]
PROPERTIES["C16"] = {
    "level": "model_checking",
    "level_text": "bounded model checking of the lifted real code: for ALL dimensions in 0..6 (rank<=4) and all index tuples, prefixes, slices and reshape factorisations (bit-vector symbolic), offsets are the row-major bijection, views/slices/reshapes alias exactly the elements of full indexing; summed-area tables equal naive prefix sums for all byte contents incl. narrow->wide scalar types. SBV unit (bounded symbolic execution of the real headers incl. allocation): index gathers, remove_if, stack, storage conversions and rank-5 views on concrete shapes with symbolic contents, indices, flags and slice bounds",
    "level_note": LIFT_NOTE + "; " + SBV_NOTE,
    "technique": LIFT_TECH + "; allocating algorithms and rank 5 by " + SBV_TECH,
    "explanation": "C16: tensor index arithmetic and views lifted from include/nano/tensor/*.h through extern-C shims; CBMC decides every assertion for all symbolic dims/indices.",
    "assumptions": ["dims bounded by 6 (rank 4 views: 5)", "buffers owned by the driver (tensor maps, no allocation)", "reshape precondition: the product of the given dims divides / equals the size"],
    "bounds": {"rank": "1..4", "dims": "0..6", "integral shapes": "<= 5, <= 2x3, 2x2x2", "idiv": "n <= 255, d <= 16", "unwind": "4..11 with unwinding assertions"},
    "outside": ["dims > 6 (LIFT-C unit); the SBV unit (index gathers, remove_if, stack, storage conversions, rank 5) uses concrete shapes per configuration with symbolic contents and indices", "rank > 5"],
    "units": [
        {"engine": "lift", "name": "C16_tensor", "shim": "C16_shim.cpp", "driver": "C16_drv.c", "roots": _C16_ROOTS,
         "quick": _C16_H, "thorough": _C16_H,
         "encoded": ["nano::index<1..4>", "nano::size(dims)", "tensor_t::operator()", "tensor_t::tensor/vector/matrix(indices...)", "tensor_t::reshape (detail::reshape with -1)", "tensor_t::slice",
                     "nano::idiv", "nano::iround", "nano::integral / integral_t<1..3>::get"]},
        {"engine": "sbv", "harness": "C16_alloc", "sources": ["C16_alloc.cpp"],
         "quick": ["mode=indexed;rank=1;d0=3;k=3", "mode=indexed;rank=2;d0=3;d1=2;k=3", "mode=indexed;rank=3;d0=3;d1=2;d2=2;k=2", "mode=indexed;rank=2;d0=4;d1=1;k=0", "mode=removeif;n=4;d1=2", "mode=removeif;n=5;d1=1",
                   "mode=stack", "mode=stack;r1=1;r2=2;c1=3;c2=2", "mode=storage", "mode=storage;d0=1;d1=4", "mode=rank5", "mode=rank5;d0=1;d1=2;d2=3;d3=1;d4=2", "mode=rank5;d0=3;d1=1;d2=1;d3=3;d4=1"],
         "thorough": ["mode=indexed;rank=%d;d0=%d;d1=%d;d2=2;k=%d" % (r, a, b, k) for r in (1, 2, 3) for (a, b, k) in ((3, 2, 3), (4, 3, 2), (2, 1, 4), (4, 1, 0))] +
                     ["mode=removeif;n=%d;d1=%d" % (n, d) for (n, d) in ((4, 2), (5, 1), (6, 2), (1, 1), (7, 1))] +
                     ["mode=stack;r1=%d;r2=%d;c1=%d;c2=%d" % t for t in ((2, 1, 2, 1), (1, 2, 3, 2), (3, 3, 1, 1), (1, 1, 1, 4))] + ["mode=storage;d0=%d;d1=%d" % t for t in ((2, 3), (1, 4), (3, 3))] +
                     ["mode=rank5;d0=%d;d1=%d;d2=%d;d3=%d;d4=%d" % t for t in ((2, 3, 2, 2, 3), (1, 2, 3, 1, 2), (3, 1, 1, 3, 1), (2, 2, 2, 2, 2), (4, 1, 2, 1, 3), (1, 1, 1, 1, 1))],
         "budget": {"quick": {"deadline_s": 100, "max_paths": 20000, "query_s": 20}, "thorough": {"deadline_s": 900, "max_paths": 200000, "query_s": 60}},
         "encoded": ["tensor_t::indexed (rank 1-3, with scalar conversion)", "nano::remove_if(op, tensors...)", "nano::stack<scalar>(rows, cols, blocks...) / stack<scalar>(rows, segments...)",
                     "tensor_vector_storage_t / tensor_marray_storage_t / tensor_carray_storage_t conversions, copy and move", "nano::index<5>, tensor_t<.., 5>::operator(), tensor(i0,i1), vector(i0..i3), matrix(i0,i1,i2), slice, reshape(-1)"]},
    ],
}

_C08_LIFT = {"engine": "lift", "name": "C08_index", "shim": "C08_shim.cpp", "driver": "C08_drv.c", "throws": ["_ZN4nano9critical0*"],
             "lib_sources": ["src/dataset.cpp", "src/datasource/mask.cpp"],
             "roots": ["k_setbit", "k_getbit", "k_optional", "k_iter", "k_check_samples", "k_check_feature"],
             "quick": [{"func": "h_mask", "unwind": 5, "desc": "setbit/getbit on masks of 1..3 bytes, every sample index"},
                       {"func": "h_optional", "unwind": 22, "desc": "optional(mask, samples) for 1..20 samples incl. non-multiples of 8"},
                       {"func": "h_iter", "unwind": 8, "desc": "datasource_iterator: position, stored sample through the shuffle table, value, given bit"},
                       {"func": "h_check_samples", "unwind": 6, "desc": "dataset_t::check(samples): lists of <=4 indices in [-3,19], N in 1..16"},
                       {"func": "h_check_feature", "unwind": 3, "desc": "dataset_t::check(feature)"}],
             "encoded": ["nano::setbit", "nano::getbit", "nano::optional(mask, samples)", "nano::base_datasource_iterator_t::sample / operator++", "nano::datasource_iterator_t<int32,1>::operator*",
                         "nano::make_iterator", "nano::dataset_t::check(indices_cmap_t)", "nano::dataset_t::check(tensor_size_t)"]}
_C08_LIFT["thorough"] = _C08_LIFT["quick"]
PROPERTIES["C08"] = {
    "level": "other",
    "level_text": "LIFT-C unit: bounded model checking (CBMC) of the lifted mask / iterator / range-check code with all sample indices, list contents and mask bytes symbolic. SBV unit C08_storage: bounded symbolic execution of the real datasource -> storage -> dataset -> generator stack with SYMBOLIC integer / label / label-set / float cells of the storage types int8, uint16, int32, int64, float32, float64, uint8..uint16 label storage (class counts 2..257) and a SYMBOLIC given/missing mask: select and flatten of every feature equal the stored values under the documented encodings, missing = NaN / -1, column bookkeeping consistent; a fault of the real code (e.g. null dereference) on any feasible path is reported with the path's model and confirmed on the native build. SRE unit C08_views: symbolic execution of the real datasource -> dataset -> generator stack with one distinct symbol per float64 cell: select/flatten/targets must return exactly the stored symbols (handle identity) under the documented encodings, drop/shuffle/undo included; because the views forward cells unchanged these obligations are decided structurally (no arithmetic query is needed), and the categorical / uint8 parts and the 2^8 class-count boundary configurations are concrete enumerations",
    "level_note": LIFT_NOTE + "; dataset_t object fabricated field-by-field in the shim (check() only reads the sample and feature counts); nano::critical0<...> lowered to an exception flag",
    "technique": LIFT_TECH + "; storage types / missing masks by " + SBV_TECH + "; float64 views by " + SRE_TECH,
    "explanation": "C08: index-space clauses (bit masks, iterator -> stored sample mapping, rejection of out-of-range sample/feature indices) by CBMC; view clauses (select / flatten / targets / drop / shuffle) by symbolic execution with distinct symbols per cell.",
    "assumptions": ["N <= 16 samples, lists of <= 4 indices (repetitions, any order), masks <= 3 bytes"],
    "bounds": {"samples": "1..16 (masks up to 24 bits, optional() up to 20 samples)", "list length": "<= 4", "unwind": "3..22 with unwinding assertions"},
    "outside": ["16 threads, schemas beyond the enumerated ones", "structured integer features, uint32/uint64/int16/uint8 scalar storage, more than 3 samples with symbolic masks", "pairwise / product / gradient generators"],
    "units": [_C08_LIFT,
        {"engine": "sre", "harness": "C08_views", "sources": ["C08_views.cpp"],
         "quick": ["f=rsmr;n=3", "f=rSsr;n=3;miss=4;df=1", "f=rrSr;n=4;miss=1;df=2", "f=smur;n=3;cls=256", "f=sur;n=3;cls=256;df=1", "f=sur;n=3;cls=255", "f=sur;n=3;cls=257", "f=rsmr;n=3;order=0;miss=0", "f=rsmr;n=3;threads=3;sched=2", "f=rSsr;n=3;miss=4;df=1;threads=2;sched=1"],
         "thorough": ["f=%s;n=%d;miss=%d;df=%d;order=%d" % (f, n, mi, df, o) for f in ("rsmr", "rSsr", "rrSr", "msrSr") for (n, mi) in ((3, 1), (4, 4), (5, 0)) for df in (0, 1) for o in (0, 1)] +
                     ["f=%s;n=3;cls=%d;df=%d" % (f, c, df) for f in ("smur", "sur", "usr") for c in (2, 255, 256, 257) for df in (0, 1)],
         "encoded": ["nano::dataset_t::{flatten, select, targets, drop, undrop, shuffle, unshuffle, shuffled, columns, column2feature, feature}", "nano::elemwise_generator_t<identity>::{flatten, select_*}",
                     "nano::datasource_t::{resize, set, visit}", "nano::feature_storage_t::set", "nano::generator_t::{shuffle, shuffled, should_drop, flatten_dropped}"]},
        {"engine": "sbv", "harness": "C08_storage", "sources": ["C08_storage.cpp", "sbv_support.cpp"], "env": {"SBV_MERGE_CAP": "300"},
         "quick": ["f=sa;n=2;cls=3", "f=mbe;n=2", "f=dcr;n=2", "f=sm;n=2;cls=2", "f=s;n=1;cls=256;rep=0", "f=s;n=1;cls=257;rep=0", "f=s;n=1;cls=255;rep=0", "f=ms;n=1;cls=4", "f=s;n=1;cls=3;rep=0;bad=1", "f=s;n=1;cls=256;rep=0;bad=1", "f=sa;n=2;cls=300;rep=0;bad=1",
                   "f=ca;n=1;gen=product;rep=0", "f=ab;n=1;gen=product;rep=0", "f=dc;n=1;gen=product;rep=0", "f=EE;n=2;gen=product;rep=0", "f=a;n=2;tdims=1", "f=sr;n=2;tdims=1;rep=0"],
         "thorough": ["f=%s;n=%d;cls=%d" % t for t in (("sa", 2, 3), ("mbe", 2, 3), ("dcr", 2, 3), ("sm", 3, 2), ("ab", 3, 3), ("es", 2, 5), ("rm", 2, 3), ("cd", 2, 3), ("sss", 2, 3))] +
                     ["f=s;n=1;cls=%d;rep=0" % c for c in (2, 255, 256, 257)] + ["f=s;n=2;cls=256;rep=1", "f=ms;n=1;cls=4", "f=s;n=1;cls=3;rep=0;bad=1", "f=s;n=1;cls=256;rep=0;bad=1", "f=sa;n=2;cls=300;rep=0;bad=1", "f=s;n=2;cls=65536;rep=0;bad=1"] +
                     ["f=%s;n=%d;gen=product;rep=0" % t for t in (("ca", 1), ("ab", 1), ("dc", 1), ("EE", 2), ("cab", 2), ("be", 1), ("aE", 2), ("ca", 2))] + ["f=a;n=2;tdims=1", "f=sr;n=2;tdims=1;rep=0", "f=mb;n=3;tdims=1"],
         "budget": {"quick": {"deadline_s": 150, "max_paths": 20000, "query_s": 20}, "thorough": {"deadline_s": 1200, "max_paths": 200000, "query_s": 60}},
         "encoded": ["nano::datasource_t::{resize, set (every storage type), load, visit}", "nano::feature_storage_t / update_size_storage (storage type selection by class count)", "nano::setbit/getbit masks (symbolic given/missing pattern)",
                     "nano::dataset_t::{add, flatten, select, targets, columns, column2feature, feature}", "nano::elemwise_generator_t<sclass/mclass/scalar identity>::{flatten, select}", "nano::feature_t"]},
    ],
}

PROPERTIES["C17"] = {
    "level": "model_checking",
    "level_text": "bounded: (1) unit C17_threads - the REAL pool (constructor starting std::threads, worker loops, enqueue / notify, both map() barriers over futures, exception transport, destructor) runs under the SBV interpreter's cooperative thread model: every std::thread is an interpreter context, context switches happen at the visible operations (thread start / exit / join, mutex lock, condition wait / notify, future wait, a yield inside every task) and the choice of the next thread is a symbolic variable concretised by forking, so within the preemption bound every schedule of K <= 3 workers, <= 2 submitters and <= 3 tasks is explored: exactly-once, worker-id validity and exclusivity, returns-after-all-tasks, exception re-throw, no deadlock in map() and in the destructor of an idle / busy / queued pool. (2) unit C17_enqueue - symbolic (elements, chunksize) on the real enqueue path with a sequentialised barrier and arbitrary worker ids. (3) LIFT-C unit - the inline path's tiling arithmetic for elements <= 2^40 by CBMC",
    "level_note": LIFT_NOTE + "; pool object fabricated without threads; __builtin_unreachable() hint specialises map() to the inline path; " + SBV_NOTE + "; thread model: engine/sbv/sbv_threads.inc",
    "technique": LIFT_TECH + "; enqueue path and interleavings by " + SBV_TECH,
    "explanation": "C17: pool_t / queue_t / worker_t / section_t from include/nano/core/parallel.h and src/core/parallel.cpp. Interleavings: SBV thread model (schedules are symbolic choices, replayed by the interpreter from the violation file); element / chunk arithmetic: SBV with symbolic sizes and CBMC on the lifted inline path.",
    "assumptions": ["LIFT-C: pool size 1 (inline path), <= 8 chunks / <= 8 elements (unwind 10), elements, chunksize <= 2^40",
                    "thread model: code between two visible operations runs atomically (data races are not detected); no spurious wake-ups of condition variables; libstdc++'s mutex / condition_variable / futex wait / thread start / join are modelled by the interpreter (their semantics, not their implementation); std::call_once runs its callable inline",
                    "pool_t::max_size() replaced by a constant K (independent of the machine)"],
    "bounds": {"chunks": "<= 8 (LIFT-C)", "elements": "<= 2^40 (chunked map, LIFT-C), symbolic up to 10^6 with <= 70 tasks (C17_enqueue)",
               "thread model": "K <= 3 workers, <= 3 tasks, <= 2 submitting threads, preemption bound 2 (switches at blocking operations are free); configurations with K = 2 are exhaustive within the preemption bound, larger ones are cut by the path / time budget (counts in the evidence)"},
    "outside": ["data races (the model is sequentially consistent at the granularity of visible operations; ThreadSanitizer territory)", "schedules beyond the preemption bound, pools with more than 3 workers / 3 tasks, more than 2 submitters",
                "spurious wake-ups", "behaviour of the real libstdc++ / pthread primitives themselves"],
    "units": [
        {"engine": "lift", "name": "C17_map", "shim": "C17_shim.cpp", "driver": "C17_drv.c", "roots": ["k_map_chunks", "k_map_each"], "link_real_lib": True,
         "quick": [{"func": "h_map_chunks", "unwind": 10, "desc": "map(elements, chunksize, op): exactly-once tiling for all elements<=2^40 and chunk sizes with <=8 chunks"},
                   {"func": "h_map_each", "unwind": 10, "desc": "map(elements, op): every index once, in order"}],
         "thorough": [{"func": "h_map_chunks", "unwind": 10, "desc": "as quick"}, {"func": "h_map_each", "unwind": 10, "desc": "as quick"}],
         "timeout": {"quick": 400, "thorough": 1500},
         "encoded": ["nano::parallel::pool_t::map(elements, chunksize, op, raise) [inline path]", "nano::parallel::pool_t::map(elements, op, raise) [inline path]", "nano::parallel::pool_t::size"]},
        {"engine": "sbv", "harness": "C17_enqueue", "sources": ["C17_enqueue.cpp"],
         "quick": ["mode=chunks;K=3;maxchunks=4", "mode=chunks;K=2;maxchunks=10", "mode=each;K=3;maxchunks=4", "mode=each;K=4;maxchunks=2", "mode=each;K=2;maxchunks=40"],
         "thorough": ["mode=chunks;K=%d;maxchunks=%d" % t for t in ((3, 4), (2, 10), (4, 6), (8, 5), (2, 24))] + ["mode=each;K=%d;maxchunks=%d" % t for t in ((3, 4), (4, 2), (2, 40), (3, 56), (4, 70))],
         "budget": {"quick": {"deadline_s": 120, "max_paths": 5000, "query_s": 30}, "thorough": {"deadline_s": 900, "max_paths": 50000, "query_s": 60}},
         "encoded": ["nano::parallel::pool_t::map(elements, chunksize, op, raise) [enqueue path: queue_t::enqueue_no_lock, std::packaged_task, std::future, section_t]", "nano::parallel::pool_t::map(elements, op, raise) [enqueue path]",
                     "std::deque<task_t> / std::scoped_lock / condition_variable::notify_all (native on the real objects, single thread)", "section_t::block replaced by the sequentialised barrier (drains the queue with arbitrary worker ids, then the original future loop)"]},
        {"engine": "sbv", "harness": "C17_threads", "sources": ["C17_threads.cpp"], "replay_with": "interpreter",
         "quick": ["mode=each;K=2;n=2;symn=1", "mode=chunks;K=2;n=3;chunk=2;symn=1", "mode=throw;K=2;n=2;symn=1", "mode=queued;K=2;n=2", "mode=two;K=2;n=2", "mode=each;K=3;n=3"],
         "thorough": ["mode=each;K=2;n=2;symn=1", "mode=each;K=2;n=3;symn=1", "mode=chunks;K=2;n=3;chunk=2;symn=1", "mode=chunks;K=2;n=4;chunk=2;symn=1", "mode=chunks;K=3;n=5;chunk=2", "mode=throw;K=2;n=2;symn=1", "mode=throw;K=3;n=3",
                      "mode=queued;K=2;n=2", "mode=queued;K=2;n=3", "mode=queued;K=3;n=2", "mode=two;K=2;n=2", "mode=each;K=3;n=3", "mode=each;K=3;n=2"],
         "env": {"SBV_PREEMPT": "2"}, "env_tier": {"thorough": {"SBV_PREEMPT": "3"}},
         "budget": {"quick": {"deadline_s": 45, "max_paths": 400000, "query_s": 10}, "thorough": {"deadline_s": 900, "max_paths": 5000000, "query_s": 30}},
         "encoded": ["nano::parallel::pool_t::{pool_t(size_t), ~pool_t, map(elements, op, raise), map(elements, chunksize, op, raise), enqueue, size}", "nano::parallel::worker_t::operator()", "nano::parallel::queue_t::{enqueue, enqueue_no_lock}",
                     "nano::parallel::section_t::{block, ~section_t}", "std::packaged_task / std::shared_future / std::__future_base (interpreted from the harness' and the library's bitcode)",
                     "modelled by the interpreter: std::thread start / join, pthread_mutex_lock / unlock, std::condition_variable::{wait, notify_one, notify_all}, __atomic_futex_unsigned_base::_M_futex_wait_until, std::current_exception / rethrow_exception for interpreted exceptions"]},
    ],
}

PROPERTIES["C15"] = {
    "level": "other",
    "level_text": "SBV unit: bounded symbolic execution of the real tensor writer/reader through real std::istream/std::ostream objects: (a) write;read is the identity for ALL contents (shapes enumerated), (b) for EVERY byte buffer of the configured length (hence every truncation and every corruption of header and payload, dims bounded) the real reader accepts exactly what an independently written reference reader of the documented layout accepts and decodes the same shape and contents, (c) every strict prefix of a valid stream is rejected, (d) any alteration of the last payload element is rejected; unit C15_objects: parameters of every kind with SYMBOLIC in-domain values and bounds, strings with symbolic characters and whole registered solver objects are written and read back equal and bit-identical, and every strict prefix of their streams is rejected; unit C15_wlearners: the fitted state of every weak learner kind (feature indices, double thresholds and coefficient tables as arbitrary finite bit patterns, hinge type, tree nodes, label hashes) is read back bit-identically into an object that held another state, prefixes rejected. LIFT-C unit: bounded model checking of the lifted hash kernel (last-element injectivity; the non-final collision is a known finding)",
    "level_note": SBV_NOTE + "; " + LIFT_NOTE,
    "technique": SBV_TECH + "; hash kernel additionally by " + LIFT_TECH,
    "explanation": "C15 (tensor clauses): nano::write / nano::read of tensors executed symbolically on in-memory stream buffers (std::istream::read / std::ostream::write run natively, their byte transfers are mirrored in the symbolic shadow memory); nano::detail::hash lifted to C for CBMC.",
    "assumptions": SBV_ASSUME + ["streams are std::istream/std::ostream over a fixed in-memory std::streambuf (get/put area = the harness buffer)", "mode=arbitrary: the int32 dims found in the buffer are bounded to [dmin, dmax] (allocation sizes); all other bytes unconstrained",
                                 "LIFT-C unit: payload length <= 3 elements (uint8: <= 4)"],
    "bounds": {"ranks": "1..3", "dims": "0..3 per axis (negative dims in dedicated configurations)", "buffer length": "<= 48 bytes", "scalar types": "int8, uint8, uint16, int32, int64, float32, float64",
               "LIFT-C": "<= 3 elements (uint8: 4), unwind 4..6"},
    "outside": ["models produced by fit() (unit C15_models installs the fitted state - bias, weak learners of four kinds with symbolic coefficients, weights - and checks bit-identical predictions of the re-read model; features: unit C15_objects mode=feature; fitted weak learners: unit C15_wlearners); parameters, strings and configurable objects (solvers) are covered by unit C15_objects for round trip and prefix rejection",
                "bit-identical predictions of re-read models", "file-backed or refilling stream buffers", "tensors with more than 8 elements",
                "known finding: a single-byte alteration of a NON-final element can keep the hash (hash_combine not injective in its seed); covered by the LIFT-C unit and recorded in known_findings.jsonl"],
    "units": [
        {"engine": "lift", "name": "C15_hash", "shim": "C15_shim.cpp", "driver": "C15_drv.c", "roots": ["k_hash_i64", "k_hash_i32", "k_hash_f64", "k_hash_f32", "k_hash_u8"],
         "quick": [{"func": "h_last_i64", "unwind": 5, "desc": "int64 payload, last element altered arbitrarily"}, {"func": "h_last_f64", "unwind": 5, "desc": "float64 payload (bits)"},
                   {"func": "h_last_i32", "unwind": 5, "desc": "int32 payload"}, {"func": "h_last_u8", "unwind": 6, "desc": "uint8 payload"},
                   {"func": "h_nonfinal_i64", "unwind": 4, "desc": "single-byte alteration of a non-final element (known finding: collisions exist)"}],
         "encoded": ["nano::detail::hash<int64_t/int32_t/double/float/uint8_t>", "nano::detail::hash_combine"]},
        {"engine": "sbv", "harness": "C15_stream", "sources": ["C15_stream.cpp"],
         "quick": ["mode=roundtrip;type=i64;rank=1;d0=3", "mode=roundtrip;type=i32;rank=2;d0=2;d1=2", "mode=roundtrip;type=u8;rank=3;d0=2;d1=2;d2=2", "mode=roundtrip;type=f64;rank=2;d0=2;d1=3",
                   "mode=roundtrip;type=f32;rank=1;d0=3", "mode=roundtrip;type=i8;rank=1;d0=0", "mode=roundtrip;type=u16;rank=2;d0=3;d1=0",
                   "mode=arbitrary;type=i64;rank=1;len=36;dmax=2", "mode=arbitrary;type=i64;rank=1;len=44;dmax=2", "mode=arbitrary;type=i32;rank=2;len=44;dmax=2", "mode=arbitrary;type=u8;rank=3;len=40;dmax=2",
                   "mode=arbitrary;type=f64;rank=1;len=44;dmax=2", "mode=arbitrary;type=i64;rank=1;len=10", "mode=arbitrary;type=i32;rank=2;len=27", "mode=arbitrary;type=i64;rank=1;len=40;dmin=-2;dmax=0",
                   "mode=arbitrary;type=i32;rank=2;len=36;dmin=-1;dmax=1",
                   "mode=prefix;type=i64;rank=1;d0=2", "mode=prefix;type=i32;rank=2;d0=2;d1=2", "mode=prefix;type=u8;rank=1;d0=0",
                   "mode=corrupt;type=i64;rank=1;d0=1", "mode=corrupt;type=i64;rank=1;d0=3", "mode=corrupt;type=f64;rank=2;d0=2;d1=2", "mode=corrupt;type=u8;rank=1;d0=4", "mode=corrupt;type=f32;rank=1;d0=2"],
         "thorough": ["mode=roundtrip;type=%s;rank=%d;d0=%d;d1=%d;d2=%d" % (t, r, a, b, c) for t in ("i64", "i32", "i8", "u8", "u16", "f64", "f32") for (r, a, b, c) in ((1, 3, 1, 1), (2, 2, 3, 1), (3, 2, 2, 2), (1, 0, 1, 1), (2, 3, 0, 1))] +
                     ["mode=arbitrary;type=%s;rank=%d;len=%d;dmin=%d;dmax=%d" % (t, r, l, lo, hi) for (t, r, l, lo, hi) in (("i64", 1, 36, 0, 2), ("i64", 1, 44, 0, 2), ("i64", 1, 52, 0, 3), ("i32", 2, 44, 0, 2), ("i32", 2, 48, 0, 2),
                                                                                                                ("u8", 3, 40, 0, 2), ("i8", 1, 31, 0, 3), ("u16", 2, 36, 0, 2), ("f64", 1, 44, 0, 2), ("f32", 2, 44, 0, 2), ("f64", 2, 48, 0, 2),
                                                                                                                ("i64", 1, 10, 0, 2), ("i32", 2, 27, 0, 2), ("i64", 1, 40, -2, 0), ("i32", 2, 36, -1, 1), ("u8", 3, 36, -1, 1))] +
                     ["mode=prefix;type=%s;rank=%d;d0=%d;d1=%d" % (t, r, a, b) for (t, r, a, b) in (("i64", 1, 2, 1), ("i32", 2, 2, 2), ("u8", 1, 0, 1), ("f64", 2, 1, 2), ("u16", 1, 3, 1), ("f32", 2, 2, 2))] +
                     ["mode=corrupt;type=%s;rank=%d;d0=%d;d1=%d" % (t, r, a, b) for (t, r, a, b) in (("i64", 1, 1, 1), ("i64", 1, 3, 1), ("f64", 2, 2, 2), ("u8", 1, 4, 1), ("f32", 1, 2, 1), ("i32", 2, 2, 2), ("i8", 1, 5, 1), ("u16", 1, 3, 1))],
         "budget": {"quick": {"deadline_s": 100, "max_paths": 20000, "query_s": 20}, "thorough": {"deadline_s": 900, "max_paths": 200000, "query_s": 60}},
         "encoded": ["nano::write(std::ostream&, tensor_t)", "nano::read(std::istream&, tensor_t)", "nano::write / write_cast / read / read_cast (core/stream.h)", "nano::detail::hash, hash_combine, hash_version",
                     "tensor_t::resize / tensor_vector_storage_t (Eigen storage)", "std::istream::read, std::ostream::write, basic_ios::clear/setstate (native libstdc++ on concrete stream state)"]},
        {"engine": "sbv", "harness": "C15_models", "sources": ["C15_models.cpp", "sbv_support.cpp"], "flags": ["-fno-access-control"],
         "quick": ["model=linear;step=4", "model=gboost;wl=4", "model=gboost;wl=2;step=3", "model=gboost;wl=1;step=1", "model=linear;step=1"],
         "thorough": ["model=linear;step=1", "model=gboost;wl=4;step=4", "model=gboost;wl=3;step=1", "model=gboost;wl=1;step=1"],
         "budget": {"quick": {"deadline_s": 150, "max_paths": 20000, "query_s": 20}, "thorough": {"deadline_s": 1200, "max_paths": 200000, "query_s": 60}},
         "encoded": ["nano::gboost_model_t::{write, read, do_predict}, nano::learner_t::{write, read, critical_compatible}, nano::read / write of rwlearners_t through the weak-learner factory",
                     "nano::{affine, stump, dtree, dense_table}_wlearner_t::{write, read, do_predict} with symbolic coefficients / thresholds", "nano::linear_t::{write, read, do_predict} with symbolic weights and bias", "nano::feature_t::{write, read}"]},
        {"engine": "sbv", "harness": "C15_objects", "sources": ["C15_objects.cpp"],
         "quick": ["mode=param;kind=f", "mode=param;kind=f;lt=1;ltmax=1", "mode=param;kind=i", "mode=param;kind=i;lt=1", "mode=param;kind=fp", "mode=param;kind=ip", "mode=param;kind=e",
                   "mode=string;len=4", "mode=string;len=0", "mode=config;id=gd", "mode=config;id=lbfgs;step=11",
                   "mode=feature;kind=s;dst=1", "mode=feature;kind=s;dst=0;cdims=1", "mode=feature;kind=m;dst=2", "mode=feature;kind=m;dst=1;cdims=1", "mode=feature;kind=r;dst=1", "mode=feature;kind=t;dst=2", "mode=feature;kind=t;dst=0"],
         "thorough": ["mode=param;kind=%s;lt=%d;ltmax=%d" % (k, a, b) for k in ("f", "i", "fp") for a in (0, 1) for b in (0, 1)] + ["mode=param;kind=ip", "mode=param;kind=e",
                      "mode=string;len=4", "mode=string;len=0", "mode=string;len=17"] + ["mode=config;id=%s;step=1" % i for i in ("gd", "lbfgs", "cgd-pr", "osga")] +
                     ["mode=feature;kind=%s;dst=%d;cdims=%d" % (k, d, c) for k in ("s", "m", "r", "t") for d in (0, 1, 2, 3) for c in (0, 1) if not (c and k in ("r", "t"))],
         "budget": {"quick": {"deadline_s": 100, "max_paths": 20000, "query_s": 20}, "thorough": {"deadline_s": 900, "max_paths": 200000, "query_s": 60}},
         "encoded": ["nano::parameter_t::{write, read, operator==, value, value_pair, make_scalar, make_integer, make_scalar_pair, make_integer_pair, make_enum, make_string}", "(anonymous)::read/write(range_t, pair_range_t)",
                     "nano::configurable_t::{write, read, parameter, parameters}", "nano::read/write(std::string), read/write(std::vector<parameter_t>)", "nano::solver_t::all / factory_t::get (std::call_once emulated)", "nano::critical (exception path)"]},
        # fitted state of every weak learner kind with symbolic contents: write -> read into an object holding another state
        {"engine": "sbv", "harness": "C15_wlearners", "sources": ["C15_wlearners.cpp"],
         "quick": ["wl=%s" % w for w in ("affine", "stump", "hinge", "dense-table", "dstep-table", "kbest-table", "dtree")],
         "thorough": ["wl=%s;step=1" % w for w in ("affine", "stump", "hinge", "dense-table", "dstep-table", "kbest-table", "dtree")] + ["wl=dtree;nodes=5;step=4"],
         "budget": {"quick": {"deadline_s": 60, "max_paths": 5000, "query_s": 20}, "thorough": {"deadline_s": 600, "max_paths": 100000, "query_s": 60}},
         "encoded": ["nano::{affine, stump, hinge, table (dense / dstep / kbest), dtree}_wlearner_t::{read, write}", "nano::single_feature_wlearner_t::{read, write}", "nano::wlearner_t::{read, write} (learner_t / configurable_t)",
                     "nano::read / write(dtree_node_t), read / write(std::vector<dtree_node_t>)", "nano::read / write(tensor) incl. payload hash", "nano::read_cast / write casts of feature indices and hinge type"]},
    ],
}
PROPERTIES["C15"]["units"][0]["thorough"] = PROPERTIES["C15"]["units"][0]["quick"]

_C13_ENC = ["nano::tuner_t::optimize", "nano::local_search_tuner_t::do_optimize", "nano::surrogate_tuner_t::do_optimize", "nano::evaluate(spaces, callback, igrids, steps)", "nano::local_search",
            "nano::map_to_grid", "nano::make_min/max/avg_igrid", "nano::param_space_t::{to_surrogate, closest_grid_point_from_surrogate}", "std::sort / std::remove_if instantiations on tuner_step_t"]
PROPERTIES["C13"] = {
    "level": "other",
    "level_text": "bounded symbolic verification: on concrete grids, for EVERY landscape (the evaluation callback returns symbolic reals: unconstrained with all orderings explored by forking on small grids, or order-constrained by a rank function on large ones) both tuners evaluate only grid points, none twice, at most max_evals + 3^d of them, reject non-finite values, and return the evaluations sorted with the true minimum first; the surrogate tuner's inner solver is an arbitrary-point oracle",
    "level_note": SRE_NOTE + "; unit C13_surrogate replaces solver_t::minimize by an oracle returning a state at an arbitrary symbolic point (covers every inner-solver behaviour)",
    "technique": SRE_TECH,
    "explanation": "C13: real tuner_t::optimize for local-search and surrogate tuners with a recording callback; real ml::tune driver (k-fold splitter, local-search tuner, result_t) with a recording model callback returning symbolic error/loss tensors.",
    "assumptions": SRE_ASSUME + ["grids are concrete (sizes listed per configuration), callback values boxed to [-100,100]"],
    "bounds": {"grids": "1-3 grids of 2..31 values (linear and log10)", "max_evals": "10..20", "free landscapes": "<= 5 points in 1-D, 2x2 in 2-D (all orderings)", "ranked landscapes": "corner / center / edge / plateau argmin shapes"},
    "outside": ["ml::tune under OS threads (unit C13_tune runs the real driver with the inline pool: exactly-once (trial, fold) callback, fold indices, storage slots and optimum trial are covered; schedules are not)",
                "landscapes outside the enumerated rank shapes on grids with more than 5 points"],
    "units": [
        {"engine": "sre", "harness": "C13_tuner", "sources": ["C13_tuner.cpp"],
         "quick": ["tuner=local-search;g=2;land=free", "tuner=local-search;g=3;land=free", "tuner=local-search;g=5;land=free", "tuner=local-search;g=2,2;land=free", "tuner=local-search;g=5,5,5;land=corner;evals=10",
                   "tuner=local-search;g=5,5,5;land=center;evals=20", "tuner=local-search;g=7,3;land=plateau", "tuner=local-search;g=31;land=edge;evals=10;log=1", "tuner=local-search;g=31,5;land=corner;evals=10", "tuner=local-search;g=31,31;land=corner;evals=20", "tuner=local-search;g=31,31;land=edge;evals=14",
                   "tuner=local-search;g=5;land=free;nan=2", "tuner=local-search;g=5,5;land=corner;nan=7"],
         "thorough": ["tuner=local-search;g=%s;land=%s;evals=%d;log=%d" % (g, l, e, lg) for g in ("5,5,5", "7,3", "31", "31,5", "9,9", "6,5,5", "31,31", "17,17,5") for l in ("corner", "center", "edge", "plateau") for (e, lg) in ((10, 0), (20, 1))] +
                     ["tuner=local-search;g=%s;land=free" % g for g in ("2", "3", "4", "5", "2,2", "3,2")] + ["tuner=local-search;g=5;land=free;nan=%d" % k for k in (0, 1, 2, 3)],
         "budget": {"quick": {"deadline_s": 60, "max_paths": 20000}, "thorough": {"deadline_s": 600, "max_paths": 400000}},
         "encoded": _C13_ENC},
        {"engine": "sre", "harness": "C13_surrogate", "sources": ["C13_tuner.cpp"], "flags": ["-DORACLE_MINIMIZE"],
         "quick": ["tuner=surrogate;g=5;land=corner", "tuner=surrogate;g=3;land=free", "tuner=surrogate;g=7;land=center;evals=10", "tuner=surrogate;g=4,3;land=corner;evals=10", "tuner=surrogate;g=5;land=corner;nan=3"],
         "thorough": ["tuner=surrogate;g=%s;land=%s;evals=%d" % (g, l, e) for g in ("5", "7", "4,3", "5,5", "31") for l in ("corner", "center", "plateau") for e in (10, 20)] + ["tuner=surrogate;g=%s;land=free" % g for g in ("2", "3", "4")],
         "budget": {"quick": {"deadline_s": 60, "max_paths": 20000}, "thorough": {"deadline_s": 900, "max_paths": 400000}},
         "encoded": _C13_ENC},
        {"engine": "sre", "harness": "C13_tune", "sources": ["C13_tune.cpp"], "concrete_strict": True, "replay_env": {"SYM_REPLAY_TOL": "4e-10"},
         "quick": ["n=4;folds=2;g=3;evals=10;per=1", "n=5;folds=3;g=5;evals=10;per=1", "n=4;folds=2;g=7;evals=10;per=1;order=1", "n=4;folds=2;g=0", "n=4;folds=2;g=2;evals=10;per=2", "n=6;folds=3;g=9;evals=10;per=1;order=1", "n=5;folds=2;g=2;evals=10;per=1;uneven=1", "n=5;folds=3;g=2;evals=10;per=1;uneven=1"],
         "thorough": ["n=%d;folds=%d;g=%d;evals=%d;per=1;order=%d" % (n, f, g, e, o) for (n, f, g, e, o) in ((4, 2, 3, 10, 0), (5, 3, 5, 10, 0), (4, 2, 7, 10, 1), (6, 3, 9, 10, 1), (6, 2, 6, 10, 0), (4, 2, 4, 20, 0), (5, 2, 13, 12, 1), (8, 4, 4, 10, 0))] +
                     ["n=4;folds=2;g=0", "n=6;folds=3;g=0;per=2", "n=4;folds=2;g=2;evals=10;per=2", "n=4;folds=2;g=3;evals=10;per=2", "n=5;folds=2;g=2;evals=10;per=1;uneven=1", "n=5;folds=3;g=2;evals=10;per=1;uneven=1", "n=5;folds=2;g=3;evals=10;per=1;uneven=1"],
         "budget": {"quick": {"deadline_s": 60, "max_paths": 20000}, "thorough": {"deadline_s": 900, "max_paths": 400000}},
         "encoded": ["nano::ml::tune", "nano::ml::result_t::{add, store, stats, value, values, extra, params, closest_trial, optimum_trial}", "nano::ml::params_t::{splitter, tuner, log}", "nano::kfold_splitter_t::split",
                     "nano::local_search_tuner_t::do_optimize (through the driver)", "nano::parallel::pool_t::map (inline pool)", "nano::ml::store_stats"]},
    ],
}

PROPERTIES["C09"] = {
    "level": "other",
    "level_text": "bounded symbolic verification: for every value of the symbolic feature cells, targets, parameters, regularisers, strong/weak outputs and scales (fixed small sample counts, concrete schemas, missing patterns, cluster assignments) the linear-model objective and the three gradient-boosting objectives equal their naive per-sample definitions with matching gradients, independent of batch size and caching",
    "level_note": SRE_NOTE,
    "technique": SRE_TECH,
    "explanation": "C09: linear::function_t and gboost::{bias,scale,grads}_function_t through the real datasource -> dataset -> iterator -> loss stack on symbolic float64 cells.",
    "assumptions": SRE_ASSUME + ["cells boxed to [-8,8]; l1,l2 > 0 symbolic when enabled", "losses covered: mse, mae, m-hinge, m-squared-hinge (reference formulas written independently in the harness)"],
    "bounds": {"samples": "2..3", "inputs": "2 features (scalar / categorical one-hot)", "outputs": "1 (regression) or 3 (classification)", "batch": "1, 2, 100", "scaling": "all 4 modes", "workers": "1..16 (sequentialised; arbitrary assignment of 2-3 batches to the workers; for more than 7 workers the arbitrary choice is made in one map() call at a time)"},
    "outside": ["thread-count independence under REAL concurrency: the `threads=K` configurations run the real enqueue path of pool_t::map with K workers but sequentialised (the completion barrier drains the queue on the calling thread; worker ids by round-robin / last / reversed / arbitrary symbolic choice): every assignment of batches to workers and the reduction over per-worker accumulators are covered, interleavings and data races are not", "losses with exp/log (logistic, classnll, exponential, savage, tangent, cauchy): see C06", "1e-9 relative floating-point re-association (identities are proved over the reals)"],
    "units": [
        {"engine": "sre", "harness": "C09_linear", "sources": ["C09_linear.cpp"],
         "quick": ["f=rrr;n=3;loss=mse", "f=rrr;n=3;loss=mse;reg=3;miss=1;sc=1", "f=rsr;n=3;loss=mse;sc=2;reg=2;batch=2", "f=rrr;n=3;loss=mse;sc=3;cache=1", "f=rrr;n=2;loss=mae;reg=3;miss=1",
                   "f=rrr;n=3;loss=mae;reg=1;batch=2", "f=rrs;n=1;loss=m-hinge;reg=1", "f=rrs;n=1;loss=m-squared-hinge;reg=2;sc=2", "f=rmr;n=3;loss=mse;miss=4;cache=1",
                   "f=rrr;n=3;loss=mse;reg=3;sub=2", "f=rrr;n=3;loss=mae;reg=1;sub=2;sc=1;miss=1", "f=rrr;n=3;loss=mse;reg=3;batch=1;threads=2;sched=0", "f=rrr;n=3;loss=mse;reg=3;batch=1;threads=3;sched=2", "f=rrr;n=3;loss=mae;reg=1;batch=1;threads=3;sched=1", "f=rrr;n=2;loss=mse;batch=1;threads=2;sched=3",
                   "f=rrr;n=3;loss=mse;sc=3;cache=1;batch=2;threads=2;sched=0", "f=rrr;n=3;loss=mse;batch=1;threads=6;sched=3", "f=rrr;n=3;loss=mse;reg=3;batch=1;threads=7;sched=2", "f=rrr;n=3;loss=mse;batch=1;threads=12;sched=2",
                   "f=rrr;n=3;loss=mae;batch=1;threads=16;sched=0", "f=rrr;n=3;loss=mse;batch=1;threads=5;sched=0", "f=rrr;n=3;loss=mse;batch=1;threads=10;sched=1",
                   "f=rrr;n=2;loss=mse;batch=1;threads=16;sched=3;arb=1", "f=rrr;n=2;loss=mse;batch=1;threads=13;sched=3;arb=2", "f=rrr;n=2;loss=mse;batch=1;threads=10;sched=3;arb=0"],
         "thorough": ["f=rrr;n=3;loss=mse;sc=%d;reg=%d;miss=%d;batch=%d;cache=%d" % (sc, r, m, b, c) for sc in range(4) for (r, m, b, c) in ((0, 0, 100, 0), (3, 1, 2, 1), (1, 2, 1, 0))] +
                     ["f=rrr;n=3;loss=mae;reg=%d;miss=%d" % (r, m) for r in (0, 3) for m in (0, 1)] + ["f=rrs;n=2;loss=%s;reg=%d" % (l, r) for l in ("m-hinge", "m-squared-hinge") for r in (0, 3)] +
                     ["f=rsr;n=3;loss=mse;sc=2;reg=2;batch=2", "f=rmr;n=3;loss=mse;miss=4;cache=1", "f=srr;n=4;loss=mse;reg=2"] +
                     ["f=rrr;n=3;loss=%s;reg=3;batch=%d;threads=%d;sched=%d" % (l, b, t, sc) for l in ("mse", "mae") for (b, t, sc) in ((1, 2, 0), (1, 3, 2), (1, 3, 1), (2, 2, 2), (1, 4, 0))] + ["f=rrr;n=3;loss=mse;batch=1;threads=2;sched=3", "f=rrr;n=2;loss=mse;batch=1;threads=3;sched=3"] + ["f=rrr;n=2;loss=mse;batch=1;threads=%d;sched=3" % k for k in range(4, 8)] + ["f=rrr;n=3;loss=mse;batch=1;threads=%d;sched=%d" % (k, sc) for k in range(8, 17) for sc in (0, 1, 2)] + ["f=rrr;n=2;loss=mse;batch=1;threads=%d;sched=3;arb=%d" % (k, a) for k in range(8, 17) for a in (0, 1, 2)] + ["f=rrr;n=3;loss=mse;batch=1;threads=%d;sched=3" % k for k in (5, 6, 7)],
         "budget": {"quick": {"deadline_s": 90, "max_paths": 20000}, "thorough": {"deadline_s": 600, "max_paths": 300000}},
         "encoded": ["nano::linear::function_t::{ctor, do_vgrad}", "nano::linear::predict", "nano::linear::accumulator_t", "nano::sum_reduce", "nano::flatten_iterator_t::{loop, flatten, targets, scaling, batch, cache_*}",
                     "nano::scalar_stats_t::scale", "nano::flatten_loss_t<mse/mae/hinge/squared-hinge>::{value, vgrad}", "nano::dataset_t::{flatten, targets}"]},
        {"engine": "sre", "harness": "C09_gboost", "sources": ["C09_gboost.cpp"],
         "quick": ["n=3;loss=mse", "n=3;loss=mse;sub=1;batch=2", "n=2;loss=mae;batch=1", "n=3;loss=mae;part=bias", "n=3;loss=mae;part=scale;sub=1", "n=3;loss=mse;part=scale;groups=1;unas=2", "n=3;loss=mae;part=scale;groups=1;unas=5", "n=3;loss=mse;part=scale;groups=1;unas=0", "n=3;loss=mse;part=scale;groups=3;unas=0", "n=3;loss=mse;batch=1;threads=3;sched=0", "n=3;loss=mae;part=scale;batch=1;threads=2;sched=2", "n=3;loss=mse;part=grads;batch=1;threads=3;sched=1",
                   "n=2;loss=mse;part=bias;batch=1;threads=2;sched=3", "n=3;loss=mse;part=bias;batch=1;threads=6;sched=3", "n=3;loss=mse;part=scale;batch=1;threads=11;sched=2", "n=3;loss=mse;part=bias;batch=1;threads=7;sched=2",
                   "n=3;loss=mae;part=grads", "n=1;loss=m-hinge;tk=s;part=scale", "n=1;loss=m-hinge;tk=s;part=grads", "n=2;loss=m-hinge;tk=s;part=bias",
                   "n=3;loss=mse;part=scale;sub=2", "n=3;loss=mae;part=scale;sub=2;groups=1;unas=0", "n=3;loss=mse;part=bias;sub=2", "n=3;loss=mae;part=grads;sub=2", "n=2;loss=mse;part=scale;sub=2;batch=1;threads=2;sched=0"],
         "thorough": ["n=%d;loss=%s;part=%s;sub=%d;batch=%d" % (n, l, p, s, b) for n in (2, 3) for l in ("mse", "mae") for p in ("bias", "scale", "grads") for (s, b) in ((0, 100), (1, 2))] +
                     ["n=2;loss=m-hinge;tk=s;part=%s" % p for p in ("bias", "scale", "grads")] +
                     ["n=3;loss=%s;part=scale;groups=%d;unas=%d" % (l, g, u) for l in ("mse", "mae") for (g, u) in ((1, 2), (1, 5), (1, 0), (1, 7), (3, 0), (3, 4), (2, 0))] +
                     ["n=3;loss=%s;part=%s;batch=1;threads=%d;sched=%d" % (l, p, t, sc) for l in ("mse", "mae") for p in ("bias", "scale", "grads") for (t, sc) in ((2, 0), (3, 2), (3, 1))] + ["n=2;loss=mse;part=bias;batch=1;threads=2;sched=3"],
         "budget": {"quick": {"deadline_s": 90, "max_paths": 20000}, "thorough": {"deadline_s": 600, "max_paths": 300000}},
         "encoded": ["nano::gboost::bias_function_t::do_vgrad", "nano::gboost::scale_function_t::do_vgrad", "nano::gboost::grads_function_t::{do_vgrad, gradients}", "nano::gboost::accumulator_t", "nano::cluster_t::group",
                     "nano::targets_iterator_t::loop", "nano::sum_reduce"]},
    ],
}

PROPERTIES["C10"] = {
    "level": "other",
    "level_text": "bounded symbolic verification: for every value of the symbolic gradients (and feature cells where stated) the score returned by stump / affine / dense-table fitting equals the RSS of the learner's own predictions and is <= the RSS of every hypothesis of its class (hypothesis parameters universally quantified: any threshold for stumps with group-mean outputs, normal equations + every other feature for affine, any per-label table for dense tables); predictions are additive, zero on missing values, constant per split() group, and scale() multiplies them",
    "level_note": SRE_NOTE + "; " + SBV_NOTE,
    "technique": SRE_TECH + "; decision trees of depth 2 / 3 (prediction, split, scale on symbolic missing-value patterns and sample sub-lists) by " + SBV_TECH,
    "explanation": "C10: wlearner_t::fit/predict/split/scale/clone of stump, affine, dense-table, hinge, dstep/kbest/ksplit-table learners and depth-1 trees through the real dataset + select_iterator stack with the RSS criterion; merging of learners.",
    "assumptions": SRE_ASSUME + ["gradients boxed to [-8,8]; feature cells symbolic in [-8,8] (cx=0) or concrete (cx=1)", "one output (regression target)", "RSS criterion (make_score clamps at 1e3*epsilon; reference clamps identically)"],
    "bounds": {"samples": "3..4", "features": "1..3 scalar / 1..2 categorical (3 classes)", "missing patterns": "0, 1", "sample subsets": "all / with repetition"},
    "outside": ["FITTING of decision trees of depth > 1 (their prediction / split / scale on an installed fitted state is covered by the SBV unit C10_dtree); optimality of hinge with fully symbolic features and gradients (nlsat returns unknown: unit C10_more uses concrete feature values and 1-3 symbolic gradients, thorough tier attempts the symbolic case)",
                "k-best / k-split tables: only the clauses the property states for every learner (zero where unassigned, constant per group, scale); the equality score = RSS of own predictions is NOT demanded of them (see DESIGN.md: k-best tables with >= 2 labels violate it)", "real concurrency (the threads=K configurations run the enqueue path sequentialised: any assignment of features to workers, min-reduction over per-worker caches)", "more than 4 samples with fully symbolic data (nlsat returns unknown on the optimality inequalities)", "aic/aicc/bic criteria (log)"],
    "units": [
        {"engine": "sbv", "harness": "C10_dtree", "sources": ["C10_dtree.cpp", "sbv_support.cpp"], "flags": ["-fno-access-control"],
         "quick": ["depth=2;n=3", "depth=2;n=2;rep=1", "depth=3;n=1", "depth=3;n=2"],
         "thorough": ["depth=2;n=3", "depth=2;n=3;rep=1", "depth=2;n=4", "depth=3;n=1", "depth=3;n=2", "depth=3;n=2;rep=1"],
         "budget": {"quick": {"deadline_s": 150, "max_paths": 40000, "query_s": 20}, "thorough": {"deadline_s": 1500, "max_paths": 400000, "query_s": 60}},
         "encoded": ["nano::dtree_wlearner_t::{do_predict, do_split, scale} on an installed fitted state (node pairs, leaf tables) of depth 2 / 3", "nano::stump_wlearner_t::split (per-node partition)", "nano::wlearner_t::{predict, split}, nano::learner_t::critical_compatible",
                     "nano::select_iterator_t::loop(samples, feature, ...), nano::dataset_t::select / check with symbolic given-masks and arbitrary (also empty) sub-lists"]},
        {"engine": "sre", "harness": "C10_wlearner", "sources": ["C10_wlearner.cpp"],
         "quick": ["wl=stump;f=rr;n=3", "wl=stump;f=rrr;n=3;miss=1", "wl=stump;f=rrr;n=4;cx=1;sub=1", "wl=affine;f=rr;n=3", "wl=affine;f=rrr;n=4;cx=1", "wl=affine;f=rrr;n=3;cx=1;miss=1",
                   "wl=dense-table;f=sr;n=3", "wl=dense-table;f=ssr;n=4;miss=1", "wl=dense-table;f=smr;n=4;cx=1",
                   "wl=stump;f=rrr;n=4;cx=1;sub=1;threads=3;sched=2", "wl=affine;f=rrr;n=4;cx=1;threads=2;sched=1", "wl=dense-table;f=ssr;n=4;miss=1;threads=2;sched=3"],
         "thorough": ["wl=stump;f=rrr;n=4;cx=1;sub=1;threads=3;sched=2", "wl=affine;f=rrr;n=4;cx=1;threads=2;sched=1", "wl=dense-table;f=ssr;n=4;miss=1;threads=2;sched=3", "wl=stump;f=rrrr;n=4;cx=1;miss=1;threads=4;sched=0", "wl=stump;f=rr;n=3", "wl=stump;f=rr;n=4", "wl=stump;f=rrr;n=3;miss=1", "wl=stump;f=rrr;n=4;sub=1", "wl=stump;f=rrr;n=4;cx=1;sub=1", "wl=stump;f=rrrr;n=4;cx=1;miss=1",
                      "wl=affine;f=rr;n=3", "wl=affine;f=rr;n=4", "wl=affine;f=rrr;n=4;cx=1", "wl=affine;f=rrr;n=3;cx=1;miss=1", "wl=affine;f=rrrr;n=4;cx=1;sub=1",
                      "wl=dense-table;f=sr;n=3", "wl=dense-table;f=sr;n=4;sub=1", "wl=dense-table;f=ssr;n=4;miss=1", "wl=dense-table;f=smr;n=4;cx=1", "wl=dense-table;f=msr;n=4;miss=4"],
         "budget": {"quick": {"deadline_s": 90, "max_paths": 20000}, "thorough": {"deadline_s": 900, "max_paths": 300000, "query_s": 30}},
         "encoded": ["nano::wlearner_t::{fit, split}", "nano::stump_wlearner_t::{do_fit, do_predict, do_split}", "nano::affine_wlearner_t::{do_fit, do_predict}", "nano::dense_table_wlearner_t::do_fit",
                     "nano::table_wlearner_t::{set, do_predict, do_split}", "nano::wlearner::accumulator_t", "nano::wlearner::make_score", "nano::single_feature_wlearner_t::scale", "nano::select_iterator_t::loop",
                     "nano::learner_t::predict", "nano::min_reduce"]},
        {"engine": "sre", "harness": "C10_merge", "sources": ["C10_merge.cpp"],
         "quick": ["kind=table;map1=abc;map2=abc", "kind=table;map1=aab;map2=abb", "kind=table;map1=aab;map2=aab;map3=abb", "kind=table;map1=abc;map2=abc;f2=1", "kind=table;map1=aba;map2=aab;map3=aba",
                   "kind=affine", "kind=affine;f2=1", "kind=mixed;map1=aab;map2=aab", "kind=table;map1=aab;map2=aab;miss=1"],
         "thorough": ["kind=table;map1=%s;map2=%s;map3=%s;f2=%d" % (a, b, c, f) for a in ("abc", "aab", "aba", "abb", "aaa") for b in ("abc", "aab", "abb") for c in ("-", "aab") for f in (0, 1)] +
                     ["kind=affine", "kind=affine;f2=1", "kind=mixed;map1=aab;map2=aab", "kind=mixed;map1=abc;map2=abc;f2=1", "kind=table;map1=aab;map2=aab;miss=1"],
         "encoded": ["nano::wlearner::merge", "nano::table_wlearner_t::try_merge", "nano::affine_wlearner_t::try_merge", "nano::single_feature_wlearner_t::do_try_merge", "nano::table_wlearner_t::do_predict", "nano::affine_wlearner_t::do_predict"]},
        {"engine": "sre", "harness": "C10_more", "sources": ["C10_more.cpp"],
         "quick": ["wl=hinge;f=rr;n=4;cx=1;gsym=2", "wl=hinge;f=rrr;n=5;cx=1;gsym=1", "wl=hinge;f=rrr;n=4;cx=1;gsym=2;miss=1", "wl=hinge;f=rrr;n=5;cx=1;gsym=2;sub=1",
                   "wl=dstep-table;f=sr;n=5;gsym=2", "wl=dstep-table;f=ssr;n=4;miss=1;gsym=3", "wl=dtree;f=rrr;n=4;cx=1;gsym=2", "wl=dtree;f=rr;n=5;cx=1;gsym=2;miss=1",
                   "wl=kbest-table;f=sr;n=4;gsym=3", "wl=ksplit-table;f=ssr;n=4;gsym=3", "wl=hinge;f=rrr;n=4;cx=1;gsym=2;miss=1;threads=2;sched=1", "wl=dstep-table;f=ssr;n=4;miss=1;gsym=3;threads=2;sched=2"],
         "thorough": ["wl=hinge;f=rrr;n=4;cx=1;gsym=2;miss=1;threads=2;sched=1", "wl=dstep-table;f=ssr;n=4;miss=1;gsym=3;threads=2;sched=2", "wl=hinge;f=rrr;n=5;cx=1;gsym=2;threads=3;sched=3"] + ["wl=hinge;f=%s;n=%d;cx=1;gsym=%d;miss=%d;sub=%d" % t for t in (("rr", 4, 2, 0, 0), ("rrr", 5, 1, 0, 0), ("rrr", 4, 2, 1, 0), ("rrr", 5, 2, 0, 1), ("rrrr", 5, 2, 1, 0), ("rr", 6, 2, 0, 0), ("rr", 4, 3, 0, 0))] +
                     ["wl=hinge;f=rr;n=3", "wl=hinge;f=rr;n=3;cx=1"] +
                     ["wl=dstep-table;f=%s;n=%d;gsym=%d;miss=%d" % t for t in (("sr", 5, 2, 0), ("ssr", 4, 3, 1), ("sr", 4, 4, 0), ("ssr", 5, 2, 4))] +
                     ["wl=dtree;f=rrr;n=4;cx=1;gsym=2", "wl=dtree;f=rr;n=5;cx=1;gsym=2;miss=1", "wl=dtree;f=rrr;n=4;cx=1;gsym=3;sub=1", "wl=kbest-table;f=sr;n=4;gsym=3", "wl=kbest-table;f=ssr;n=5;gsym=2;miss=1",
                      "wl=ksplit-table;f=ssr;n=4;gsym=3", "wl=ksplit-table;f=sr;n=5;gsym=2"],
         "budget": {"quick": {"deadline_s": 90, "max_paths": 20000}, "thorough": {"deadline_s": 900, "max_paths": 300000, "query_s": 30}},
         "encoded": ["nano::hinge_wlearner_t::{do_fit, do_predict, do_split}", "(anonymous)::cache_t (hinge): beta, score_neg/score_pos", "nano::dstep_table_wlearner_t::do_fit", "nano::kbest_table_wlearner_t::do_fit", "nano::ksplit_table_wlearner_t::do_fit",
                     "table_wlearner_t::cache_t::{score_kbest, score_ksplit}", "nano::wlearner::accumulator_t::{sort, cluster}", "nano::dtree_wlearner_t::{do_fit, do_predict}", "nano::stump_wlearner_t (reference for depth-1 trees)",
                     "nano::single_feature_wlearner_t::scale", "nano::cluster_t"]},
    ],
}

_FN_BASE = ["maxq", "maxquad", "maxhilb", "chained_lq", "chained_cb3I", "chained_cb3II", "trid", "qing", "kinks", "cauchy", "sargan", "sphere", "zakharov", "quadratic", "rosenbrock", "exponential",
            "dixon-price", "chung-reynolds", "axis-ellipsoid", "styblinski-tang", "schumer-steiglitz", "rotated-ellipsoid", "geometric-optimization"]
_FN_ENET = ["mse+ridge[1]", "mse+ridge[100]", "mse+ridge[10000]", "mse+ridge[1e+06]", "mse+lasso[1]", "mse+lasso[100]", "mse+lasso[10000]", "mse+lasso[1e+06]", "mse+elasticnet[1,1]", "mse+elasticnet[100,100]",
            "mse+elasticnet[10000,10000]", "mse+elasticnet[1e+06,1e+06]", "mae+ridge[1]", "mae+lasso[1]", "mae+elasticnet[1,1]", "hinge+ridge[1]", "hinge+lasso[1]", "hinge+elasticnet[1,1]",
            "cauchy+ridge[1]", "cauchy+lasso[1]", "cauchy+elasticnet[1,1]", "logistic+ridge[1]", "logistic+lasso[1]", "logistic+elasticnet[1,1]"]
_FN_SMOOTH_HD = ["powell", "trid", "qing", "cauchy", "sargan", "sphere", "zakharov", "quadratic", "rosenbrock", "exponential", "dixon-price", "chung-reynolds", "axis-ellipsoid", "styblinski-tang",
                 "schumer-steiglitz", "rotated-ellipsoid", "geometric-optimization"]
_LOSSES = ["mae", "mse", "cauchy", "m-hinge", "s-hinge", "m-squared-hinge", "s-squared-hinge", "s-classnll", "m-savage", "s-savage", "m-tangent", "s-tangent", "m-logistic", "s-logistic", "s-exponential", "m-exponential", "pinball"]
PROPERTIES["C06"] = {
    "level": "other",
    "level_text": "bounded symbolic verification: for every registered benchmark function (dims 1-3) and every registered loss (1-3 outputs, all +-1 target patterns / symbolic real targets) the implemented gradient equals the SYMBOLIC DERIVATIVE of the very term the implementation computed for the value, at every generic point of the input box (points where a comparison holds with equality = kinks are excluded); value-only = value+gradient; declared-convex polynomial / piecewise-polynomial functions satisfy the first-order convexity inequality for all symbolic x, z; per-sample independence, non-negativity and the 0-1 error rules of the losses",
    "level_note": SRE_NOTE + "; exp/log/atan are ackermannised (fresh variable per application + functional consistency, monotonicity, tangent-line and exp(u)exp(-u)=1 instances); derivative rules are applied symbolically to the value term",
    "technique": SRE_TECH + "; symbolic differentiation of the executed value term",
    "explanation": "C06: function_t::vgrad of all benchmark functions and loss_t::{value, vgrad, error} of all losses on symbolic inputs.",
    "assumptions": SRE_ASSUME + ["inputs boxed: functions [-4,4]^d, loss outputs [-6,6], regression targets [-4,4]", "random benchmark functions (quadratic, kinks, enet_*) use their internally generated concrete data"],
    "bounds": {"function dims": "1..3 for all clauses; gradient = derivative and value-only = value+gradient additionally at 8 / 16 (quick) and 4..32 (thorough) dims for the smooth functions incl. powell", "summands": "2", "loss outputs": "1..3"},
    "outside": ["convexity inequality for objects whose value involves exp/log (over-approximated transcendental functions make the inequality undecidable; reported as skipped per path)",
                "constraint kinds: gradient/definition covered by C05; linear/gboost objectives: C09", "dims > 3"],
    "units": [
        {"engine": "sre", "harness": "C06_functions", "sources": ["C06_functions.cpp"], "concrete_strict": True,
         "quick": ["fn=%s;d=2" % f for f in _FN_BASE] + ["fn=%s;d=2" % f for f in ("mse+ridge[1]", "mse+lasso[100]", "mse+elasticnet[1,1]", "mae+elasticnet[1,1]", "hinge+elasticnet[1,1]", "cauchy+ridge[1]", "logistic+lasso[1]")] +
                  ["fn=%s;d=8;cvx=0" % f for f in _FN_SMOOTH_HD] + ["fn=powell;d=4;cvx=0", "fn=maxq;d=8;cvx=0", "fn=chained_lq;d=8;cvx=0", "fn=powell;d=16;cvx=0", "fn=rosenbrock;d=16;cvx=0"],
         "thorough": ["fn=%s;d=%d" % (f, d) for f in _FN_BASE + _FN_ENET for d in (1, 2, 3)] + ["fn=%s;d=%d;cvx=0" % (f, d) for f in _FN_SMOOTH_HD for d in (4, 8, 12, 16, 32)] + ["fn=maxq;d=8;cvx=0", "fn=chained_lq;d=8;cvx=0"],
         "budget": {"quick": {"deadline_s": 45, "max_paths": 3000, "query_s": 8}, "thorough": {"deadline_s": 300, "max_paths": 50000, "query_s": 20}},
         "encoded": ["nano::function_t::vgrad", "function_<id>_t::do_vgrad for every registered id", "nano::function_t::{convex, strong_convexity, make}"]},
        {"engine": "sre", "harness": "C06_surrogate", "sources": ["C06_surrogate.cpp"], "concrete_strict": True,
         "quick": ["p=1", "p=2", "p=3", "p=4", "p=1;fit=1;n=2", "p=2;fit=1;n=2", "p=3;fit=1;n=2"],
         "thorough": ["p=%d" % k for k in (1, 2, 3, 4, 5, 6)] + ["p=%d;fit=1;n=%d" % (k, n) for k in (1, 2, 3, 4) for n in (1, 2, 3)],
         "budget": {"quick": {"deadline_s": 45, "max_paths": 2000, "query_s": 8}, "thorough": {"deadline_s": 300, "max_paths": 20000, "query_s": 20}},
         "encoded": ["nano::quadratic_surrogate_t::do_vgrad (symbolic model coefficients and point, 1..4 hyper-parameters)", "nano::quadratic_surrogate_fit_t::do_vgrad (mse loss, symbolic evaluated points and targets)"]},
        {"engine": "sre", "harness": "C06_losses", "sources": ["C06_losses.cpp"], "concrete_strict": True,
         "quick": ["loss=%s;k=2;pat=1" % l for l in _LOSSES] + ["loss=%s;k=1;pat=0" % l for l in ("mse", "mae", "m-hinge", "m-logistic", "s-classnll", "pinball")] +
                  ["loss=%s;k=3;pat=3;multi=1" % l for l in _LOSSES if l.startswith("s-")],
         "thorough": ["loss=%s;k=%d;pat=%d" % (l, k, p) for l in _LOSSES for (k, p) in ((1, 0), (1, 1), (2, 0), (2, 1), (2, 2), (3, 1), (3, 5))] +
                     ["loss=%s;k=%d;pat=%d;multi=1" % (l, k, p) for l in _LOSSES if l.startswith("s-") for (k, p) in ((2, 3), (3, 0), (3, 3), (3, 6), (3, 7))],
         "budget": {"quick": {"deadline_s": 45, "max_paths": 3000, "query_s": 8}, "thorough": {"deadline_s": 300, "max_paths": 50000, "query_s": 20}},
         "encoded": ["nano::flatten_loss_t<...>::{value, vgrad, error} for all 17 registered losses", "nano::loss::detail::{absdiff_t, mclass_t, sclass_t}::error", "nano::pinball_loss_t"]},
        {"engine": "sre", "harness": "C06_mlobjective", "sources": ["C09_linear.cpp"],
         "quick": ["f=rrr;n=2;loss=mse;reg=3", "f=rrr;n=2;loss=mae;reg=3", "f=rrs;n=1;loss=m-squared-hinge;reg=3"],
         "thorough": ["f=rrr;n=3;loss=mse;reg=%d;sc=%d" % (r, sc) for r in (0, 1, 2, 3) for sc in (0, 2)] + ["f=rrr;n=2;loss=mae;reg=3", "f=rrs;n=1;loss=m-squared-hinge;reg=3", "f=rrs;n=1;loss=m-hinge;reg=3"],
         "budget": {"quick": {"deadline_s": 60, "max_paths": 5000}, "thorough": {"deadline_s": 300, "max_paths": 50000}},
         "encoded": ["nano::linear::function_t::do_vgrad (value and gradient vs the naive definition, all regulariser combinations)"]},
    ],
}

PROPERTIES["C04"] = {
    "level": "other",
    "level_text": "bounded symbolic verification of the interior-point solver's status logic on the CALLER's program: (a) a start that is not strictly feasible is rejected without iterating; (b) for an arbitrary iterate (x,u,v) satisfying the reachable-state invariants, `converged` implies feasibility of the caller's constraints within the advertised tolerances, the reported objective equals the caller's objective (normalisation undone) and - on KKT-constructed programs with a known optimum - the optimality-gap bound 1e-8*M*(1+|x-x*|+|u|_1); (c) equality-only programs solved end-to-end incl. duplicated equality rows",
    "level_note": SRE_NOTE + "; src/program/solver.cpp is compiled into the harness (#include) to reach its private program_t / solver_t::done; no source hook in /repo is needed",
    "technique": SRE_TECH,
    "explanation": "C04: program_t (reduce + normalize), program_t::update/feasible, solver_t::done, solve_without_inequality and the start rejection of solve_with_inequality on symbolic programs.",
    "assumptions": SRE_ASSUME + ["program data boxed to [-8,8]; multipliers u in (0,100), v in [-100,100]", "mode=done/gap: state invariants G x < h, u > 0 assumed (they hold for every interior-point iterate)"],
    "bounds": {"variables": "1..2", "inequalities": "1..3", "equalities": "0..2", "Q": "symbolic PSD D'D or diagonal"},
    "outside": ["the Newton iteration itself (LDLT on symbolic KKT systems for >= 10 iterations): optimality after convergence is covered only through the status decision on arbitrary iterates",
                "never `converged` on infeasible/unbounded programs beyond the start rejection", "programs with more than 2 variables (nlsat returns unknown on the normalisation norms)"],
    "units": [
        {"engine": "sre", "harness": "C04_reduce", "sources": ["C04_reduce.cpp"],
         "quick": ["rows=%d;extra=%d;dup=%d;dir=%d;pos=%d" % t for t in ((2, 1, 0, 0, 2), (2, 1, 0, 1, 2), (2, 1, 0, 1, 0), (2, 1, 1, 1, 0), (2, 1, 1, 0, 1), (2, 2, 0, 1, 1), (2, 2, 1, 1, 2), (1, 1, 0, 1, 0), (1, 2, 0, 1, 1), (2, 0, 0, 1, 0), (1, 0, 0, 0, 0))],
         "thorough": ["rows=%d;extra=%d;dup=%d;dir=%d;pos=%d" % (r, e, d, di, po) for r in (1, 2) for e in (0, 1, 2) for d in (0, 1) for di in (0, 1) for po in (0, 1, 2) if not (e == 0 and (d or po))],
         "budget": {"quick": {"deadline_s": 60, "max_paths": 4000, "query_s": 10}, "thorough": {"deadline_s": 300, "max_paths": 50000, "query_s": 30}},
         "encoded": ["nano::program::reduce(A, b) (Eigen FullPivLU of [A|b]^T with symbolic row-combination coefficients, rank decision, reconstruction of the independent rows)"]},
        {"engine": "sre", "harness": "C04_program", "sources": ["C04_program.cpp"], "exclude": ["program__solver"],
         "quick": ["mode=done;n=1;m=1", "mode=done;n=1;m=2;qd=1", "mode=done;n=1;m=1;p=1;qd=1", "mode=gap;n=1;m=1;lp=1", "mode=gap;n=1;m=1;qd=1", "mode=eq;n=2;p=1;lp=1", "mode=eq;n=2;p=2;lp=1;dup=1",
                   "mode=x0;n=2;m=2;lp=1", "mode=x0;n=1;m=2;qd=1"],
         "thorough": ["mode=done;n=1;m=1", "mode=done;n=1;m=2;qd=1", "mode=done;n=1;m=1;p=1;qd=1", "mode=done;n=2;m=1;lp=1", "mode=done;n=2;m=1;qd=1", "mode=done;n=1;m=2;lp=1",
                      "mode=gap;n=1;m=1;lp=1", "mode=gap;n=1;m=1;qd=1", "mode=gap;n=1;m=2;lp=1", "mode=eq;n=2;p=1;lp=1", "mode=eq;n=2;p=1;qd=1", "mode=eq;n=2;p=2;lp=1;dup=1", "mode=eq;n=2;p=2;lp=1;dup=2",
                      "mode=x0;n=2;m=2;lp=1", "mode=x0;n=1;m=2;qd=1", "mode=x0;n=2;m=2;qd=1", "mode=x0;n=2;m=3;lp=1"],
         "budget": {"quick": {"deadline_s": 45, "max_paths": 5000, "query_s": 8}, "thorough": {"deadline_s": 600, "max_paths": 100000, "query_s": 30}},
         "encoded": ["nano::program::solver_t::program_t::{ctor, update, feasible, solve}", "(anonymous)::normalize", "nano::program::reduce", "nano::program::solver_t::{done, solve, solve_with_inequality (start rejection), solve_without_inequality}",
                     "nano::program::solver_state_t::{update, residual}", "Eigen::LDLT / FullPivLU instantiations on symbolic matrices"]},
    ],
}

PROPERTIES["C03"] = {
    "level": "other",
    "level_text": "bounded symbolic verification: (a) bundle_t representation invariant - after any sequence (length <= 3) of serious steps, null steps, aggregation/deletion and multiplier updates on a symbolic convex function every stored cutting plane is a global lower bound with non-negative linearisation error and the multipliers lie on the simplex; econverged && sconverged => eps-optimality attempted (mostly `unknown` for nlsat, reported as inconclusive); (b) ellipsoid method on symbolic sharp convex functions: `converged` => f(x)-f* <= 10*eps, and a run reporting max_iters has exhausted its budget (bounded necessary condition of 'always reports converged')",
    "level_note": SRE_NOTE,
    "technique": SRE_TECH,
    "explanation": "C03: bundle_t::{ctor, moveto, append, solve (size<=2 analytic branch), delete_inactive, delete_largest, store/append_aggregate, econverged, sconverged} and solver_ellipsoid_t::do_minimize on symbolic convex functions sum a_i|z_i-b_i| + q/2|z-c|^2.",
    "assumptions": SRE_ASSUME + ["convex test functions with symbolic a_i in [0,8] (sharp: [1,8]), b, c in [-4,4], q in [0,4]", "bundle max_size 2 (multiplier update stays in the analytic 2-point branch; larger bundles need the interior-point QP on symbolic data)",
                                 "C03_outer: csearch_t::search replaced by an arbitrary curve search (fresh symbolic point evaluated by the oracle function, arbitrary status; descent / cutting-plane steps only with f(y) <= f(centre), the consequence of the real sufficient-decrease test fx - fy >= m1*delta with delta >= 0)"],
    "bounds": {"dims": "1..2", "bundle operations": "<= 3", "ellipsoid": "max_evals 10 (<= 4 cuts), R symbolic in [1e-20,10], eps in [1e-8,1e-3]"},
    "outside": ["RQB/FPBA1/FPBA2 end to end beyond the bounded runs of mode=bsolver (1-D sharp functions, bundle::max_size 2, max_evals 10..20: most optimality obligations come back `unknown` from nlsat and are counted inconclusive). The property is decomposed instead: C03_bundle checks the certificate of the curve search's stopping tests about the CENTRE, C03_outer checks that the outer loops return a truthful state at least as good as that centre for every behaviour of the curve search (max_evals 10..14); the factor (1+|x-x*|) of the bound is taken at the centre, not at the returned point (they differ only for FPBA)", "'ellipsoid always converges within 20000 evaluations' beyond the bounded necessary condition", "bundles with more than 2 points (inner QP)"],
    "units": [
        {"engine": "sre", "harness": "C03_bundle", "sources": ["C03_bundle.cpp"],
         "quick": ["mode=bundle;d=1;ops=1;pat=1", "mode=bundle;d=1;ops=1;pat=0", "mode=bundle;d=1;ops=2;pat=2;q=0", "mode=bundle;d=1;ops=2;pat=1;q=0", "mode=bundle;d=2;ops=1;pat=1;q=0", "mode=bundle;d=2;ops=1;pat=0;q=0", "mode=bundle;d=1;ops=3;pat=0;q=0", "mode=bundle;d=1;ops=3;pat=4;q=0",
                   "mode=ellipsoid;d=1", "mode=ellipsoid;d=1;evals=14", "mode=ellipsoid;d=1;zero=1", "mode=ellipsoid;d=1;evals=14;zero=1", "mode=bsolver;solver=fpba1;d=1;evals=10"],
         "thorough": ["mode=ellipsoid;d=1;zero=1", "mode=ellipsoid;d=1;evals=14;zero=1", "mode=ellipsoid;d=2;zero=1"] + ["mode=bundle;d=1;ops=%d;pat=%d;q=%d" % (o, p, q) for o in (1, 2, 3) for p in range(1 << o) for q in (0, 1)] + ["mode=bundle;d=2;ops=%d;pat=%d;q=0" % (o, p) for o in (1, 2) for p in range(1 << o)] +
                     ["mode=ellipsoid;d=1", "mode=ellipsoid;d=1;evals=14", "mode=ellipsoid;d=1;evals=20", "mode=ellipsoid;d=2"] +
                     ["mode=bsolver;solver=%s;d=1;evals=%d;epsc=%d" % (sv, e, c) for sv in ("rqb", "fpba1", "fpba2") for (e, c) in ((10, 0), (14, 1), (20, 1))],
         "budget": {"quick": {"deadline_s": 50, "max_paths": 5000, "query_s": 8}, "thorough": {"deadline_s": 600, "max_paths": 100000, "query_s": 30}},
         "encoded": ["nano::bundle_t::{bundle_t, moveto, append, solve, delete_inactive, delete_largest, store_aggregate, append_aggregate, econverged, sconverged, smeared_e, smeared_s}",
                     "nano::solver_ellipsoid_t::do_minimize", "nano::solver_t::done", "nano::solver_state_t::update_if_better", "nano::remove_if"]},
        # outer loops of RQB / FPBA1 / FPBA2 with the curve search replaced by an arbitrary one (arbitrary status, arbitrary point,
        # arbitrary multipliers on the simplex, serious steps only with f(y) <= f(centre)); bsize=<bundle::max_size>: the bundle's
        # size invariant 1 <= size() < capacity() at every call, for every pattern of active / inactive cuts: the returned state is at least as good as the centre the converging curve
        # search certified, truthful, and (RQB) equal to it; centre bookkeeping across serious / null steps
        {"engine": "sre", "harness": "C03_outer", "sources": ["C03_outer.cpp"], "flags": ["-fno-access-control"],
         "quick": ["solver=rqb;d=1", "solver=fpba1;d=1", "solver=fpba2;d=1", "solver=rqb;d=2", "solver=rqb;d=1;bsize=3;evals=12", "solver=fpba1;d=1;bsize=2;evals=12", "solver=fpba2;d=1;bsize=3;evals=12"],
         "thorough": ["solver=%s;d=%d;evals=%d" % (sv, d, e) for sv in ("rqb", "fpba1", "fpba2") for (d, e) in ((1, 10), (2, 10), (1, 14))] +
                     ["solver=%s;d=1;bsize=%d;evals=%d" % (sv, b, e) for sv in ("rqb", "fpba1", "fpba2") for (b, e) in ((2, 14), (3, 14), (4, 16), (5, 18))],
         "budget": {"quick": {"deadline_s": 40, "max_paths": 4000, "query_s": 5}, "thorough": {"deadline_s": 600, "max_paths": 200000, "query_s": 20}},
         "encoded": ["nano::solver_rqb_t::do_minimize", "nano::base_solver_fpba_t<nesterov_sequence1_t / 2_t>::do_minimize", "nano::bundle_t::{make, moveto, append, x, fx, gx, smeared_s}", "nano::proximity_t::{make, update, miu}",
                     "nano::nesterov_sequence1_t / 2_t::{update, reset}", "nano::solver_state_t::{update, update_if_better, update_calls}", "nano::solver_t::done", "csearch_t::search replaced by an arbitrary curve search (link time)"]},
    ],
}

_C18_SOLVERS = _LS_SOLVERS + _NLS_SOLVERS + ["rqb", "fpba1", "fpba2"]
PROPERTIES["C18"] = {
    "level": "model_checking",
    "level_text": "bounded: the REAL library objects are used through their const interface by several threads of the interpreted program (std::threads of the harness and the workers of the real thread pool owned by the dataset) under the SBV interpreter's thread model - every std::thread an interpreter context, the thread that performs the next visible operation a symbolic choice explored by forking within the preemption bound - with a happens-before DATA-RACE analysis of every load / store / memcpy / memset of interpreted code (vector clocks; edges: program order, thread start / join, mutex unlock -> lock, release -> acquire atomics and fences, static-initialisation guards): on every explored schedule no two conflicting accesses to the same byte are unordered, and every concurrent call returns bit-identical results to the same call executed alone. Subjects: every loss, every deterministic solver (own function object per thread), dataset flatten / select / targets, the flatten / targets / select iterators, the linear and the three gradient-boosting objectives with their per-thread accumulators, fitting and predicting with every weak learner over a K-worker pool. A planted race (witness configuration) must be reported on every run",
    "level_note": SBV_NOTE + "; thread model: engine/sbv/sbv_threads.inc, race analysis: engine/sbv/sbv_race.inc; counter-examples (schedule + access pair) are replayed by the interpreter in concrete mode",
    "technique": "bounded symbolic exploration of thread schedules of the real code at the LLVM-IR level (own interpreter; schedule choices are symbolic variables of the path condition, concretised by forking) with a happens-before (vector-clock) data-race assertion on every memory access and bit-exact result obligations; z3 decides path feasibility and obligations where data is symbolic",
    "explanation": "C18: nano::loss_t::{error,value,vgrad}, nano::solver_t::minimize, nano::dataset_t::{flatten,select,targets}, nano::{targets,flatten,select}_iterator_t::loop, nano::linear::function_t, nano::gboost::{bias,scale,grads}_function_t, nano::wlearner_t::{fit,predict} run by 2-3 threads / a 2-3 worker pool of the interpreted program.",
    "assumptions": ["thread model: context switches at visible operations only (thread start / exit / join, mutex lock, condition wait / notify, future wait); one explored schedule stands for every schedule with the same synchronisation order as far as the race verdict is concerned (happens-before is independent of the order in which unordered accesses ran)",
                    "accesses performed inside functions that run natively (libstdc++.so / libc bodies: string, stream and allocator internals; listed per run as native: labels) are not seen by the race analysis; memcpy / memmove / memset are seen",
                    "thread-local variables of the interpreted program are shared by all interpreter contexts (none in libnano); accesses to them are left out of the analysis",
                    "__libc_single_threaded is cleared when the first interpreted thread starts (as glibc does), so libstdc++ takes its atomic paths",
                    "inputs are concrete pseudo-values (the subject is the schedule and the sharing, not the arithmetic); pool_t::max_size() replaced by the configured K; default seed fixed",
                    "atomic release / acquire edges are joined per address (over-approximation of release sequences: may hide a race, never reports a false one)"],
    "bounds": {"threads": "T <= 3 harness threads, K <= 3 pool workers", "samples": "n <= 6 (batch 2: <= 3 tasks per loop)", "solver budget": "max_evals 30..40, d <= 3",
               "schedules": "preemption bound 1 (quick) / 2 (thorough); switches at blocking operations are free (unit C18_tune: at most 2 / 3 forking choices at blocking operations per path, then the lowest-numbered runnable thread continues); configurations are exhaustive within the bounds unless the evidence says truncated"},
    "outside": ["whole fit() of models beyond the explored schedules (unit C18_fit runs linear and gradient-boosting fit() end to end on 12..24 samples, its exploration is cut by the budget; the shared pieces - tuning driver with a recording model callback, dataset iterators, objectives, weak-learner fitting, solver - are covered one by one)", "gradient-sampling solvers (randomised)", "races inside native library bodies", "more than 3 threads / workers, schedules beyond the preemption bound", "weak memory effects beyond the happens-before relation (an unordered pair is reported, its possible outcomes are not enumerated)", "CPU affinity, timing"],
    "units": [
        {"engine": "sbv", "harness": "C18_shared", "sources": ["C18_shared.cpp"], "replay_with": "interpreter",
         "witness": ["mode=selftest;T=2"], "witness_label": "no data race",
         "quick": ["mode=loss;T=3;n=3;loss=%s" % l for l in ("mse", "s-classnll", "m-hinge")] +
                  ["mode=solver;T=3;solver=lbfgs;fn=rosenbrock;d=3;evals=40", "mode=solver;T=2;solver=cgd-pr;fn=sphere;d=2", "mode=solver;T=2;solver=bfgs;fn=sphere;d=2", "mode=solver;T=2;solver=ellipsoid;fn=sphere;d=2",
                   "mode=solver;T=2;solver=osga;fn=sphere;d=2", "mode=solver;T=2;solver=rqb;fn=maxq;d=3;evals=40", "mode=solver;T=2;solver=fpba1;fn=sphere;d=2"] +
                  ["mode=views;T=2;K=2;n=6", "mode=iter;K=2;n=6;batch=2", "mode=iter;K=2;n=6;batch=2;cache=1", "mode=linear;K=2;n=4;batch=2", "mode=gboost;K=2;n=4;batch=2"] +
                  ["mode=wlearner;K=2;n=6;T=2;wl=%s" % w for w in ("stump", "dtree")] + ["mode=wlearner;K=2;n=10;T=2;wl=%s" % w for w in ("dense-table", "ksplit-table")],
         "thorough": ["mode=loss;T=3;n=3;loss=%s" % l for l in _LOSSES] +
                     ["mode=solver;T=2;solver=%s;fn=sphere;d=2" % s for s in _C18_SOLVERS] + ["mode=solver;T=3;solver=lbfgs;fn=rosenbrock;d=3;evals=40", "mode=solver;T=2;solver=rqb;fn=maxq;d=3;evals=40", "mode=solver;T=3;solver=cgd-pr;fn=trid;d=3;evals=40"] +
                     ["mode=views;T=2;K=2;n=6", "mode=views;T=3;K=2;n=6", "mode=iter;K=2;n=6;batch=2", "mode=iter;K=3;n=6;batch=2", "mode=iter;K=2;n=6;batch=2;cache=1", "mode=iter;K=2;n=6;batch=1",
                      "mode=linear;K=2;n=6;batch=2", "mode=linear;K=2;n=6;batch=2;loss=m-hinge", "mode=linear;K=3;n=6;batch=2", "mode=gboost;K=2;n=6;batch=2", "mode=gboost;K=3;n=6;batch=2;loss=s-classnll"] +
                     ["mode=wlearner;K=2;n=6;T=2;wl=%s" % w for w in ("affine", "stump", "hinge", "dense-table", "dstep-table", "kbest-table", "ksplit-table", "dtree")] +
                     ["mode=wlearner;K=%d;n=10;T=2;wl=%s" % (k, w) for k in (2, 3) for w in ("dense-table", "dstep-table", "kbest-table", "ksplit-table")],
         "env": {"SBV_PREEMPT": "1", "SBV_RACE": "1"}, "env_tier": {"thorough": {"SBV_PREEMPT": "2"}},
         "budget": {"quick": {"deadline_s": 100, "max_paths": 400000, "query_s": 10}, "thorough": {"deadline_s": 300, "max_paths": 5000000, "query_s": 30}},
         "encoded": ["nano::loss_t::{error, value, vgrad} of every registered loss", "nano::solver_t::minimize + do_minimize of every deterministic solver (line-search solvers with their lsearch0 / lsearchk objects, bundle solvers with the inner QP solver)",
                     "nano::dataset_t::{flatten, select, targets}, generators scalar_identity / sclass_identity", "nano::{targets_iterator_t, flatten_iterator_t, select_iterator_t}::loop (per-thread buffers), cache_flatten / cache_targets",
                     "nano::linear::function_t::do_vgrad, nano::gboost::{bias_function_t, scale_function_t, grads_function_t} (per-thread accumulators, reduction)", "nano::wlearner_t::{fit, predict} of every weak learner (select_iterator_t loops over the pool)",
                     "nano::parallel::pool_t (real: constructor, workers, map, section_t, destructor)",
                     "modelled by the interpreter: std::thread start / join, pthread_mutex_lock / unlock, std::condition_variable::{wait, notify_one, notify_all}, __atomic_futex_unsigned_base::_M_futex_wait_until, __cxa_guard_acquire / release (happens-before edge), pthread_once"]},
        {"engine": "sbv", "harness": "C18_fit", "sources": ["C18_shared.cpp"], "replay_with": "interpreter",
         "quick": ["mode=fit;K=2;n=12;batch=10;folds=2", "mode=fit;K=2;n=24;batch=10;folds=2", "mode=fit;model=gboost;K=2;n=12;batch=10;folds=2;patience=3"],
         "thorough": ["mode=fit;K=2;n=12;batch=10;folds=2", "mode=fit;K=2;n=24;batch=10;folds=2", "mode=fit;K=3;n=24;batch=10;folds=3", "mode=fit;K=2;n=12;batch=10;folds=2;model=ridge", "mode=fit;K=2;n=24;batch=10;folds=2;loss=mae",
                      "mode=fit;model=gboost;K=2;n=12;batch=10;folds=2;patience=3", "mode=fit;model=gboost;K=2;n=24;batch=10;folds=2;patience=2", "mode=fit;model=gboost;K=3;n=12;batch=10;folds=3;patience=2"],
         "env": {"SBV_PREEMPT": "1", "SBV_RACE": "1", "SBV_BLOCK_FORKS": "1"}, "env_tier": {"thorough": {"SBV_PREEMPT": "1", "SBV_BLOCK_FORKS": "3"}},
         "budget": {"quick": {"deadline_s": 75, "max_paths": 400000, "query_s": 10}, "thorough": {"deadline_s": 600, "max_paths": 5000000, "query_s": 30}},
         "encoded": ["nano::gboost_model_t::fit end to end (bias, gradients, weak-learner selection among affine / stump / dense-table over the dataset pool, scaling, early stopping, fold averaging, refit)", "nano::linear_t::fit end to end: ml::tune (folds on the tuning pool's workers), ::fit -> flatten_iterator_t (batches on the dataset pool's workers, two submitters), scalar statistics, linear::function_t, solver lbfgs, linear::evaluate, refit, result_t",
                     "std::put_time of the file loggers stubbed (writes nothing)"]},
        {"engine": "sbv", "harness": "C18_tune", "sources": ["C18_shared.cpp"], "replay_with": "interpreter",
         "quick": ["mode=tune;K=2;n=4;folds=2;g=3;dims=2", "mode=tune;K=2;n=4;folds=2;g=3;dims=1"],
         "thorough": ["mode=tune;K=2;n=4;folds=2;g=3;dims=2", "mode=tune;K=2;n=4;folds=2;g=3;dims=1", "mode=tune;K=3;n=6;folds=3;g=3;dims=2", "mode=tune;K=2;n=4;folds=2;g=3;dims=2;tuner=surrogate", "mode=tune;K=2;n=6;folds=3;g=4;dims=1"],
         "env": {"SBV_PREEMPT": "1", "SBV_RACE": "1", "SBV_BLOCK_FORKS": "2"}, "env_tier": {"thorough": {"SBV_PREEMPT": "2", "SBV_BLOCK_FORKS": "3"}},
         "budget": {"quick": {"deadline_s": 100, "max_paths": 400000, "query_s": 10}, "thorough": {"deadline_s": 600, "max_paths": 5000000, "query_s": 30}},
         "encoded": ["nano::ml::tune (real: k-fold splitter, local-search / surrogate tuner, own pool_t of K workers, result_t::{add, store, extra, closest_trial, values, optimum_trial})",
                     "std::any copy / move of the per-(trial, fold) extras (interpreted from the bitcode)", "file loggers of the per-fold fits (native std::ofstream)"]},
    ],
}
