"""Registry: property id -> units (harnesses), bounds, assumptions. One entry per claimed property."""

SRE_ASSUME = [
    "SRE: double arithmetic is interpreted over the reals (rounding, overflow to inf, NaN generation outside the claim)",
    "SRE: verified artefact is the scalar clang-14 -O1 -DNDEBUG -DEIGEN_DONT_VECTORIZE build of /repo's current sources",
    "SRE: paths dividing by a symbolic zero / taking sqrt of a symbolic negative are excluded (counted as div_guards/sqrt_guards)",
    "SRE: thread pool constructed without OS threads (pool_t::map inline), nano::make_rng() seeded with 42 (link-time overrides, harness/sre/sre_support.cpp)",
]

PROPERTIES = {}
HOOK_COMMITS = []
WIP = "check not built yet in this session (work in progress; planned per DESIGN.md)"
NOT_APPLICABLE = {"C%02d" % i: WIP for i in range(1, 21)}
NOT_APPLICABLE["C12"] = ("integer index-set code inside heap-allocating functions (kfold/random splitters, samplers): lifted code gave CBMC no verdict "
                         "(600-900 s, 14-35 GB, three memory models) and the SRE engine has no symbolic integers; quantifier is over permutations/seeds")
NOT_APPLICABLE["C18"] = ("data-race freedom / schedule independence over OS-thread interleavings of std::thread/mutex/condition_variable code: "
                         "no solver-based engine in this image can execute C++ threads symbolically (CBMC C++ front end stops at libstdc++ headers)")
SRE_TECH = "bounded symbolic execution of the real code over symbolic reals (LLVM-instrumented libnano, fork per feasible branch), z3 nlsat decides every obligation"
SRE_NOTE = ("trusted: clang-14/LLVM-14, symfp pass + symrt runtime (cross-validated against the un-instrumented build on every run), z3 4.8.12; "
            "assumes real arithmetic (no rounding), scalar -O1 code path, stated input boxes and sizes; inline thread pool and fixed RNG seed")

PROPERTIES["C05"] = {
    "level": "other",
    "level_text": "bounded symbolic verification: for every value of the symbolic objective/constraint coefficients, point, penalty and multipliers (sizes fixed) the real penalty functions equal their defining formulas; solver verdict per obligation, counter-examples replayed on the IEEE build",
    "level_note": SRE_NOTE,
    "technique": SRE_TECH,
    "explanation": "C05: penalty/augmented-Lagrangian functions vs. independently written defining formulas for symbolic objective, constraints, point, penalty and multipliers.",
    "assumptions": SRE_ASSUME,
    "bounds": {"dims": 2, "constraints_per_function": "<= 3"},
    "outside": ["quality of the inner minimisation of the penalty / augmented-Lagrangian solvers"],
    "units": [
        {"engine": "sre", "harness": "C05_penalty", "sources": ["C05_penalty.cpp"],
         "quick": ["k=0,1,2;d=2", "k=3,4;d=2", "k=5,6;d=2", "k=7,8;d=2", "k=9,10;d=2", "k=6,3,2;d=2"],
         "thorough": ["k=0,1,2;d=2", "k=3,4;d=2", "k=5,6;d=2", "k=7,8;d=2", "k=9,10;d=2", "k=6,3,2;d=2", "k=0,4,8;d=2", "k=5,10,1;d=2",
                      "k=0,1,2;d=3;dim=1", "k=3,6;d=3", "k=7,4;d=3", "k=9,2;d=3", "k=1,2,5,6;d=2"],
         "encoded": ["nano::linear_penalty_function_t::do_vgrad", "nano::quadratic_penalty_function_t::do_vgrad",
                     "nano::augmented_lagrangian_function_t::do_vgrad", "nano::vgrad(constraint_t)", "nano::function_t::constrain"]},
    ],
}

PROPERTIES["C14"] = {
    "level": "other",
    "level_text": "bounded symbolic verification: for every value of the symbolic float64 cells (fixed small sample counts, concrete missing patterns and schemas) the statistics, scaling, up-scaling and affine model conversion of the real code satisfy the advertised identities; solver verdict per obligation",
    "level_note": SRE_NOTE,
    "technique": SRE_TECH,
    "explanation": "C14: scalar_stats_t (through the real datasource -> dataset -> flatten/targets stack), scale/upscale in the 4 modes, nano::upscale(weights,bias) on symbolic data.",
    "assumptions": SRE_ASSUME + ["cells are boxed to [-8,8]; W, b, raw x unbounded reals; epsilon thresholds (epsilon2) are the library's own"],
    "bounds": {"samples": "2..4", "columns": "2..5", "scaling modes": "all 4 for inputs and targets (pairs enumerated per configuration)",
               "missing patterns": "5 concrete patterns incl. all-missing and single-sample columns"},
    "outside": ["matrices larger than 4 x 5", "floating-point rounding relative to the magnitude of the summed terms (identities are proved over the reals)"],
    "units": [
        {"engine": "sre", "harness": "C14_scaling", "sources": ["C14_scaling.cpp"],
         "quick": ["f=rrr;n=3;fs=2;ts=0", "f=rrr;n=3;fs=3;ts=3", "f=rrr;n=3;fs=1;ts=1;miss=1", "f=rsr;n=3;miss=1;fs=1;ts=2",
                   "f=rmr;n=3;fs=3;ts=2", "f=rrr;n=3;miss=2;fs=0;ts=3", "f=rrr;n=3;miss=3;fs=3;ts=0", "f=Sr;n=2;fs=1;ts=1"],
         "thorough": ["f=rrr;n=3;fs=%d;ts=%d;miss=%d" % (a, b, m) for a in range(4) for b in range(4) for m in (0, 1)] +
                     ["f=rsr;n=3;miss=1;fs=1;ts=2", "f=rmr;n=3;fs=3;ts=2", "f=rrr;n=3;miss=2;fs=0;ts=3", "f=rrr;n=3;miss=3;fs=3;ts=0",
                      "f=Sr;n=2;fs=1;ts=1", "f=Sr;n=2;fs=3;ts=2", "f=rrr;n=4;fs=2;ts=1", "f=rrr;n=4;fs=3;ts=3;miss=4", "f=srmr;n=3;fs=2;ts=3"],
         "encoded": ["nano::scalar_stats_t::make_flatten_stats", "nano::scalar_stats_t::make_targets_stats", "(anonymous)::update(scalar_stats_t&)",
                     "(anonymous)::done(scalar_stats_t&)", "nano::scalar_stats_t::scale", "nano::scalar_stats_t::upscale",
                     "nano::upscale(stats, scaling, stats, scaling, weights, bias)", "(anonymous)::make_scaling", "nano::dataset_t::flatten",
                     "nano::dataset_t::targets"]},
    ],
}
