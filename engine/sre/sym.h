// Harness-side API of the SRE engine (symbolic-real execution). The same header is used for
//  * the symbolic build   (harness + libnano instrumented by the symfp pass, linked with symrt.cpp), and
//  * the concrete replay  (harness + libnano compiled plainly, linked with symrt_concrete.cpp).
#pragma once
#include <cstring>
#include <string>

extern "C"
{
    // fresh symbolic real (replay: the value recorded in the counter-example, 0 if absent)
    double sym_real(const char* name);
    // fresh symbolic real with lo <= x <= hi assumed (strict=1: lo < x < hi)
    double sym_real_in(const char* name, double lo, double hi, int strict);
    // n-way non-solver branching (replay: recorded choice); returns 0..n-1
    int sym_choose(const char* name, int n);
    // comparison codes
    enum { SYM_EQ = 0, SYM_NE, SYM_LT, SYM_LE, SYM_GT, SYM_GE };
    // non-forking assumption  a <op> b  (path is pruned if it becomes infeasible)
    void sym_assume_cmp(double a, int op, double b);
    // non-forking assumption  (a[0]==b[0] && ... && a[n-1]==b[n-1])  =>  c == d   (functional consistency of oracles)
    void sym_assume_eq_implies_eq(int n, const double* a, const double* b, double c, double d);
    // forking-free obligations (violation iff the negation is satisfiable under the path condition)
    void sym_check_cmp(double a, int op, double b, const char* label);
    // exact comparison (no rounding tolerance at solver level nor in the IEEE replay): for obligations that compare values the
    // code under test only moves around (callback results, stored cells), where any difference is a real difference
    void sym_check_cmp_exact(double a, int op, double b, const char* label);
    // |a-b| <= rel * (1 + |a| + |b|)
    void sym_close(double a, double b, double rel, const char* label);
    // boolean obligation on an already concrete condition
    void sym_check(int cond, const char* label);
    // end the current path: pruned (not counted), excluded (counted, outside the claim)
    void sym_prune(void) __attribute__((noreturn));
    void sym_excluded(const char* reason) __attribute__((noreturn));
    // 1 iff the value is a symbolic handle
    int sym_is_symbolic(double a);
    // record an observable (replay/validation: printed as hex-float)
    void sym_out(const char* label, double v);
    // free-form note attached to the path sample
    void sym_note(const char* text);
    // value of the symbolic expression under the current model (for diagnostics), concrete: identity
    double sym_model_value(double a);
    // partial derivative of a symbolic term with respect to the symbol called `name` (symbolic differentiation of the
    // term DAG; ite conditions are kept). Replay build: central finite difference is NOT available -> returns NaN.
    double sym_deriv(double a, const char* name);
    // derivative obligation: d(value)/d(symbol `name`) == grad, asserted only at GENERIC points, i.e. where every
    // comparison of the path condition and every ite-condition inside the two terms holds strictly (lhs != rhs):
    // that is the set where the piecewise definition is differentiable. Replay build: central finite difference check
    // is done by the harness itself (this call only records the label).
    void sym_check_deriv(double value, const char* name, double grad, const char* label);
    // number of transcendental-function applications (exp, log, ...) created on this path: their values are
    // over-approximated (ackermannised), so inequalities about them are not decidable and harnesses skip those
    int sym_uf_count(void);
    // 1 when running concretely (replay / validation: IEEE doubles, no symbols), 0 when running symbolically
    int sym_concrete(void);
    // the harness body, run once per path
    void sym_body(void);
    // configuration string given on the command line (argv[1]) or ""
    const char* sym_config(void);
}

// handle identity (no solver, no fork): same boxed term or bit-identical doubles
static inline bool sym_same(double a, double b)
{
    return std::memcmp(&a, &b, sizeof(double)) == 0;
}
static inline std::string sym_nm(const char* p, long i)
{
    return std::string(p) + std::to_string(i);
}
static inline std::string sym_nm(const char* p, long i, long j)
{
    return std::string(p) + std::to_string(i) + "_" + std::to_string(j);
}
static inline double sym_real(const std::string& s)
{
    return sym_real(s.c_str());
}
static inline double sym_pos(const std::string& s, double hi = 1e6)
{
    return sym_real_in(s.c_str(), 0.0, hi, 1);
}
static inline double sym_box(const std::string& s, double lo, double hi)
{
    return sym_real_in(s.c_str(), lo, hi, 0);
}
#define SYM_CHECK(cond, label) sym_check((cond) ? 1 : 0, label)
#define SYM_EQ_(a, b, label) sym_check_cmp((a), SYM_EQ, (b), label)
#define SYM_LE_(a, b, label) sym_check_cmp((a), SYM_LE, (b), label)
#define SYM_LT_(a, b, label) sym_check_cmp((a), SYM_LT, (b), label)
#define SYM_GE_(a, b, label) sym_check_cmp((a), SYM_GE, (b), label)
#define SYM_GT_(a, b, label) sym_check_cmp((a), SYM_GT, (b), label)
#define SYM_LE_X(a, b, label) sym_check_cmp_exact((a), SYM_LE, (b), label)
#define SYM_EQ_X(a, b, label) sym_check_cmp_exact((a), SYM_EQ, (b), label)
