// symrt: runtime of the SRE engine.
//  * symbolic reals are NaN-boxed handles (signalling-NaN payload = index into the term table of this process)
//  * terms are z3 real-arithmetic expressions; concrete doubles enter as exact dyadic rationals
//  * an fcmp on symbolic operands asks the solver which sides are feasible under the path condition; if both are,
//    the process fork()s: every path of the real code is explored by its own process (bounded by SYM_JOBS running
//    at a time), no re-execution and no determinism requirement
//  * every query is a fresh QF_NRA solver (nlsat); time is capped by alarm()+Z3_interrupt and optionally rlimit
//  * FE_INVALID traps are enabled: an un-instrumented instruction touching a boxed value raises SIGFPE and the path
//    is reported as crashed (inconclusive), never silently continued
#include <atomic>
#include <cerrno>
#include <chrono>
#include <cmath>
#include <csignal>
#include <cstdint>
#include <cstdio>
#include <cstdlib>
#include <cstring>
#include <fcntl.h>
#include <fenv.h>
#include <map>
#include <memory>
#include <semaphore.h>
#include <string>
#include <sys/mman.h>
#include <sys/wait.h>
#include <unistd.h>
#include <unordered_map>
#include <set>
#include <vector>
#include <xmmintrin.h>
#include <z3++.h>
#include "sym.h"
#include "symrt_common.h"

namespace
{
enum UnOp
{
    U_NEG = 0, U_FABS, U_SQRT, U_FLOOR, U_CEIL, U_TRUNC, U_RINT, U_ROUND, U_EXP, U_LOG, U_LOG1P, U_EXPM1, U_EXP2, U_LOG2,
    U_LOG10, U_SIN, U_COS, U_TAN, U_ATAN, U_TANH, U_CBRT, U_ASIN, U_ACOS, U_SINH, U_COSH, U_ERF, U_LGAMMA, U_TGAMMA
};
enum BinOp
{
    B_ADD = 0, B_SUB, B_MUL, B_DIV, B_REM, B_MIN, B_MAX, B_COPYSIGN, B_POW, B_HYPOT, B_ATAN2, B_FMOD, B_FDIM
};
const char* const unames[] = {"neg", "fabs", "sqrt", "floor", "ceil", "trunc", "rint", "round", "exp", "log", "log1p", "expm1",
                              "exp2", "log2", "log10", "sin", "cos", "tan", "atan", "tanh", "cbrt", "asin", "acos", "sinh",
                              "cosh", "erf", "lgamma", "tgamma"};

// ---------------------------------------------------------------------------------------------------------------
// shared state of the process tree
constexpr int MAXLAB = 384;
constexpr int MAXSMP = 10;
struct Label
{
    char              name[120];
    std::atomic<long> checked, discharged, violated, unknown;
};
struct Shared
{
    sem_t             slots;
    sem_t             lock;
    std::atomic<long> paths, pruned, excluded, violations, inconclusive, truncated, crashed, uncaught;
    std::atomic<long> queries, q_sat, q_unsat, q_unknown, solver_us, forks, pending, started, live, maxlive;
    std::atomic<long> obligations, discharged, obl_unknown, branch_unknown, maxdepth, nsamples, stop, div_guard, sqrt_guard;
    std::atomic<long> nlabels, nviolfiles, slowest_us, tol_discharged, q_cvc5, q_cvc5_unsat, q_cvc5_sat;
    Label             labels[MAXLAB];
    char              samples[MAXSMP][900];
};
Shared* S = nullptr;

// ---------------------------------------------------------------------------------------------------------------
// per-process state
z3::context*                        C = nullptr;
std::vector<z3::expr>*              terms;
std::vector<z3::expr>*              pc;
std::unique_ptr<z3::model>          mdl;
bool                                has_uf = false;
std::unordered_map<uint64_t, unsigned>* conc_cache; // bits -> term index
std::vector<pid_t>                  children;
std::vector<std::string>            notes;
std::vector<std::pair<std::string, int>> choices;
std::string                         g_config, g_out;
int                                 depth = 0, fresh = 0, jobs = 1;
long                                max_paths = 100000, max_viol = 3;
double                              deadline = 0, query_s = 10;
unsigned                            rlimit = 0;
bool                                is_root = true, have_slot = true;
std::map<std::string, std::string>  replay_vals; // concrete mode (SYM_REPLAY)
std::map<std::string, int>          replay_choices;
bool                                concrete_mode = false;
int                                 fptosi_cap = 64;

double now()
{
    return std::chrono::duration<double>(std::chrono::steady_clock::now().time_since_epoch()).count();
}

inline uint64_t bits(double d)
{
    uint64_t u;
    std::memcpy(&u, &d, 8);
    return u;
}
inline double frombits(uint64_t u)
{
    double d;
    std::memcpy(&d, &u, 8);
    return d;
}
constexpr uint64_t BOXTAG = 0x7FF4000000000000ULL; // signalling NaN (quiet bit 51 clear), bit 50 set as tag
constexpr uint64_t TAGMASK = 0xFFFC000000000000ULL;
constexpr uint64_t IDXMASK = 0x0003FFFFFFFFFFFFULL;
inline bool isbox(double d)
{
    return (bits(d) & TAGMASK) == BOXTAG;
}
double box(const z3::expr& e)
{
    terms->push_back(e);
    return frombits(BOXTAG | (uint64_t)terms->size());
}
inline bool special(double d) // concrete NaN or inf
{
    return !isbox(d) && ((bits(d) & 0x7FF0000000000000ULL) == 0x7FF0000000000000ULL);
}

[[noreturn]] void finish(int kind, const char* reason);
enum { K_DONE = 0, K_PRUNED, K_EXCLUDED, K_VIOLATION, K_INCONCLUSIVE, K_TRUNCATED, K_CRASH };

z3::expr conc(double d)
{
    if (d == 0) return C->real_val(0);
    auto it = conc_cache->find(bits(d));
    if (it != conc_cache->end()) return (*terms)[it->second];
    int       e;
    double    m  = std::frexp(d, &e);
    long long mi = (long long)std::ldexp(m, 53);
    e -= 53; // d = mi * 2^e
    while (mi != 0 && (mi & 1) == 0)
    {
        mi >>= 1;
        ++e;
    }
    z3::expr r = C->real_val(std::to_string(mi).c_str());
    if (e != 0)
    {
        z3::expr p = z3::pw(C->real_val(2), C->real_val(std::abs(e))).simplify();
        r          = (e > 0 ? r * p : r / p).simplify();
    }
    terms->push_back(r);
    (*conc_cache)[bits(d)] = (unsigned)terms->size() - 1;
    return r;
}
z3::expr ex(double d)
{
    if (isbox(d))
    {
        uint64_t i = bits(d) & IDXMASK;
        if (i == 0 || i > terms->size())
        {
            fprintf(stderr, "symrt: corrupt handle\n");
            finish(K_CRASH, "corrupt handle");
        }
        return (*terms)[i - 1];
    }
    if (special(d)) finish(K_EXCLUDED, "arithmetic on symbolic value and concrete nan/inf");
    return conc(d);
}

// ---------------------------------------------------------------------------------------------------------------
// labels / samples
Label* label(const char* name)
{
    long n = S->nlabels.load();
    for (long i = 0; i < n; ++i)
        if (std::strncmp(S->labels[i].name, name, sizeof(S->labels[i].name) - 1) == 0) return &S->labels[i];
    sem_wait(&S->lock);
    n = S->nlabels.load();
    for (long i = 0; i < n; ++i)
        if (std::strncmp(S->labels[i].name, name, sizeof(S->labels[i].name) - 1) == 0)
        {
            sem_post(&S->lock);
            return &S->labels[i];
        }
    Label* l = &S->labels[n < MAXLAB ? n : MAXLAB - 1];
    if (n < MAXLAB)
    {
        std::strncpy(l->name, name, sizeof(l->name) - 1);
        S->nlabels.store(n + 1);
    }
    sem_post(&S->lock);
    return l;
}
void add_sample(const std::string& s)
{
    long k = S->nsamples.fetch_add(1);
    if (k < MAXSMP) std::strncpy(S->samples[k], s.c_str(), sizeof(S->samples[k]) - 1);
}

// ---------------------------------------------------------------------------------------------------------------
// solver
volatile sig_atomic_t in_query = 0;
volatile sig_atomic_t alarms_in_query = 0;
void abandon_stuck_query();
void on_alarm(int)
{
    if (!in_query || !C) return;
    // first expiry: cooperative interrupt + grace period; second expiry: the solver does not react to the interrupt (long
    // polynomial operation inside nlsat) -> the path is given up and counted as truncated (never as explored)
    if (alarms_in_query++ == 0)
    {
        Z3_interrupt(*C);
        alarm(4);
    }
    else abandon_stuck_query();
}
struct QR
{
    z3::check_result           r;
    std::unique_ptr<z3::model> m;
};
// second solver: a query that z3's nlsat leaves `unknown` is handed to cvc5 (CLI, same SMT-LIB text). `unsat` is taken as is; for
// `sat` cvc5's model is fed back to z3 as equalities so that the model object used for replay comes from z3 evaluating it.
void cvc5_fallback(z3::solver& q, QR& out)
{
    static const int enabled = getenv("SYM_CVC5") ? atoi(getenv("SYM_CVC5")) : 1;
    if (!enabled || S->stop.load() || (deadline > 0 && now() > deadline)) return;
    static int  k    = 0;
    std::string base = "/dev/shm/symq_" + std::to_string(getpid()) + "_" + std::to_string(k++);
    std::string text;
    try
    {
        text = q.to_smt2();
    }
    catch (z3::exception&)
    {
        return;
    }
    {
        FILE* fp = fopen((base + ".smt2").c_str(), "w");
        if (!fp) return;
        fputs("(set-option :produce-models true)\n(set-logic QF_NRA)\n", fp);
        fputs(text.c_str(), fp);
        fputs("\n(get-model)\n", fp);
        fclose(fp);
    }
    const double budget = std::min(query_s, 10.0);
    std::string  cmd    = "timeout " + std::to_string((int)std::ceil(budget)) + " cvc5 --lang smt2 " + base + ".smt2 2>/dev/null";
    std::string  outp;
    if (FILE* pp = popen(cmd.c_str(), "r"))
    {
        char   buf[4096];
        size_t n;
        while ((n = fread(buf, 1, sizeof buf, pp)) > 0) outp.append(buf, n);
        pclose(pp);
    }
    unlink((base + ".smt2").c_str());
    S->q_cvc5++;
    if (outp.compare(0, 5, "unsat") == 0)
    {
        out.r = z3::unsat;
        S->q_cvc5_unsat++;
        return;
    }
    if (outp.compare(0, 3, "sat") != 0) return;
    // import the model: declarations of the query + (assert (= name value)) per define-fun, re-checked by z3
    std::string hints;
    size_t      p = 0;
    while ((p = text.find("(declare-fun ", p)) != std::string::npos)
    {
        size_t e = text.find('\n', p);
        hints += text.substr(p, e == std::string::npos ? std::string::npos : e - p) + "\n";
        if (e == std::string::npos) break;
        p = e;
    }
    p = 0;
    while ((p = outp.find("(define-fun ", p)) != std::string::npos)
    {
        size_t a = p + 12;
        size_t b;
        if (outp[a] == '|') b = outp.find('|', a + 1) + 1;
        else b = outp.find(' ', a);
        std::string name = outp.substr(a, b - a);
        size_t      t    = outp.find("Real", b);
        if (t == std::string::npos) break;
        size_t v = t + 4;
        // value: balanced expression up to the define-fun's closing parenthesis
        int    depth = 0;
        size_t e     = v;
        for (; e < outp.size(); ++e)
        {
            if (outp[e] == '(') ++depth;
            else if (outp[e] == ')')
            {
                if (depth == 0) break;
                --depth;
            }
        }
        hints += "(assert (= " + name + " " + outp.substr(v, e - v) + "))\n";
        p = e;
    }
    try
    {
        z3::expr_vector hv = C->parse_string(hints.c_str());
        z3::solver      q2 = (z3::tactic(*C, "simplify") & z3::tactic(*C, "propagate-values") & z3::tactic(*C, "qfnra-nlsat")).mk_solver();
        z3::expr_vector as = q.assertions();
        for (unsigned i = 0; i < as.size(); ++i) q2.add(as[i]);
        for (unsigned i = 0; i < hv.size(); ++i) q2.add(hv[i]);
        in_query = 1;
        alarms_in_query = 0;
        alarm(3);
        z3::check_result r2 = q2.check();
        alarm(0);
        in_query = 0;
        if (r2 == z3::sat)
        {
            out.m.reset(new z3::model(q2.get_model()));
            out.r = z3::sat;
            S->q_cvc5_sat++;
        }
    }
    catch (z3::exception&)
    {
        alarm(0);
        in_query = 0;
    }
}
QR query(const z3::expr* extra1, const z3::expr* extra2 = nullptr)
{
    S->queries++;
    double      t0 = now();
    z3::solver  q  = (z3::tactic(*C, "simplify") & z3::tactic(*C, "propagate-values") & z3::tactic(*C, "qfnra-nlsat")).mk_solver();
    if (rlimit)
    {
        z3::params p(*C);
        p.set("rlimit", rlimit);
        q.set(p);
    }
    for (auto& a : *pc) q.add(a);
    if (extra1) q.add(*extra1);
    if (extra2) q.add(*extra2);
    QR out;
    in_query = 1;
    // once the second solver has proved useful in this run, z3 gets a shorter first attempt (the query then goes to cvc5)
    const bool   cvc5_useful = S->q_cvc5_unsat.load() + S->q_cvc5_sat.load() >= 2;
    alarms_in_query = 0;
    alarm((unsigned)std::ceil(cvc5_useful ? std::min(query_s, 3.0) : query_s));
    try
    {
        out.r = q.check();
    }
    catch (z3::exception& e)
    {
        out.r = z3::unknown;
    }
    alarm(0);
    in_query = 0;
    if (out.r == z3::sat)
    {
        try
        {
            out.m.reset(new z3::model(q.get_model()));
        }
        catch (z3::exception&)
        {
            out.r = z3::unknown;
        }
    }
    if (out.r == z3::unknown) cvc5_fallback(q, out);
    long us = (long)((now() - t0) * 1e6);
    S->solver_us += us;
    if (out.r == z3::unknown)
        if (const char* d = getenv("SYM_DUMP_UNKNOWN"))
        {
            static int  k = 0;
            std::string f = std::string(d) + "/u" + std::to_string(getpid()) + "_" + std::to_string(k++) + ".smt2";
            FILE*       fp = fopen(f.c_str(), "w");
            if (fp)
            {
                fputs(q.to_smt2().c_str(), fp);
                fclose(fp);
            }
        }
    long prev = S->slowest_us.load();
    while (us > prev && !S->slowest_us.compare_exchange_weak(prev, us)) {}
    if (out.r == z3::sat) S->q_sat++;
    else if (out.r == z3::unsat) S->q_unsat++;
    else S->q_unknown++;
    return out;
}
// 1 true, 0 false, -1 undetermined
int model_eval_bool(const z3::expr& c)
{
    if (!mdl) return -1;
    try
    {
        z3::expr v = mdl->eval(c, true);
        if (v.is_true()) return 1;
        if (v.is_false()) return 0;
    }
    catch (z3::exception&)
    {
    }
    return -1;
}
void ensure_model()
{
    if (mdl) return;
    QR r = query(nullptr);
    if (r.r == z3::sat)
    {
        mdl = std::move(r.m);
        return;
    }
    if (r.r == z3::unsat) finish(K_PRUNED, "path condition infeasible");
    finish(K_INCONCLUSIVE, "solver unknown on path condition");
}
// path-condition entries that are AXIOMS of the ackermannised functions (not comparisons of the program): the genericity
// assumption of sym_check_deriv must not be derived from them
bool              in_axiom  = false;
std::set<size_t>* axiom_pcs = new std::set<size_t>;
void add_pc(const z3::expr& c)
{
    z3::expr s = c.simplify();
    if (s.is_true()) return;
    if (s.is_false()) finish(K_PRUNED, "assumption false");
    if (in_axiom) axiom_pcs->insert(pc->size());
    pc->push_back(s);
    if (mdl && model_eval_bool(s) != 1) mdl.reset();
}

void acquire_slot()
{
    S->pending++;
    while (sem_wait(&S->slots) != 0 && errno == EINTR) {}
    S->pending--;
    have_slot = true;
    long l = ++S->live;
    long p = S->maxlive.load();
    while (l > p && !S->maxlive.compare_exchange_weak(p, l)) {}
}
void release_slot()
{
    if (have_slot)
    {
        have_slot = false;
        S->live--;
        sem_post(&S->slots);
    }
}
void budget_check()
{
    if (S->stop.load()) finish(K_TRUNCATED, "stopped");
    if (deadline > 0 && now() > deadline) finish(K_TRUNCATED, "deadline");
}

// returns the side this process continues on; may fork
int decide(const z3::expr& c0)
{
    z3::expr c = c0.simplify();
    if (c.is_true()) return 1;
    if (c.is_false()) return 0;
    budget_check();
    ensure_model();
    int v = model_eval_bool(c);
    if (v < 0)
    {
        // model could not evaluate the condition: ask for both sides
        QR rt = query(&c);
        if (rt.r == z3::sat)
        {
            mdl = std::move(rt.m);
            v   = 1;
        }
        else if (rt.r == z3::unsat)
        {
            z3::expr nc = !c;
            pc->push_back(nc);
            return 0;
        }
        else
        {
            S->branch_unknown++;
            finish(K_INCONCLUSIVE, "solver unknown on both sides of a branch");
        }
    }
    z3::expr mine  = v ? c : !c;
    z3::expr other = v ? !c : c;
    QR       ro    = query(&other);
    if (ro.r == z3::unsat) return v; // implied by the path condition: nothing to record
    if (ro.r == z3::unknown)
    {
        S->branch_unknown++;
        pc->push_back(mine);
        return v;
    }
    // both sides feasible
    ++depth;
    long d = S->maxdepth.load();
    while (depth > d && !S->maxdepth.compare_exchange_weak(d, depth)) {}
    if (S->started.load() >= max_paths)
    {
        S->truncated++;
        pc->push_back(mine);
        return v;
    }
    S->started++;
    S->forks++;
    fflush(stdout);
    fflush(stderr);
    pid_t pid = fork();
    if (pid < 0)
    {
        S->truncated++;
        pc->push_back(mine);
        return v;
    }
    if (pid == 0)
    {
        is_root = false;
        children.clear();
        have_slot = false;
        acquire_slot();
        mdl = std::move(ro.m);
        pc->push_back(other);
        return !v;
    }
    children.push_back(pid);
    pc->push_back(mine);
    if (S->pending.load() > 3 * jobs + 8)
    {
        // too many paths waiting: let the child (and its subtree) run first
        release_slot();
        int st;
        while (waitpid(pid, &st, 0) < 0 && errno == EINTR) {}
        children.pop_back();
        acquire_slot();
    }
    return v;
}

z3::expr cmpx(int pred, const z3::expr& x, const z3::expr& y)
{
    switch (pred)
    {
    case 1: case 9: return x == y;
    case 2: case 10: return x > y;
    case 3: case 11: return x >= y;
    case 4: case 12: return x < y;
    case 5: case 13: return x <= y;
    case 6: case 14: return x != y;
    case 7: case 15: return C->bool_val(true);
    default: return C->bool_val(false);
    }
}
int concrete_cmp(int pred, double a, double b)
{
    const bool un = (a != a) || (b != b);
    switch (pred)
    {
    case 0: return 0;
    case 1: return !un && a == b;
    case 2: return !un && a > b;
    case 3: return !un && a >= b;
    case 4: return !un && a < b;
    case 5: return !un && a <= b;
    case 6: return !un && a != b;
    case 7: return !un;
    case 8: return un;
    case 9: return un || a == b;
    case 10: return un || a > b;
    case 11: return un || a >= b;
    case 12: return un || a < b;
    case 13: return un || a <= b;
    case 14: return un || a != b;
    default: return 1;
    }
}
// comparison of a symbolic (finite real) value against a concrete special (nan/inf) value
int special_cmp(int pred, double a, double b)
{
    const double cv       = isbox(a) ? b : a;
    const bool   symfirst = isbox(a);
    if (cv != cv) return pred >= 8 ? 1 : 0; // unordered
    // stand-in: any finite value compares the same way against +-inf
    const double sa = symfirst ? 0.0 : cv, sb = symfirst ? cv : 0.0;
    return concrete_cmp(pred, sa, sb);
}

void json_escape(std::string& o, const std::string& s)
{
    for (char ch : s)
    {
        if (ch == '"' || ch == '\\')
        {
            o += '\\';
            o += ch;
        }
        else if (ch == '\n') o += "\\n";
        else if ((unsigned char)ch < 32) o += ' ';
        else o += ch;
    }
}
std::string model_json(z3::model& m)
{
    std::string o = "{";
    bool        first = true;
    for (unsigned i = 0; i < m.size(); ++i)
    {
        z3::func_decl d = m[i];
        if (d.arity() != 0) continue;
        std::string name = d.name().str();
        z3::expr    v    = m.get_const_interp(d);
        std::string dec;
        try
        {
            dec = v.get_decimal_string(90);
        }
        catch (z3::exception&)
        {
            dec = v.to_string();
        }
        if (!first) o += ", ";
        first = false;
        o += "\"";
        json_escape(o, name);
        o += "\": \"";
        json_escape(o, dec);
        o += "\"";
    }
    return o + "}";
}

void report_violation(const char* lab, z3::model* m, const std::string& what, bool rounding_level)
{
    Label* l = label(lab);
    l->checked++;
    l->violated++;
    S->obligations++;
    long k = S->nviolfiles.fetch_add(1);
    if (k < 20 && !g_out.empty())
    {
        std::string f = g_out + ".viol." + std::to_string(k) + ".json";
        std::string o = "{\n \"label\": \"";
        json_escape(o, lab);
        o += "\",\n \"config\": \"";
        json_escape(o, g_config);
        o += "\",\n \"rounding_level\": ";
        o += rounding_level ? "true" : "false";
        o += ",\n \"obligation\": \"";
        json_escape(o, what.substr(0, 3000));
        o += "\",\n \"choices\": {";
        for (size_t i = 0; i < choices.size(); ++i)
        {
            if (i) o += ", ";
            o += "\"" + choices[i].first + "\": \"" + std::to_string(choices[i].second) + "\"";
        }
        o += "},\n \"notes\": [";
        for (size_t i = 0; i < notes.size(); ++i)
        {
            if (i) o += ", ";
            o += "\"";
            json_escape(o, notes[i]);
            o += "\"";
        }
        o += "],\n \"values\": ";
        o += m ? model_json(*m) : std::string("{}");
        o += "\n}\n";
        int fd = open(f.c_str(), O_WRONLY | O_CREAT | O_TRUNC, 0644);
        if (fd >= 0)
        {
            (void)!write(fd, o.data(), o.size());
            close(fd);
        }
    }
    if (S->violations.load() + 1 >= max_viol) S->stop.store(1);
    finish(K_VIOLATION, lab);
}

z3::expr absx(const z3::expr& x)
{
    return z3::ite(x >= 0, x, -x);
}

void obligation(const z3::expr& holds, const z3::expr* margin_neg, const char* lab, const z3::expr* tol_neg = nullptr)
{
    Label* l = label(lab);
    z3::expr h = holds.simplify();
    if (h.is_true())
    {
        l->checked++;
        l->discharged++;
        S->obligations++;
        S->discharged++;
        return;
    }
    budget_check();
    z3::expr neg = !h;
    QR       r   = query(&neg);
    if (r.r == z3::unsat)
    {
        l->checked++;
        l->discharged++;
        S->obligations++;
        S->discharged++;
        if (S->nsamples.load() < MAXSMP)
        {
            std::string s = std::string("obligation[") + lab + "] discharged (unsat of negation) under " +
                            std::to_string(pc->size()) + " path constraints: " + h.to_string().substr(0, 500);
            add_sample(s);
        }
        return;
    }
    if (r.r == z3::unknown)
    {
        l->checked++;
        l->unknown++;
        S->obligations++;
        S->obl_unknown++;
        return;
    }
    // the exact statement has a counter-example over the reals. Concrete sub-computations of the real code are IEEE doubles
    // (e.g. 1/3 rounded) while the harness reference may be exact, so differences at rounding level are tolerated:
    // the obligation counts as violated only if it fails by more than 1e-9 relative to the magnitude of its operands.
    bool rounding = false;
    if (tol_neg)
    {
        QR rt = query(tol_neg);
        if (rt.r == z3::unsat)
        {
            l->checked++;
            l->discharged++;
            S->obligations++;
            S->discharged++;
            S->tol_discharged++;
            return;
        }
        if (rt.r == z3::sat) r.m = std::move(rt.m);
    }
    // look for a model with a larger margin so that the replay on IEEE doubles is robust
    if (margin_neg)
    {
        QR r2 = query(margin_neg);
        if (r2.r == z3::sat) r.m = std::move(r2.m);
        else rounding = true;
    }
    report_violation(lab, r.m.get(), h.to_string(), rounding);
}

// Transcendental functions are "ackermannised": every application gets a fresh real variable constrained by
// (i) functional consistency with the earlier applications of the same function, (ii) monotonicity where the function
// is monotone, (iii) sign/range facts and tangent-line (convexity/concavity) instances for exp/log/log1p.
// The formula stays in pure QF_NRA; everything else about the function is left unconstrained (over-approximation).
struct UfApp
{
    int      op;
    z3::expr arg, arg2, val;
};
std::vector<UfApp>*              ufapps;
std::map<std::string, unsigned>* uf_defs; // fresh variable name -> index into ufapps
z3::expr fresh_real(const char* stem);
void     add_pc(const z3::expr& c);
bool uf_increasing(int op)
{
    switch (op)
    {
    case U_EXP: case U_LOG: case U_LOG1P: case U_EXPM1: case U_EXP2: case U_LOG2: case U_LOG10: case U_ATAN: case U_TANH:
    case U_CBRT: case U_SINH: case U_ERF: case U_ASIN: return true;
    default: return false;
    }
}
z3::expr uf_apply(int op, const z3::expr& x, const z3::expr* y = nullptr)
{
    for (auto& a : *ufapps)
        if (a.op == op && z3::eq(a.arg, x) && (!y || z3::eq(a.arg2, *y))) return a.val;
    z3::expr v = fresh_real(op >= 1000 ? "uf2" : (std::string("uf_") + unames[op]).c_str());
    const z3::expr one = C->real_val(1);
    struct AxiomScope
    {
        AxiomScope() { in_axiom = true; }
        ~AxiomScope() { in_axiom = false; }
    } axiom_scope;
    for (auto& a : *ufapps)
    {
        if (a.op != op) continue;
        if (y) add_pc(z3::implies(x == a.arg && *y == a.arg2, v == a.val));
        else add_pc(z3::implies(x == a.arg, v == a.val));
        if (!y && uf_increasing(op)) add_pc(z3::implies(x < a.arg, v < a.val) && z3::implies(x > a.arg, v > a.val));
        if (op == U_EXP)
        {
            add_pc(v >= a.val * (one + x - a.arg) && a.val >= v * (one + a.arg - x));
            z3::expr sum = (x + a.arg).simplify();
            if (sum.is_numeral() && sum.get_decimal_string(3) == "0") add_pc(v * a.val == one); // exp(u) * exp(-u) = 1
        }
        if (op == U_LOG) add_pc(v <= a.val + (x - a.arg) / a.arg && a.val <= v + (a.arg - x) / x);
        if (op == U_LOG1P) add_pc(v <= a.val + (x - a.arg) / (one + a.arg) && a.val <= v + (a.arg - x) / (one + x));
    }
    if (op == 1000 + B_POW && y)
    {
        // real power with a non-negative base and exponent: stays on the same side of 1 as the base, and non-negative
        const z3::expr zero = C->real_val(0);
        add_pc(z3::implies(x >= zero && *y >= zero, v >= zero));
        add_pc(z3::implies(x >= zero && x <= one && *y >= zero, v <= one));
        add_pc(z3::implies(x >= one && *y >= zero, v >= one));
    }
    switch (op)
    {
    case U_EXP: add_pc(v > 0 && v >= one + x); break;
    case U_LOG: add_pc(x > 0); add_pc(v <= x - one); add_pc(z3::implies(x == one, v == 0)); break;
    case U_LOG1P: add_pc(x > -one); add_pc(v <= x); add_pc(z3::implies(x == 0, v == 0)); add_pc(z3::implies(x > 0, v > 0)); break;
    case U_EXPM1: add_pc(v > -one && v >= x); break;
    case U_TANH: add_pc(v > -one && v < one && z3::implies(x >= 0, v >= 0) && z3::implies(x <= 0, v <= 0)); break;
    case U_ATAN: add_pc(v > -C->real_val(2) && v < C->real_val(2) && z3::implies(x >= 0, v >= 0) && z3::implies(x <= 0, v <= 0)); break;
    case U_COSH: add_pc(v >= one); break;
    case U_SIN: case U_COS: add_pc(v >= -one && v <= one); break;
    case U_EXP2: add_pc(v > 0); break;
    default: break;
    }
    ufapps->push_back(UfApp{op, x, y ? *y : x, v});
    (*uf_defs)[v.decl().name().str()] = (unsigned)ufapps->size() - 1;
    return v;
}
z3::expr fresh_real(const char* stem)
{
    return C->real_const((std::string(stem) + "!" + std::to_string(fresh++)).c_str());
}

double masked_bin(int op, double a, double b)
{
    unsigned csr = _mm_getcsr();
    _mm_setcsr(csr | 0x1F80);
    double r;
    switch (op)
    {
    case B_ADD: r = a + b; break;
    case B_SUB: r = a - b; break;
    case B_MUL: r = a * b; break;
    case B_DIV: r = a / b; break;
    default: r = std::fmod(a, b); break;
    }
    _mm_setcsr((csr & ~0x3Fu));
    return r;
}
inline bool fin(double d)
{
    return (bits(d) & 0x7FF0000000000000ULL) != 0x7FF0000000000000ULL;
}

int decide(const z3::expr& c0);
// x / 0 under IEEE with x a finite real: NaN if x == 0, +-inf otherwise (sign of the zero taken as +)
double div_by_zero(const z3::expr& x, bool negzero)
{
    if (decide(x == 0)) return std::nan("");
    const bool pos = decide(x > 0) != 0;
    return (pos != negzero) ? HUGE_VAL : -HUGE_VAL;
}
// returns false when the divisor is zero on every continuation of this path (caller applies IEEE semantics);
// otherwise assumes y != 0: the zero side (measure zero) is outside the claim and counted in div_guards
bool guard_nonzero(const z3::expr& y)
{
    ensure_model();
    z3::expr nz = (y != 0);
    int      v  = model_eval_bool(nz);
    if (v != 1)
    {
        QR r = query(&nz);
        if (r.r == z3::unsat) return false;
        if (r.r == z3::unknown) finish(K_INCONCLUSIVE, "solver unknown on divisor");
        mdl = std::move(r.m);
    }
    S->div_guard++;
    pc->push_back(nz);
    return true;
}

std::string pc_summary()
{
    std::string s;
    for (size_t i = 0; i < pc->size() && s.size() < 400; ++i)
    {
        if (i) s += " & ";
        s += (*pc)[i].to_string().substr(0, 160);
    }
    return s;
}

void wait_children()
{
    int st;
    for (;;)
    {
        pid_t p = wait(&st);
        if (p < 0)
        {
            if (errno == EINTR) continue;
            break;
        }
        if (WIFSIGNALED(st)) S->crashed++;
    }
}
void write_summary();

[[noreturn]] void finish(int kind, const char* reason)
{
    switch (kind)
    {
    case K_DONE:
        S->paths++;
        if (S->nsamples.load() < MAXSMP / 2)
        {
            std::string s = "path done, depth " + std::to_string(depth) + ", " + std::to_string(pc->size()) + " constraints";
            for (auto& n : notes) s += "; " + n;
            s += "; pc: " + pc_summary();
            add_sample(s);
        }
        break;
    case K_PRUNED: S->pruned++; break;
    case K_EXCLUDED:
        S->excluded++;
        label((std::string("excluded: ") + reason).c_str())->checked++;
        break;
    case K_VIOLATION:
        S->paths++;
        S->violations++;
        break;
    case K_INCONCLUSIVE:
        S->inconclusive++;
        label((std::string("inconclusive: ") + reason).c_str())->checked++;
        break;
    case K_TRUNCATED: S->truncated++; break;
    default:
        S->crashed++;
        label((std::string("crash: ") + reason).c_str())->checked++;
        break;
    }
    release_slot();
    wait_children();
    if (is_root)
    {
        write_summary();
        _exit(S->violations.load() ? 1 : 0);
    }
    _exit(0);
}

const char* const STUCK_LABEL = "truncated: solver ignored the interrupt (path given up)";
void abandon_stuck_query()
{
    // async-signal context, same discipline as on_crash
    if (S)
    {
        S->truncated++;
        long n = S->nlabels.load();
        for (long i = 0; i < n; ++i)
            if (std::strcmp(S->labels[i].name, STUCK_LABEL) == 0)
            {
                S->labels[i].checked++;
                break;
            }
        if (have_slot)
        {
            have_slot = false;
            S->live--;
            sem_post(&S->slots);
        }
    }
    int st;
    while (wait(&st) > 0 || errno == EINTR) {}
    if (is_root && S)
    {
        write_summary();
        _exit(S->violations.load() ? 1 : 0);
    }
    _exit(0);
}

void on_crash(int sig)
{
    // async-signal context: counters are lock-free atomics in shared memory
    if (S)
    {
        S->crashed++;
        const char* nm = sig == SIGFPE ? "crash: SIGFPE (un-instrumented fp instruction touched a symbolic value?)"
                         : sig == SIGSEGV ? "crash: SIGSEGV"
                         : sig == SIGABRT ? "crash: SIGABRT (uncaught exception / abort)"
                                          : "crash: signal";
        long n = S->nlabels.load();
        for (long i = 0; i < n; ++i)
            if (std::strcmp(S->labels[i].name, nm) == 0)
            {
                S->labels[i].checked++;
                break;
            }
        if (have_slot)
        {
            have_slot = false;
            S->live--;
            sem_post(&S->slots);
        }
    }
    int st;
    while (wait(&st) > 0 || errno == EINTR) {}
    if (is_root && S)
    {
        write_summary();
        _exit(S->violations.load() ? 1 : 0);
    }
    _exit(0);
}

double t_start = 0;
void write_summary()
{
    std::string o = "{\n";
    auto kv = [&](const char* k, long v, bool comma = true) {
        o += std::string(" \"") + k + "\": " + std::to_string(v) + (comma ? ",\n" : "\n");
    };
    o += " \"config\": \"";
    json_escape(o, g_config);
    o += "\",\n";
    kv("paths", S->paths);
    kv("pruned", S->pruned);
    kv("excluded", S->excluded);
    kv("violations", S->violations);
    kv("inconclusive", S->inconclusive);
    kv("truncated", S->truncated);
    kv("crashed", S->crashed);
    kv("queries", S->queries);
    kv("q_sat", S->q_sat);
    kv("q_unsat", S->q_unsat);
    kv("q_unknown", S->q_unknown);
    kv("forks", S->forks);
    kv("max_depth", S->maxdepth);
    kv("max_live", S->maxlive);
    kv("obligations", S->obligations);
    kv("discharged", S->discharged);
    kv("obligations_unknown", S->obl_unknown);
    kv("branch_unknown", S->branch_unknown);
    kv("div_guards", S->div_guard);
    kv("sqrt_guards", S->sqrt_guard);
    kv("discharged_within_1e-9", S->tol_discharged);
    kv("slowest_query_us", S->slowest_us);
    kv("queries_to_cvc5", S->q_cvc5);
    kv("cvc5_unsat", S->q_cvc5_unsat);
    kv("cvc5_sat", S->q_cvc5_sat);
    o += " \"solver_s\": " + std::to_string(S->solver_us.load() / 1e6) + ",\n";
    o += " \"wall_s\": " + std::to_string(now() - t_start) + ",\n";
    o += std::string(" \"exhaustive\": ") + ((S->truncated.load() == 0 && S->stop.load() == 0) ? "true" : "false") + ",\n";
    o += " \"labels\": [";
    long n = S->nlabels.load();
    for (long i = 0; i < n; ++i)
    {
        if (i) o += ",";
        o += "\n  {\"label\": \"";
        json_escape(o, S->labels[i].name);
        o += "\", \"checked\": " + std::to_string(S->labels[i].checked.load()) +
             ", \"discharged\": " + std::to_string(S->labels[i].discharged.load()) +
             ", \"violated\": " + std::to_string(S->labels[i].violated.load()) +
             ", \"unknown\": " + std::to_string(S->labels[i].unknown.load()) + "}";
    }
    o += "\n ],\n \"samples\": [";
    long ns = std::min<long>(S->nsamples.load(), MAXSMP);
    for (long i = 0; i < ns; ++i)
    {
        if (i) o += ",";
        o += "\n  \"";
        json_escape(o, S->samples[i]);
        o += "\"";
    }
    o += "\n ]\n}\n";
    if (g_out.empty())
    {
        (void)!write(1, o.data(), o.size());
    }
    else
    {
        int fd = open(g_out.c_str(), O_WRONLY | O_CREAT | O_TRUNC, 0644);
        if (fd >= 0)
        {
            (void)!write(fd, o.data(), o.size());
            close(fd);
        }
    }
}

z3::expr opx(int op)
{
    return C->bool_val(op != 0);
}
z3::expr cmp_term(int op, const z3::expr& x, const z3::expr& y)
{
    switch (op)
    {
    case SYM_EQ: return x == y;
    case SYM_NE: return x != y;
    case SYM_LT: return x < y;
    case SYM_LE: return x <= y;
    case SYM_GT: return x > y;
    default: return x >= y;
    }
}

// symbolic differentiation over z3 terms
z3::expr deriv(const z3::expr& e, const std::string& var, std::map<unsigned, z3::expr>& memo)
{
    auto it = memo.find(e.id());
    if (it != memo.end()) return it->second;
    z3::expr r = C->real_val(0);
    if (e.is_numeral()) r = C->real_val(0);
    else if (e.is_const())
    {
        const std::string nm = e.decl().name().str();
        auto              ud = uf_defs->find(nm);
        if (ud == uf_defs->end()) r = C->real_val(nm == var ? 1 : 0);
        else
        {
            const UfApp app = (*ufapps)[ud->second];
            z3::expr    u = app.arg, du = deriv(u, var, memo);
            switch (app.op)
            {
            case U_EXP: r = e * du; break;
            case U_LOG: r = du / u; break;
            case U_LOG1P: r = du / (1 + u); break;
            case U_EXPM1: r = (e + 1) * du; break;
            case U_SIN: r = uf_apply(U_COS, u) * du; break;
            case U_COS: r = -uf_apply(U_SIN, u) * du; break;
            case U_ATAN: r = du / (1 + u * u); break;
            case U_TANH: r = (1 - e * e) * du; break;
            case U_SINH: r = uf_apply(U_COSH, u) * du; break;
            case U_COSH: r = uf_apply(U_SINH, u) * du; break;
            default: finish(K_INCONCLUSIVE, "derivative of an un-modelled function");
            }
        }
    }
    else if (e.is_app())
    {
        const auto k = e.decl().decl_kind();
        const unsigned n = e.num_args();
        switch (k)
        {
        case Z3_OP_ADD:
            r = deriv(e.arg(0), var, memo);
            for (unsigned i = 1; i < n; ++i) r = r + deriv(e.arg(i), var, memo);
            break;
        case Z3_OP_SUB:
            r = deriv(e.arg(0), var, memo);
            for (unsigned i = 1; i < n; ++i) r = r - deriv(e.arg(i), var, memo);
            break;
        case Z3_OP_UMINUS: r = -deriv(e.arg(0), var, memo); break;
        case Z3_OP_MUL:
        {
            // product rule over n factors
            r = C->real_val(0);
            for (unsigned i = 0; i < n; ++i)
            {
                z3::expr t = deriv(e.arg(i), var, memo);
                for (unsigned j = 0; j < n; ++j)
                    if (j != i) t = t * e.arg(j);
                r = r + t;
            }
            break;
        }
        case Z3_OP_DIV:
        {
            z3::expr u = e.arg(0), v = e.arg(1);
            r = (deriv(u, var, memo) * v - u * deriv(v, var, memo)) / (v * v);
            break;
        }
        case Z3_OP_ITE: r = z3::ite(e.arg(0), deriv(e.arg(1), var, memo), deriv(e.arg(2), var, memo)); break;
        case Z3_OP_POWER:
        {
            // only numeral exponents are generated
            z3::expr u = e.arg(0), p = e.arg(1);
            r = p * z3::pw(u, p - 1) * deriv(u, var, memo);
            break;
        }
        case Z3_OP_TO_REAL: r = C->real_val(0); break;
        default: finish(K_INCONCLUSIVE, "derivative of an unsupported term");
        }
    }
    memo.emplace(e.id(), r);
    return r;
}
// derivative of sqrt-introduced symbols: s*s = x  =>  ds = dx / (2 s); handled by recording definitions
std::map<std::string, unsigned>* sqrt_defs; // fresh name -> term index of the radicand
} // namespace

// ===============================================================================================================
extern "C"
{
double __sym_bin(int op, double a, double b)
{
    if (!isbox(a) && !isbox(b))
    {
        switch (op)
        {
        case B_ADD: return (fin(a) && fin(b)) ? a + b : masked_bin(op, a, b);
        case B_SUB: return (fin(a) && fin(b)) ? a - b : masked_bin(op, a, b);
        case B_MUL: return (fin(a) && fin(b)) ? a * b : masked_bin(op, a, b);
        case B_DIV: return (fin(a) && fin(b) && b != 0) ? a / b : masked_bin(op, a, b);
        case B_REM: case B_FMOD: return masked_bin(B_REM, a, b);
        case B_MIN: return std::fmin(a, b);
        case B_MAX: return std::fmax(a, b);
        case B_COPYSIGN: return std::copysign(a, b);
        case B_POW:
        {
            unsigned csr = _mm_getcsr();
            _mm_setcsr(csr | 0x1F80);
            double r = std::pow(a, b);
            _mm_setcsr(csr & ~0x3Fu);
            return r;
        }
        case B_HYPOT: return std::hypot(a, b);
        case B_ATAN2: return std::atan2(a, b);
        default: return std::fdim(a, b);
        }
    }
    if (special(a) || special(b))
    {
        // IEEE semantics with the symbolic operand being a finite real
        const double cv = isbox(a) ? b : a, sv = isbox(a) ? a : b;
        if (op == B_MIN || op == B_MAX)
        {
            if (cv != cv) return sv;
            if (op == B_MIN) return cv < 0 ? cv : sv;
            return cv > 0 ? cv : sv;
        }
        if (cv != cv) return cv; // NaN propagates through every arithmetic operation
        if (op == B_ADD) return cv;                                    // finite + (+-inf)
        if (op == B_SUB) return isbox(a) ? -cv : cv;                   // finite - inf, inf - finite
        if (op == B_DIV && isbox(a)) return cv > 0 ? 0.0 : -0.0;       // finite / inf = 0 (sign ignored over the reals)
        finish(K_EXCLUDED, "multiplication/division of a symbolic value with concrete infinity");
    }
    z3::expr x = ex(a), y = ex(b);
    switch (op)
    {
    case B_ADD: return box(x + y);
    case B_SUB: return box(x - y);
    case B_MUL:
        if ((bits(a) << 1) == 0 || (bits(b) << 1) == 0) return 0.0;
        return box(x * y);
    case B_DIV:
        if (isbox(b))
        {
            if (!guard_nonzero(y)) return div_by_zero(x, false);
        }
        else if ((bits(b) << 1) == 0) return div_by_zero(x, (bits(b) >> 63) != 0);
        return box(x / y);
    case B_MIN: return box(z3::ite(x <= y, x, y));
    case B_MAX: return box(z3::ite(x >= y, x, y));
    case B_COPYSIGN: return box(z3::ite(y >= 0, absx(x), -absx(x)));
    case B_FDIM: return box(z3::ite(x > y, x - y, C->real_val(0)));
    case B_HYPOT:
    {
        z3::expr s = fresh_real("hyp");
        add_pc(s >= 0 && s * s == x * x + y * y);
        return box(s);
    }
    case B_POW:
        if (!isbox(b) && b == std::floor(b) && std::fabs(b) <= 16)
        {
            int      n = (int)std::fabs(b);
            z3::expr r = C->real_val(1);
            for (int i = 0; i < n; ++i) r = r * x;
            if (b < 0)
            {
                if (!guard_nonzero(x)) return HUGE_VAL;
                r = C->real_val(1) / r;
            }
            return box(r);
        }
        return box(uf_apply(1000 + op, x, &y));
    default: return box(uf_apply(1000 + op, x, &y));
    }
}

double __sym_fma(double a, double b, double c)
{
    return __sym_bin(B_ADD, __sym_bin(B_MUL, a, b), c);
}
double __sym_powi(double a, int n)
{
    return __sym_bin(B_POW, a, (double)n);
}

double __sym_un(int op, double a)
{
    if (!isbox(a))
    {
        if (op == U_NEG) return -a;
        if (op == U_FABS) return std::fabs(a);
        unsigned csr = _mm_getcsr();
        _mm_setcsr(csr | 0x1F80);
        double r;
        switch (op)
        {
        case U_SQRT: r = std::sqrt(a); break;
        case U_FLOOR: r = std::floor(a); break;
        case U_CEIL: r = std::ceil(a); break;
        case U_TRUNC: r = std::trunc(a); break;
        case U_RINT: r = std::rint(a); break;
        case U_ROUND: r = std::round(a); break;
        case U_EXP: r = std::exp(a); break;
        case U_LOG: r = std::log(a); break;
        case U_LOG1P: r = std::log1p(a); break;
        case U_EXPM1: r = std::expm1(a); break;
        case U_EXP2: r = std::exp2(a); break;
        case U_LOG2: r = std::log2(a); break;
        case U_LOG10: r = std::log10(a); break;
        case U_SIN: r = std::sin(a); break;
        case U_COS: r = std::cos(a); break;
        case U_TAN: r = std::tan(a); break;
        case U_ATAN: r = std::atan(a); break;
        case U_TANH: r = std::tanh(a); break;
        case U_CBRT: r = std::cbrt(a); break;
        case U_ASIN: r = std::asin(a); break;
        case U_ACOS: r = std::acos(a); break;
        case U_SINH: r = std::sinh(a); break;
        case U_COSH: r = std::cosh(a); break;
        case U_ERF: r = std::erf(a); break;
        case U_LGAMMA: r = std::lgamma(a); break;
        default: r = std::tgamma(a); break;
        }
        _mm_setcsr(csr & ~0x3Fu);
        return r;
    }
    z3::expr x = ex(a);
    switch (op)
    {
    case U_NEG: return box(-x);
    case U_FABS: return box(absx(x));
    case U_SQRT:
    {
        // x < 0 would be NaN in IEEE: outside the claim
        ensure_model();
        z3::expr nn = (x >= 0);
        if (model_eval_bool(nn) != 1)
        {
            QR r = query(&nn);
            if (r.r == z3::unsat) return std::nan(""); // IEEE: sqrt of a negative value
            if (r.r == z3::unknown) finish(K_INCONCLUSIVE, "solver unknown on sqrt argument");
            mdl = std::move(r.m);
        }
        S->sqrt_guard++;
        pc->push_back(nn);
        z3::expr s = fresh_real("sqrt");
        terms->push_back(x);
        (*sqrt_defs)[s.decl().name().str()] = (unsigned)terms->size() - 1;
        add_pc(s >= 0 && s * s == x);
        return box(s);
    }
    case U_FLOOR: case U_CEIL: case U_TRUNC: case U_RINT: case U_ROUND:
    {
        // integer-valued result: enumerate through the fptosi machinery
        extern long __sym_round_enum(double, int);
        return (double)__sym_round_enum(a, op);
    }
    default:
    {
        return box(uf_apply(op, x));

    }
    }
}

int __sym_cmp(int pred, double a, double b)
{
    if (!isbox(a) && !isbox(b)) return concrete_cmp(pred, a, b);
    if (special(a) || special(b)) return special_cmp(pred, a, b);
    if (pred == 0 || pred == 8) return 0;
    if (pred == 7 || pred == 15) return 1;
    if (sym_same(a, b)) return concrete_cmp(pred, 1.0, 1.0);
    return decide(cmpx(pred, ex(a), ex(b)));
}

double __sym_sel(int pred, double a, double b, double x, double y)
{
    if (!isbox(a) && !isbox(b)) return concrete_cmp(pred, a, b) ? x : y;
    if (sym_same(x, y)) return x;
    if (special(a) || special(b)) return special_cmp(pred, a, b) ? x : y;
    if (pred == 0 || pred == 8) return y;
    if (pred == 7 || pred == 15) return x;
    if (sym_same(a, b)) return concrete_cmp(pred, 1.0, 1.0) ? x : y;
    if (special(x) || special(y)) return decide(cmpx(pred, ex(a), ex(b))) ? x : y;
    z3::expr c = cmpx(pred, ex(a), ex(b)).simplify();
    if (c.is_true()) return x;
    if (c.is_false()) return y;
    return box(z3::ite(c, ex(x), ex(y)));
}

static long trunc_under_model(const z3::expr& t, int mode)
{
    // mode: U_TRUNC (toward zero), U_FLOOR, U_CEIL, U_RINT/U_ROUND (nearest, ties: even / away - approximated by
    // the comparison below, ties are decided by the solver on the interval constraint)
    ensure_model();
    z3::expr fl = mdl->eval(z3::expr(*C, Z3_mk_real2int(*C, t)), true);
    int64_t  f  = 0;
    if (!fl.is_numeral() || !fl.is_numeral_i64(f)) finish(K_INCONCLUSIVE, "cannot evaluate integer part under the model");
    z3::expr isint = mdl->eval(t == C->real_val((int64_t)f), true);
    const bool exact = isint.is_true();
    switch (mode)
    {
    case U_FLOOR: return f;
    case U_CEIL: return exact ? f : f + 1;
    case U_TRUNC: return (f >= 0 || exact) ? f : f + 1;
    default:
    {
        // nearest: compare with f + 1/2
        z3::expr h = mdl->eval(t - C->real_val((int64_t)f) >= C->real_val(1, 2), true);
        return h.is_true() ? f + 1 : f;
    }
    }
}
static z3::expr interval_of(const z3::expr& t, long k, int mode)
{
    z3::expr K = C->real_val((int64_t)k);
    switch (mode)
    {
    case U_FLOOR: return t >= K && t < K + 1;
    case U_CEIL: return t > K - 1 && t <= K;
    case U_TRUNC:
        if (k > 0) return t >= K && t < K + 1;
        if (k < 0) return t > K - 1 && t <= K;
        return t > -1 && t < 1;
    default:
        // round-to-nearest: exact ties (x.5) are outside the claim (rint: to even, round: away)
        return t > K - C->real_val(1, 2) && t < K + C->real_val(1, 2);
    }
}
long __sym_round_enum(double a, int mode)
{
    z3::expr t = ex(a);
    for (int tries = 0;; ++tries)
    {
        if (tries > fptosi_cap) finish(K_INCONCLUSIVE, "integer conversion of a symbolic value: enumeration cap reached");
        long k = trunc_under_model(t, mode);
        if (decide(interval_of(t, k, mode))) return k;
        if (mode == U_RINT || mode == U_ROUND)
        {
            // exclude exact ties
            ensure_model();
        }
    }
}
long __sym_fptosi(double a)
{
    if (!isbox(a)) return (long)a;
    return __sym_round_enum(a, U_TRUNC);
}
unsigned long __sym_fptoui(double a)
{
    if (!isbox(a)) return (unsigned long)a;
    long k = __sym_round_enum(a, U_TRUNC);
    if (k < 0) finish(K_EXCLUDED, "negative symbolic value converted to unsigned");
    return (unsigned long)k;
}
float __sym_fptrunc(double a)
{
    if (!isbox(a)) return (float)a;
    finish(K_INCONCLUSIVE, "symbolic double narrowed to float32");
}
double __sym_escape(double a, int printing)
{
    if (!isbox(a)) return a;
    if (printing) return std::nan("");
    finish(K_INCONCLUSIVE, "symbolic value passed to an un-modelled external function");
}

// ---------------------------------------------------------------------------------------------------------------
// harness API
const char* sym_config(void)
{
    return g_config.c_str();
}
double sym_real(const char* name)
{
    if (concrete_mode) return symc::value_in(replay_vals, name, -2.0, 2.0);
    return box(C->real_const(name));
}
double sym_real_in(const char* name, double lo, double hi, int strict)
{
    if (concrete_mode) return symc::value_in(replay_vals, name, lo, hi);
    z3::expr x = C->real_const(name);
    if (strict) add_pc(x > conc(lo) && x < conc(hi));
    else add_pc(x >= conc(lo) && x <= conc(hi));
    return box(x);
}
int sym_choose(const char* name, int n)
{
    if (concrete_mode)
    {
        return symc::choice_in(replay_choices, name, n);
    }
    int mine = 0;
    for (int k = 1; k < n; ++k)
    {
        budget_check();
        if (S->started.load() >= max_paths)
        {
            S->truncated++;
            break;
        }
        S->started++;
        S->forks++;
        fflush(stdout);
        fflush(stderr);
        pid_t pid = fork();
        if (pid == 0)
        {
            is_root = false;
            children.clear();
            have_slot = false;
            acquire_slot();
            mine = k;
            break;
        }
        if (pid > 0) children.push_back(pid);
    }
    ++depth;
    choices.emplace_back(name, mine);
    return mine;
}
void sym_assume_cmp(double a, int op, double b)
{
    if (!isbox(a) && !isbox(b))
    {
        if (!symc::concrete_holds(a, op, b, 0.0)) finish(K_PRUNED, "assumption false");
        return;
    }
    if (special(a) || special(b)) finish(K_PRUNED, "assumption on nan/inf");
    add_pc(cmp_term(op, ex(a), ex(b)));
    ensure_model();
}
void sym_assume_eq_implies_eq(int n, const double* a, const double* b, double c, double d)
{
    if (concrete_mode) return;
    if (special(c) || special(d)) return;
    if (!isbox(c) && !isbox(d)) return;
    z3::expr prem = C->bool_val(true);
    for (int i = 0; i < n; ++i)
    {
        if (sym_same(a[i], b[i])) continue;
        if (special(a[i]) || special(b[i])) return;
        if (!isbox(a[i]) && !isbox(b[i])) return; // different concrete values: premise false
        prem = prem && (ex(a[i]) == ex(b[i]));
    }
    add_pc(z3::implies(prem, ex(c) == ex(d)));
    ensure_model();
}
void sym_check_cmp(double a, int op, double b, const char* lab)
{
    if (!isbox(a) && !isbox(b))
    {
        if (concrete_mode) printf("OUT %s %a %a\n", lab, a, b);
        Label* l = label(lab);
        if (symc::concrete_holds(a, op, b, concrete_mode ? 1e-6 : 1e-9))
        {
            l->checked++;
            l->discharged++;
            S->obligations++;
            S->discharged++;
            return;
        }
        if (concrete_mode)
        {
            printf("CONFIRMED-VIOLATION label=%s a=%.17g b=%.17g op=%d\n", lab, a, b, op);
            fflush(stdout);
            S->violations++;
            l->checked++;
            l->violated++;
            return;
        }
        ensure_model();
        char buf[200];
        snprintf(buf, sizeof buf, "concrete: %.17g op%d %.17g", a, op, b);
        report_violation(lab, mdl.get(), buf, false);
    }
    if (special(a) || special(b))
    {
        // symbolic finite value against nan/inf
        int pred = op == SYM_EQ ? 1 : op == SYM_NE ? 14 : op == SYM_LT ? 4 : op == SYM_LE ? 5 : op == SYM_GT ? 2 : 3;
        if (special_cmp(pred, a, b))
        {
            Label* l = label(lab);
            l->checked++;
            l->discharged++;
            S->obligations++;
            S->discharged++;
            return;
        }
        ensure_model();
        report_violation(lab, mdl.get(), "symbolic value compared with nan/inf", false);
    }
    z3::expr x = ex(a), y = ex(b);
    z3::expr scale = (1 + absx(x) + absx(y));
    z3::expr m = C->real_val(1, 1000) * scale;
    z3::expr t = C->real_val(1, 1000000000) * scale;
    z3::expr mneg = C->bool_val(false), tneg = C->bool_val(false);
    switch (op)
    {
    case SYM_EQ: mneg = absx(x - y) > m; tneg = absx(x - y) > t; break;
    case SYM_NE: mneg = (x == y); tneg = (x == y); break;
    case SYM_LT: mneg = x >= y + m; tneg = x >= y + t; break;
    case SYM_LE: mneg = x > y + m; tneg = x > y + t; break;
    case SYM_GT: mneg = x + m <= y; tneg = x + t <= y; break;
    default: mneg = x + m < y; tneg = x + t < y; break;
    }
    obligation(cmp_term(op, x, y), &mneg, lab, &tneg);
}
void sym_check_cmp_exact(double a, int op, double b, const char* lab)
{
    if ((!isbox(a) && !isbox(b)) || special(a) || special(b))
    {
        if (!isbox(a) && !isbox(b) && !concrete_mode)
        {
            Label* l = label(lab);
            if (symc::concrete_holds(a, op, b, 0.0))
            {
                l->checked++;
                l->discharged++;
                S->obligations++;
                S->discharged++;
                return;
            }
        }
        sym_check_cmp(a, op, b, lab);
        return;
    }
    z3::expr x = ex(a), y = ex(b);
    // a model with a visible margin is preferred for the replay, but an exact counter-example is a violation too
    z3::expr scale = (1 + absx(x) + absx(y));
    z3::expr m     = C->real_val(1, 1000) * scale;
    z3::expr mneg  = C->bool_val(false);
    switch (op)
    {
    case SYM_EQ: mneg = absx(x - y) > m; break;
    case SYM_NE: mneg = (x == y); break;
    case SYM_LT: mneg = x >= y + m; break;
    case SYM_LE: mneg = x > y + m; break;
    case SYM_GT: mneg = x + m <= y; break;
    default: mneg = x + m < y; break;
    }
    obligation(cmp_term(op, x, y), &mneg, lab, nullptr);
}
void sym_close(double a, double b, double rel, const char* lab)
{
    if (!isbox(a) && !isbox(b))
    {
        if (concrete_mode) printf("OUT %s %a %a\n", lab, a, b);
        const bool ok = (a != a && b != b) || std::fabs(a - b) <= std::max(rel, concrete_mode ? 1e-6 : 0.0) * (1 + std::fabs(a) + std::fabs(b));
        Label*     l  = label(lab);
        if (ok)
        {
            l->checked++;
            l->discharged++;
            S->obligations++;
            S->discharged++;
            return;
        }
        if (concrete_mode)
        {
            printf("CONFIRMED-VIOLATION label=%s a=%.17g b=%.17g close\n", lab, a, b);
            fflush(stdout);
            S->violations++;
            l->checked++;
            l->violated++;
            return;
        }
        ensure_model();
        char buf[200];
        snprintf(buf, sizeof buf, "concrete: %.17g !~ %.17g", a, b);
        report_violation(lab, mdl.get(), buf, false);
    }
    if (special(a) || special(b))
    {
        ensure_model();
        report_violation(lab, mdl.get(), "symbolic value expected close to nan/inf", false);
    }
    z3::expr x = ex(a), y = ex(b);
    z3::expr bound = conc(rel) * (1 + absx(x) + absx(y));
    z3::expr mneg  = absx(x - y) > bound + C->real_val(1, 1000) * (1 + absx(x) + absx(y));
    obligation(absx(x - y) <= bound, &mneg, lab);
}
void sym_check(int cond, const char* lab)
{
    Label* l = label(lab);
    if (cond)
    {
        l->checked++;
        l->discharged++;
        S->obligations++;
        S->discharged++;
        return;
    }
    if (concrete_mode)
    {
        printf("CONFIRMED-VIOLATION label=%s (boolean)\n", lab);
        fflush(stdout);
        S->violations++;
        l->checked++;
        l->violated++;
        return;
    }
    ensure_model();
    report_violation(lab, mdl.get(), "boolean condition false on a feasible path", false);
}
void sym_prune(void)
{
    finish(K_PRUNED, "pruned by harness");
}
void sym_excluded(const char* reason)
{
    finish(K_EXCLUDED, reason);
}
int sym_is_symbolic(double a)
{
    return isbox(a) ? 1 : 0;
}
void sym_out(const char* lab, double v)
{
    if (concrete_mode)
    {
        printf("OUT %s %a\n", lab, v);
    }
}
void sym_note(const char* text)
{
    if (notes.size() < 40) notes.emplace_back(text);
}
double sym_model_value(double a)
{
    if (!isbox(a)) return a;
    ensure_model();
    try
    {
        z3::expr v = mdl->eval(ex(a), true);
        std::string s = v.get_decimal_string(17);
        return symc::parse_decimal(s);
    }
    catch (z3::exception&)
    {
        return std::nan("");
    }
}
static void collect_atoms(const z3::expr& e, std::map<unsigned, bool>& seen, std::vector<z3::expr>& out)
{
    if (seen.count(e.id())) return;
    seen[e.id()] = true;
    if (!e.is_app()) return;
    const auto k = e.decl().decl_kind();
    if ((k == Z3_OP_LE || k == Z3_OP_GE || k == Z3_OP_LT || k == Z3_OP_GT || k == Z3_OP_EQ) && e.num_args() == 2 && e.arg(0).is_arith())
        out.push_back(e.arg(0) != e.arg(1));
    for (unsigned i = 0; i < e.num_args(); ++i) collect_atoms(e.arg(i), seen, out);
}
void sym_check_deriv(double value, const char* name, double grad, const char* lab)
{
    if (concrete_mode) return;
    if (special(value) || special(grad))
    {
        ensure_model();
        report_violation(lab, mdl.get(), "non-finite value or gradient", false);
    }
    z3::expr dv = C->real_val(0);
    {
        std::map<unsigned, z3::expr> memo;
        if (isbox(value))
        {
            for (auto& kv : *sqrt_defs)
            {
                z3::expr s  = C->real_const(kv.first.c_str());
                z3::expr dx = deriv((*terms)[kv.second], name, memo);
                memo.emplace(s.id(), dx / (2 * s));
            }
            dv = deriv(ex(value), name, memo);
        }
    }
    z3::expr g = ex(grad);
    // genericity: strict versions of all comparison atoms of the path condition and of the ite conditions in the terms
    std::map<unsigned, bool> seen;
    std::vector<z3::expr>    generic;
    for (size_t ci = 0; ci < pc->size(); ++ci)
    {
        const z3::expr& c = (*pc)[ci];
        // axioms of the ackermannised functions relate applications whose arguments may well be equal (exp(o_i - max) of the
        // maximal component in two samples): they say nothing about where the PROGRAM's piecewise definition switches
        if (axiom_pcs->count(ci)) continue;
        // an ASSERTED equality (definitional constraint of an ackermannised function, a pinned symbol, or the equal side of a
        // comparison the path took) must not be turned into its own negation: that would make the assumption unsatisfiable and
        // the obligation vacuous. Its sub-terms are still searched for ite conditions.
        if (c.is_app() && c.decl().decl_kind() == Z3_OP_EQ && c.num_args() == 2 && c.arg(0).is_arith())
        {
            seen[c.id()] = true;
            for (unsigned i = 0; i < c.num_args(); ++i) collect_atoms(c.arg(i), seen, generic);
            continue;
        }
        collect_atoms(c, seen, generic);
    }
    if (isbox(value)) collect_atoms(ex(value), seen, generic);
    collect_atoms(g, seen, generic);
    collect_atoms(dv, seen, generic);
    z3::expr assume = C->bool_val(true);
    for (auto& a : generic) assume = assume && a;
    // vacuity guard: the genericity assumption must be satisfiable together with the path condition (a path that took the "equal"
    // side of a comparison is not generic: excluded, not discharged)
    {
        QR rv = query(&assume);
        if (rv.r == z3::unsat)
        {
            Label* l = label((std::string("excluded (non-generic path): ") + lab).c_str());
            l->checked++;
            if (getenv("SYM_DEBUG_GENERIC"))
                if (FILE* df = fopen("/tmp/generic_debug.txt", "a"))
                {
                    fprintf(df, "=== pc:\n");
                    for (auto& c : *pc) fprintf(df, "  %s\n", c.to_string().c_str());
                    fprintf(df, "=== generic:\n");
                    for (auto& a : generic) fprintf(df, "  %s\n", a.to_string().c_str());
                    fclose(df);
                }
            return;
        }
    }
    z3::expr scale = (1 + absx(dv) + absx(g));
    z3::expr tneg  = assume && (absx(dv - g) > C->real_val(1, 1000000000) * scale);
    z3::expr mneg  = assume && (absx(dv - g) > C->real_val(1, 1000) * scale);
    obligation(z3::implies(assume, dv == g), &mneg, lab, &tneg);
}
int sym_concrete(void)
{
    return concrete_mode ? 1 : 0;
}
int sym_uf_count(void)
{
    return concrete_mode ? 0 : static_cast<int>(ufapps->size());
}
double sym_deriv(double a, const char* name)
{
    if (!isbox(a)) return 0.0;
    std::map<unsigned, z3::expr> memo;
    z3::expr e = ex(a);
    // sqrt symbols: ds/dv = d(radicand)/dv / (2 s)
    for (auto& kv : *sqrt_defs)
    {
        z3::expr s  = C->real_const(kv.first.c_str());
        z3::expr dx = deriv((*terms)[kv.second], name, memo);
        memo.emplace(s.id(), (dx / (2 * s)).simplify());
    }
    z3::expr d = deriv(e, name, memo).simplify();
    if (d.is_numeral())
    {
        std::string s = d.get_decimal_string(17);
        if (s.find('?') == std::string::npos && s.find('/') == std::string::npos) return symc::parse_decimal(s);
    }
    return box(d);
}
} // extern "C"

int main(int argc, char** argv)
{
    t_start  = now();
    g_config = argc > 1 ? argv[1] : "";
    if (const char* e = getenv("SYM_OUT")) g_out = e;
    if (const char* e = getenv("SYM_JOBS")) jobs = std::max(1, atoi(e));
    if (const char* e = getenv("SYM_MAX_PATHS")) max_paths = atol(e);
    if (const char* e = getenv("SYM_MAX_VIOL")) max_viol = atol(e);
    if (const char* e = getenv("SYM_DEADLINE_S")) deadline = now() + atof(e);
    if (const char* e = getenv("SYM_QUERY_S")) query_s = atof(e);
    if (const char* e = getenv("SYM_RLIMIT")) rlimit = (unsigned)atol(e);
    if (const char* e = getenv("SYM_FPTOSI_CAP")) fptosi_cap = atoi(e);

    S = (Shared*)mmap(nullptr, sizeof(Shared), PROT_READ | PROT_WRITE, MAP_SHARED | MAP_ANONYMOUS, -1, 0);
    if (S == MAP_FAILED)
    {
        perror("mmap");
        return 2;
    }
    std::memset((void*)S, 0, sizeof(Shared));
    sem_init(&S->slots, 1, (unsigned)jobs - 1); // the root holds one slot
    sem_init(&S->lock, 1, 1);
    S->started = 1;
    S->live    = 1;
    S->maxlive = 1;
    // pre-register crash labels so that the signal handler never needs the lock
    label("crash: SIGFPE (un-instrumented fp instruction touched a symbolic value?)");
    label("crash: SIGSEGV");
    label("crash: SIGABRT (uncaught exception / abort)");
    label("crash: signal");
    label(STUCK_LABEL);

    if (const char* e = getenv("SYM_REPLAY"))
    {
        concrete_mode = true;
        if (!symc::load_replay(e, replay_vals, replay_choices))
        {
            fprintf(stderr, "symrt: cannot read replay file %s\n", e);
            return 2;
        }
    }
    C          = new z3::context();
    terms      = new std::vector<z3::expr>();
    pc         = new std::vector<z3::expr>();
    ufapps     = new std::vector<UfApp>();
    uf_defs    = new std::map<std::string, unsigned>();
    conc_cache = new std::unordered_map<uint64_t, unsigned>();
    sqrt_defs  = new std::map<std::string, unsigned>();

    struct sigaction sa;
    std::memset(&sa, 0, sizeof sa);
    sa.sa_handler = on_alarm;
    sigaction(SIGALRM, &sa, nullptr);
    sa.sa_handler = on_crash;
    sigaction(SIGFPE, &sa, nullptr);
    sigaction(SIGSEGV, &sa, nullptr);
    sigaction(SIGBUS, &sa, nullptr);
    sigaction(SIGABRT, &sa, nullptr);
    feenableexcept(FE_INVALID);

    try
    {
        sym_body();
    }
    catch (const std::exception& e)
    {
        S->uncaught++;
        finish(K_CRASH, (std::string("uncaught exception: ") + e.what()).substr(0, 100).c_str());
    }
    catch (...)
    {
        S->uncaught++;
        finish(K_CRASH, "uncaught exception");
    }
    if (concrete_mode)
    {
        fflush(stdout);
        write_summary();
        _exit(S->violations.load() ? 1 : 0);
    }
    finish(K_DONE, "");
}
