// helpers shared by the symbolic runtime (symrt.cpp) and the concrete replay runtime (symrt_concrete.cpp)
#pragma once
#include <cmath>
#include <cstdio>
#include <cstdlib>
#include <fstream>
#include <map>
#include <sstream>
#include <string>

namespace symc
{
// parses z3 numerals: "12", "-0.25", "0.333?", "(- 3.5)", "(/ 1.0 3.0)", "(- (/ 1 3))"
inline double parse_sexpr(const std::string& s, size_t& i)
{
    while (i < s.size() && isspace((unsigned char)s[i])) ++i;
    if (i < s.size() && s[i] == '(')
    {
        ++i;
        while (i < s.size() && isspace((unsigned char)s[i])) ++i;
        char op = s[i++];
        double a = parse_sexpr(s, i);
        while (i < s.size() && isspace((unsigned char)s[i])) ++i;
        double r = a;
        if (i < s.size() && s[i] != ')')
        {
            double b = parse_sexpr(s, i);
            r        = op == '/' ? a / b : op == '-' ? a - b : op == '+' ? a + b : a * b;
        }
        else if (op == '-') r = -a;
        while (i < s.size() && s[i] != ')') ++i;
        if (i < s.size()) ++i;
        return r;
    }
    size_t j = i;
    while (j < s.size() && !isspace((unsigned char)s[j]) && s[j] != ')' && s[j] != '?') ++j;
    double v = std::strtod(s.substr(i, j - i).c_str(), nullptr);
    i        = j;
    if (i < s.size() && s[i] == '?') ++i;
    return v;
}
inline double parse_decimal(const std::string& s)
{
    size_t i = 0;
    return parse_sexpr(s, i);
}
inline double value_of(const std::map<std::string, std::string>& vals, const char* name)
{
    auto it = vals.find(name);
    if (it == vals.end()) return 0.0;
    return parse_decimal(it->second);
}
// value recorded in the replay file; otherwise, if SYM_RANDOM_SEED is set, a reproducible pseudo-random value inside
// [lo,hi] (clipped to [-4,4] around the box when the box is huge) derived from the name; otherwise 0
inline unsigned long name_hash(const char* name)
{
    unsigned long h = 1469598103934665603UL;
    if (const char* e = std::getenv("SYM_RANDOM_SEED"))
        for (const char* p = e; *p; ++p) h = (h ^ (unsigned char)*p) * 1099511628211UL;
    for (const char* p = name; *p; ++p) h = (h ^ (unsigned char)*p) * 1099511628211UL;
    h ^= h >> 29;
    h *= 0xBF58476D1CE4E5B9UL;
    h ^= h >> 32;
    return h;
}
inline double value_in(const std::map<std::string, std::string>& vals, const char* name, double lo, double hi)
{
    auto it = vals.find(name);
    if (it != vals.end()) return parse_decimal(it->second);
    if (!std::getenv("SYM_RANDOM_SEED")) return (lo <= 0.0 && 0.0 <= hi) ? 0.0 : lo;
    if (hi - lo > 8.0)
    {
        const double c = (lo > -4.0) ? lo + 4.0 : (hi < 4.0 ? hi - 4.0 : 0.0);
        lo             = c - 4.0;
        hi             = c + 4.0;
    }
    const double u = (double)(name_hash(name) >> 11) / 9007199254740992.0; // [0,1)
    // keep a few decimal digits only: values stay exactly representable sums in most harness formulas
    const double v = lo + (hi - lo) * (0.05 + 0.9 * u);
    return std::round(v * 64.0) / 64.0;
}
inline int choice_in(const std::map<std::string, int>& choices, const char* name, int n)
{
    auto it = choices.find(name);
    if (it != choices.end()) return it->second;
    if (!std::getenv("SYM_RANDOM_SEED") || n <= 1) return 0;
    return (int)(name_hash(name) % (unsigned long)n);
}
// op codes as in sym.h: EQ NE LT LE GT GE; tol is relative to (1+|a|+|b|)
inline bool concrete_holds(double a, int op, double b, double tol)
{
    if (a != a || b != b) return op == 1;
    const double t = tol * (1 + std::fabs(a) + std::fabs(b));
    switch (op)
    {
    case 0: return std::fabs(a - b) <= t || a == b;
    case 1: return a != b;
    case 2: return a < b + t;
    case 3: return a <= b + t;
    case 4: return a + t > b;
    default: return a + t >= b;
    }
}
// minimal reader for the flat string maps "values": {...} and "choices": {...} of a violation file
inline bool read_obj(const std::string& txt, const char* key, std::map<std::string, std::string>& out)
{
    size_t p = txt.find(std::string("\"") + key + "\"");
    if (p == std::string::npos) return false;
    p = txt.find('{', p);
    if (p == std::string::npos) return false;
    size_t e = txt.find('}', p);
    if (e == std::string::npos) return false;
    size_t i = p + 1;
    while (i < e)
    {
        size_t k0 = txt.find('"', i);
        if (k0 == std::string::npos || k0 >= e) break;
        size_t k1 = txt.find('"', k0 + 1);
        size_t v0 = txt.find('"', k1 + 1);
        size_t v1 = txt.find('"', v0 + 1);
        if (k1 == std::string::npos || v0 == std::string::npos || v1 == std::string::npos || v1 > e) break;
        out[txt.substr(k0 + 1, k1 - k0 - 1)] = txt.substr(v0 + 1, v1 - v0 - 1);
        i                                     = v1 + 1;
    }
    return true;
}
inline bool load_replay(const char* path, std::map<std::string, std::string>& vals, std::map<std::string, int>& choices,
                        std::string* config = nullptr)
{
    std::ifstream in(path);
    if (!in) return false;
    std::stringstream ss;
    ss << in.rdbuf();
    const std::string txt = ss.str();
    read_obj(txt, "values", vals);
    std::map<std::string, std::string> ch;
    read_obj(txt, "choices", ch);
    for (auto& kv : ch) choices[kv.first] = std::atoi(kv.second.c_str());
    if (config)
    {
        size_t p = txt.find("\"config\"");
        if (p != std::string::npos)
        {
            size_t v0 = txt.find('"', txt.find(':', p));
            size_t v1 = txt.find('"', v0 + 1);
            if (v0 != std::string::npos && v1 != std::string::npos) *config = txt.substr(v0 + 1, v1 - v0 - 1);
        }
    }
    return true;
}
} // namespace symc
