// symfp: LLVM-14 pass plug-in for symbolic-real execution (SRE).
//   pass "symmark" : (before optimisation) marks functions listed in $SYMFP_OVERRIDABLE (one mangled name per line,
//                    trailing '*' = prefix match) noinline, so that a harness can override them at link time
//                    (the object's symbol is weakened with objcopy afterwards).
//   pass "symfp"   : (after optimisation) rewrites every double operation into a call to the symrt runtime:
//                    fadd/fsub/fmul/fdiv/frem/fneg, fcmp, fptosi/fptoui/fptrunc, fp intrinsics and libm calls.
//                    An fcmp whose users are all selects of doubles becomes a non-forking ite term.
//                    Calls to external non-libnano functions taking doubles get an escape guard.
#include "llvm/IR/IRBuilder.h"
#include "llvm/IR/Instructions.h"
#include "llvm/IR/IntrinsicInst.h"
#include "llvm/IR/Module.h"
#include "llvm/IR/PassManager.h"
#include "llvm/Passes/PassBuilder.h"
#include "llvm/Passes/PassPlugin.h"
#include <cstdlib>
#include <fstream>
#include <map>
#include <set>
#include <string>
using namespace llvm;
namespace
{
// unary operation codes shared with symrt.cpp
enum UnOp
{
    U_NEG = 0, U_FABS, U_SQRT, U_FLOOR, U_CEIL, U_TRUNC, U_RINT, U_ROUND, U_EXP, U_LOG, U_LOG1P, U_EXPM1, U_EXP2, U_LOG2,
    U_LOG10, U_SIN, U_COS, U_TAN, U_ATAN, U_TANH, U_CBRT, U_ASIN, U_ACOS, U_SINH, U_COSH, U_ERF, U_LGAMMA, U_TGAMMA
};
enum BinOp
{
    B_ADD = 0, B_SUB, B_MUL, B_DIV, B_REM, B_MIN, B_MAX, B_COPYSIGN, B_POW, B_HYPOT, B_ATAN2, B_FMOD, B_FDIM
};

static int unaryOf(StringRef n)
{
    static const std::map<std::string, int> m = {
        {"llvm.fabs.f64", U_FABS}, {"fabs", U_FABS}, {"llvm.sqrt.f64", U_SQRT}, {"sqrt", U_SQRT},
        {"llvm.floor.f64", U_FLOOR}, {"floor", U_FLOOR}, {"llvm.ceil.f64", U_CEIL}, {"ceil", U_CEIL},
        {"llvm.trunc.f64", U_TRUNC}, {"trunc", U_TRUNC}, {"llvm.rint.f64", U_RINT}, {"rint", U_RINT},
        {"llvm.nearbyint.f64", U_RINT}, {"nearbyint", U_RINT}, {"llvm.round.f64", U_ROUND}, {"round", U_ROUND},
        {"llvm.roundeven.f64", U_RINT},
        {"llvm.exp.f64", U_EXP}, {"exp", U_EXP}, {"llvm.log.f64", U_LOG}, {"log", U_LOG}, {"log1p", U_LOG1P},
        {"expm1", U_EXPM1}, {"llvm.exp2.f64", U_EXP2}, {"exp2", U_EXP2}, {"llvm.log2.f64", U_LOG2}, {"log2", U_LOG2},
        {"llvm.log10.f64", U_LOG10}, {"log10", U_LOG10}, {"llvm.sin.f64", U_SIN}, {"sin", U_SIN},
        {"llvm.cos.f64", U_COS}, {"cos", U_COS}, {"tan", U_TAN}, {"atan", U_ATAN}, {"tanh", U_TANH}, {"cbrt", U_CBRT},
        {"asin", U_ASIN}, {"acos", U_ACOS}, {"sinh", U_SINH}, {"cosh", U_COSH}, {"erf", U_ERF}, {"lgamma", U_LGAMMA},
        {"tgamma", U_TGAMMA}};
    auto it = m.find(n.str());
    return it == m.end() ? -1 : it->second;
}
static int binaryOf(StringRef n)
{
    static const std::map<std::string, int> m = {
        {"llvm.minnum.f64", B_MIN}, {"fmin", B_MIN}, {"llvm.maxnum.f64", B_MAX}, {"fmax", B_MAX},
        {"llvm.minimum.f64", B_MIN}, {"llvm.maximum.f64", B_MAX},
        {"llvm.copysign.f64", B_COPYSIGN}, {"copysign", B_COPYSIGN}, {"llvm.pow.f64", B_POW}, {"pow", B_POW},
        {"hypot", B_HYPOT}, {"atan2", B_ATAN2}, {"fmod", B_FMOD}, {"fdim", B_FDIM}};
    auto it = m.find(n.str());
    return it == m.end() ? -1 : it->second;
}

static bool matchList(const std::set<std::string>& s, StringRef n)
{
    for (const auto& p : s)
    {
        if (!p.empty() && p.back() == '*')
        {
            if (n.startswith(StringRef(p).drop_back())) return true;
        }
        else if (n == p) return true;
    }
    return false;
}

struct SymMark : PassInfoMixin<SymMark>
{
    PreservedAnalyses run(Module& M, ModuleAnalysisManager&)
    {
        const char* path = std::getenv("SYMFP_OVERRIDABLE");
        if (!path) return PreservedAnalyses::all();
        std::set<std::string> names;
        std::ifstream in(path);
        for (std::string l; std::getline(in, l);)
        {
            while (!l.empty() && (l.back() == ' ' || l.back() == '\r')) l.pop_back();
            if (!l.empty() && l[0] != '#') names.insert(l);
        }
        for (Function& F : M)
        {
            if (F.isDeclaration() || !matchList(names, F.getName())) continue;
            F.removeFnAttr(Attribute::AlwaysInline);
            F.removeFnAttr(Attribute::InlineHint);
            F.addFnAttr(Attribute::NoInline);
            // keep the body from being specialised away / constant-propagated into same-TU callers
            F.addFnAttr(Attribute::OptimizeNone);
            F.removeFnAttr(Attribute::MinSize);
            F.removeFnAttr(Attribute::OptimizeForSize);
        }
        return PreservedAnalyses::none();
    }
};

struct SymFP : PassInfoMixin<SymFP>
{
    PreservedAnalyses run(Module& M, ModuleAnalysisManager&)
    {
        LLVMContext& C   = M.getContext();
        Type*        D   = Type::getDoubleTy(C);
        Type*        I32 = Type::getInt32Ty(C);
        Type*        I64 = Type::getInt64Ty(C);
        Type*        F32 = Type::getFloatTy(C);
        auto bin  = M.getOrInsertFunction("__sym_bin", FunctionType::get(D, {I32, D, D}, false));
        auto cmp  = M.getOrInsertFunction("__sym_cmp", FunctionType::get(I32, {I32, D, D}, false));
        auto un   = M.getOrInsertFunction("__sym_un", FunctionType::get(D, {I32, D}, false));
        auto toi  = M.getOrInsertFunction("__sym_fptosi", FunctionType::get(I64, {D}, false));
        auto tou  = M.getOrInsertFunction("__sym_fptoui", FunctionType::get(I64, {D}, false));
        auto tof  = M.getOrInsertFunction("__sym_fptrunc", FunctionType::get(F32, {D}, false));
        auto sel  = M.getOrInsertFunction("__sym_sel", FunctionType::get(D, {I32, D, D, D, D}, false));
        auto fma  = M.getOrInsertFunction("__sym_fma", FunctionType::get(D, {D, D, D}, false));
        auto powi = M.getOrInsertFunction("__sym_powi", FunctionType::get(D, {D, I32}, false));
        auto esc  = M.getOrInsertFunction("__sym_escape", FunctionType::get(D, {D, I32}, false));

        std::vector<Instruction*> work;
        for (Function& F : M)
        {
            if (F.getName().startswith("__sym_")) continue;
            for (BasicBlock& B : F)
                for (Instruction& I : B) work.push_back(&I);
        }
        unsigned n = 0;
        for (Instruction* I : work)
        {
            IRBuilder<> b(I);
            if (auto* BO = dyn_cast<BinaryOperator>(I))
            {
                if (!BO->getType()->isDoubleTy()) continue;
                int op = -1;
                switch (BO->getOpcode())
                {
                case Instruction::FAdd: op = B_ADD; break;
                case Instruction::FSub: op = B_SUB; break;
                case Instruction::FMul: op = B_MUL; break;
                case Instruction::FDiv: op = B_DIV; break;
                case Instruction::FRem: op = B_REM; break;
                default: break;
                }
                if (op < 0) continue;
                Value* r = b.CreateCall(bin, {b.getInt32(op), BO->getOperand(0), BO->getOperand(1)});
                BO->replaceAllUsesWith(r);
                BO->eraseFromParent();
                ++n;
            }
            else if (auto* U = dyn_cast<UnaryOperator>(I))
            {
                if (U->getOpcode() == Instruction::FNeg && U->getType()->isDoubleTy())
                {
                    Value* r = b.CreateCall(un, {b.getInt32(U_NEG), U->getOperand(0)});
                    U->replaceAllUsesWith(r);
                    U->eraseFromParent();
                    ++n;
                }
            }
            else if (auto* FC = dyn_cast<FCmpInst>(I))
            {
                if (!FC->getOperand(0)->getType()->isDoubleTy()) continue;
                bool onlysel = !FC->use_empty();
                for (User* U : FC->users())
                {
                    auto* S = dyn_cast<SelectInst>(U);
                    if (!S || S->getCondition() != FC || !S->getType()->isDoubleTy())
                    {
                        onlysel = false;
                        break;
                    }
                }
                if (onlysel)
                {
                    std::vector<SelectInst*> ss;
                    for (User* U : FC->users()) ss.push_back(cast<SelectInst>(U));
                    for (SelectInst* S : ss)
                    {
                        IRBuilder<> sb(S);
                        Value* r = sb.CreateCall(sel, {sb.getInt32((int)FC->getPredicate()), FC->getOperand(0),
                                                       FC->getOperand(1), S->getTrueValue(), S->getFalseValue()});
                        S->replaceAllUsesWith(r);
                        S->eraseFromParent();
                        ++n;
                    }
                    FC->eraseFromParent();
                    continue;
                }
                Value* r = b.CreateCall(cmp, {b.getInt32((int)FC->getPredicate()), FC->getOperand(0), FC->getOperand(1)});
                Value* t = b.CreateICmpNE(r, b.getInt32(0));
                FC->replaceAllUsesWith(t);
                FC->eraseFromParent();
                ++n;
            }
            else if (auto* CB = dyn_cast<CallBase>(I))
            {
                Function* cf = CB->getCalledFunction();
                if (!cf) continue;
                StringRef nm = cf->getName();
                if (nm.startswith("__sym_") || nm.startswith("sym_")) continue;
                auto* CI = dyn_cast<CallInst>(CB);
                int   op;
                if (CI && CI->arg_size() == 1 && CI->getType()->isDoubleTy() && (op = unaryOf(nm)) >= 0)
                {
                    Value* r = b.CreateCall(un, {b.getInt32(op), CI->getArgOperand(0)});
                    CI->replaceAllUsesWith(r);
                    CI->eraseFromParent();
                    ++n;
                    continue;
                }
                if (CI && CI->arg_size() == 2 && CI->getType()->isDoubleTy() && CI->getArgOperand(1)->getType()->isDoubleTy() &&
                    (op = binaryOf(nm)) >= 0)
                {
                    Value* r = b.CreateCall(bin, {b.getInt32(op), CI->getArgOperand(0), CI->getArgOperand(1)});
                    CI->replaceAllUsesWith(r);
                    CI->eraseFromParent();
                    ++n;
                    continue;
                }
                if (CI && (nm == "llvm.fmuladd.f64" || nm == "llvm.fma.f64" || nm == "fma"))
                {
                    Value* r = b.CreateCall(fma, {CI->getArgOperand(0), CI->getArgOperand(1), CI->getArgOperand(2)});
                    CI->replaceAllUsesWith(r);
                    CI->eraseFromParent();
                    ++n;
                    continue;
                }
                if (CI && nm.startswith("llvm.powi.f64"))
                {
                    Value* e = b.CreateSExtOrTrunc(CI->getArgOperand(1), I32);
                    Value* r = b.CreateCall(powi, {CI->getArgOperand(0), e});
                    CI->replaceAllUsesWith(r);
                    CI->eraseFromParent();
                    ++n;
                    continue;
                }
                // escape guard: external, non-libnano, non-intrinsic functions receiving doubles
                if (cf->isDeclaration() && !nm.contains("4nano") && !(cf->isIntrinsic()))
                {
                    const bool printing = nm.contains("_M_insertIdE") || nm.contains("printf");
                    for (unsigned i = 0; i < CB->arg_size(); ++i)
                    {
                        Value* a = CB->getArgOperand(i);
                        if (!a->getType()->isDoubleTy() || isa<Constant>(a)) continue;
                        Value* g = b.CreateCall(esc, {a, b.getInt32(printing ? 1 : 0)});
                        CB->setArgOperand(i, g);
                        ++n;
                    }
                }
                else if (cf->isIntrinsic() && CI)
                {
                    // unhandled fp intrinsic on scalars of double: guard as well (vector ones trap through FE_INVALID)
                    switch (cf->getIntrinsicID())
                    {
                    case Intrinsic::lifetime_start: case Intrinsic::lifetime_end: case Intrinsic::memcpy: case Intrinsic::memmove:
                    case Intrinsic::memset: case Intrinsic::dbg_declare: case Intrinsic::dbg_value: break;
                    default:
                        for (unsigned i = 0; i < CI->arg_size(); ++i)
                        {
                            Value* a = CI->getArgOperand(i);
                            if (!a->getType()->isDoubleTy() || isa<Constant>(a)) continue;
                            Value* g = b.CreateCall(esc, {a, b.getInt32(0)});
                            CI->setArgOperand(i, g);
                            ++n;
                        }
                    }
                }
            }
            else if (auto* FS = dyn_cast<FPToSIInst>(I))
            {
                if (!FS->getOperand(0)->getType()->isDoubleTy() || !FS->getType()->isIntegerTy()) continue;
                Value* r = b.CreateCall(toi, {FS->getOperand(0)});
                Value* t = b.CreateSExtOrTrunc(r, FS->getType());
                FS->replaceAllUsesWith(t);
                FS->eraseFromParent();
                ++n;
            }
            else if (auto* FU = dyn_cast<FPToUIInst>(I))
            {
                if (!FU->getOperand(0)->getType()->isDoubleTy() || !FU->getType()->isIntegerTy()) continue;
                Value* r = b.CreateCall(tou, {FU->getOperand(0)});
                Value* t = b.CreateZExtOrTrunc(r, FU->getType());
                FU->replaceAllUsesWith(t);
                FU->eraseFromParent();
                ++n;
            }
            else if (auto* FT = dyn_cast<FPTruncInst>(I))
            {
                if (!FT->getOperand(0)->getType()->isDoubleTy() || !FT->getType()->isFloatTy()) continue;
                Value* r = b.CreateCall(tof, {FT->getOperand(0)});
                FT->replaceAllUsesWith(r);
                FT->eraseFromParent();
                ++n;
            }
        }
        (void)n;
        return PreservedAnalyses::none();
    }
};
} // namespace

extern "C" LLVM_ATTRIBUTE_WEAK PassPluginLibraryInfo llvmGetPassPluginInfo()
{
    return {LLVM_PLUGIN_API_VERSION, "symfp", "1.0", [](PassBuilder& PB) {
                PB.registerPipelineParsingCallback(
                    [](StringRef Name, ModulePassManager& MPM, ArrayRef<PassBuilder::PipelineElement>) {
                        if (Name == "symfp")
                        {
                            MPM.addPass(SymFP());
                            return true;
                        }
                        if (Name == "symmark")
                        {
                            MPM.addPass(SymMark());
                            return true;
                        }
                        return false;
                    });
            }};
}
