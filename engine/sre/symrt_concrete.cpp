// Concrete replay runtime: links with the harness and libnano compiled WITHOUT the symfp pass (plain IEEE doubles).
// Usage: <harness-plain> <config> with SYM_REPLAY=<violation.json>; prints CONFIRMED-VIOLATION lines and OUT lines.
#include <cmath>
#include <cstdio>
#include <cstring>
#include <cstdlib>
#include <map>
#include <string>
#include "sym.h"
#include "symrt_common.h"

namespace
{
std::map<std::string, std::string> vals;
std::map<std::string, int>         choices;
std::string                        config;
int                                violations = 0, checks = 0;
struct pruned_t
{
};
} // namespace

extern "C"
{
const char* sym_config(void)
{
    return config.c_str();
}
double sym_real(const char* name)
{
    return symc::value_in(vals, name, -2.0, 2.0);
}
double sym_real_in(const char* name, double lo, double hi, int)
{
    return symc::value_in(vals, name, lo, hi);
}
int sym_choose(const char* name, int n)
{
    return symc::choice_in(choices, name, n);
}
// tolerance of the IEEE replay (relative to 1+|a|+|b|); units whose obligations compare direct inputs can tighten it
static double replay_tol()
{
    static const double t = getenv("SYM_REPLAY_TOL") ? atof(getenv("SYM_REPLAY_TOL")) : 1e-6;
    return t;
}
void sym_assume_cmp(double a, int op, double b)
{
    // validation runs on pseudo-random inputs: an assumption that fails ends the run, exactly as in the instrumented build
    const char* rp = getenv("SYM_REPLAY");
    if (getenv("SYM_RANDOM_SEED") && (!rp || strcmp(rp, "/dev/null") == 0) && !symc::concrete_holds(a, op, b, 0.0))
    {
        printf("REPLAY-NOTE assumption false on the pseudo-random inputs: run ends (pruned)\n");
        printf("REPLAY-SUMMARY checks=%d violations=%d\n", checks, violations);
        fflush(stdout);
        _Exit(violations ? 1 : 0);
    }
    if (!symc::concrete_holds(a, op, b, 1e-12))
    {
        printf("REPLAY-NOTE assumption does not hold exactly on doubles (a=%.17g op=%d b=%.17g)\n", a, op, b);
    }
}
void sym_assume_eq_implies_eq(int, const double*, const double*, double, double) {}
void sym_check_cmp(double a, int op, double b, const char* label)
{
    ++checks;
    printf("OUT %s %a %a\n", label, a, b);
    if (!symc::concrete_holds(a, op, b, replay_tol()))
    {
        ++violations;
        printf("CONFIRMED-VIOLATION label=%s a=%.17g b=%.17g op=%d\n", label, a, b, op);
    }
}
void sym_check_cmp_exact(double a, int op, double b, const char* label)
{
    ++checks;
    printf("OUT %s %a %a\n", label, a, b);
    if (!symc::concrete_holds(a, op, b, 0.0))
    {
        ++violations;
        printf("CONFIRMED-VIOLATION label=%s a=%.17g b=%.17g op=%d\n", label, a, b, op);
    }
}
void sym_close(double a, double b, double rel, const char* label)
{
    ++checks;
    printf("OUT %s %a %a\n", label, a, b);
    const bool ok = (a != a && b != b) || std::fabs(a - b) <= std::max(rel, 1e-6) * (1 + std::fabs(a) + std::fabs(b));
    if (!ok)
    {
        ++violations;
        printf("CONFIRMED-VIOLATION label=%s a=%.17g b=%.17g close\n", label, a, b);
    }
}
void sym_check(int cond, const char* label)
{
    ++checks;
    if (!cond)
    {
        ++violations;
        printf("CONFIRMED-VIOLATION label=%s (boolean)\n", label);
    }
}
void sym_prune(void)
{
    printf("REPLAY-NOTE path pruned by harness\n");
    fflush(stdout);
    exit(violations ? 1 : 0);
}
void sym_excluded(const char* reason)
{
    printf("REPLAY-NOTE excluded: %s\n", reason);
    fflush(stdout);
    exit(violations ? 1 : 0);
}
int sym_is_symbolic(double)
{
    return 0;
}
void sym_out(const char* label, double v)
{
    printf("OUT %s %a\n", label, v);
}
void sym_note(const char*) {}
double sym_model_value(double a)
{
    return a;
}
void sym_check_deriv(double, const char*, double, const char*) {}
int sym_uf_count(void) { return 0; }
int sym_concrete(void) { return 1; }
double sym_deriv(double, const char*)
{
    return std::nan("");
}
}

int main(int argc, char** argv)
{
    config = argc > 1 ? argv[1] : "";
    if (const char* e = getenv("SYM_REPLAY"))
    {
        std::string cfg;
        if (!symc::load_replay(e, vals, choices, &cfg))
        {
            fprintf(stderr, "cannot read %s\n", e);
            return 2;
        }
        if (argc <= 1) config = cfg;
    }
    try
    {
        sym_body();
    }
    catch (const std::exception& e)
    {
        printf("REPLAY-NOTE uncaught exception: %s\n", e.what());
        printf("UNCAUGHT-EXCEPTION\n");
    }
    printf("REPLAY-SUMMARY checks=%d violations=%d\n", checks, violations);
    return violations ? 1 : 0;
}
