/* Driver vocabulary of the LIFT-C engine. One driver source serves four builds:
 *   (default)             CBMC:       inputs are nondet, ASSUME/ASSERT are __CPROVER_assume/assert, kernels = generated C
 *   -DNATIVE -DUSE_GEN    validation: inputs pseudo-random from VERIF_SEED, kernels = generated C compiled by gcc
 *   -DNATIVE              validation/replay: kernels = the REAL C++ functions (shim.cpp compiled by g++, linked in)
 *   -DNATIVE -DREPLAY     replay of a CBMC counter-example: inputs read by name from the values file (argv[2])
 * -DWITNESS adds a reachability witness (assert(0)) at the end of every harness (vacuity guard). */
#ifndef LIFT_DRV_H
#define LIFT_DRV_H
#include <stdint.h>
#include <string.h>
#ifdef NATIVE
#include <stdio.h>
#include <stdlib.h>
static int         lift_violations = 0, lift_assume_failed = 0;
static const char* lift_replay_file = 0;
static uint64_t    lift_rng = 88172645463325252ULL;
static uint64_t lift_next(void){ lift_rng ^= lift_rng << 13; lift_rng ^= lift_rng >> 7; lift_rng ^= lift_rng << 17; return lift_rng; }
static int lift_lookup(const char* name, long long* out, double* dout)
{
    if (!lift_replay_file) return 0;
    FILE* f = fopen(lift_replay_file, "r");
    if (!f) return 0;
    char key[128], val[128];
    int  found = 0;
    while (fscanf(f, "%127s %127s", key, val) == 2)
        if (strcmp(key, name) == 0) { *out = (val[0] == 0x2d) ? strtoll(val, 0, 0) : (long long)strtoull(val, 0, 0); *dout = strtod(val, 0); found = 1; break; }
    fclose(f);
    return found;
}
static long long lift_in_int(const char* name, long long lo, long long hi)
{
    long long v; double d;
    if (lift_lookup(name, &v, &d)) return v;
    if (hi < lo) return (long long)lift_next();
    return lo + (long long)(lift_next() % (uint64_t)(hi - lo + 1));
}
static double lift_in_double(const char* name)
{
    long long v; double d;
    if (lift_lookup(name, &v, &d)) return d;
    return (double)((long long)(lift_next() % 4001) - 2000) / 250.0;
}
#define IN_LONG(name) long name = (long)lift_in_int(#name, -3, 9)
#define IN_LONG_IN(name, lo, hi) long name = (long)lift_in_int(#name, lo, hi)
#define IN_U8(name) uint8_t name = (uint8_t)lift_in_int(#name, 0, 255)
#define IN_I8(name) int8_t name = (int8_t)lift_in_int(#name, -128, 127)
#define IN_U64(name) uint64_t name = (uint64_t)lift_in_int(#name, 1, 0)
#define IN_DOUBLE(name) double name = lift_in_double(#name)
#define IN_ARR_U8(name, n) uint8_t name[n]; { char b_[96]; for (int i_ = 0; i_ < (n); ++i_) { snprintf(b_, sizeof b_, "%s[%d]", #name, i_); name[i_] = (uint8_t)lift_in_int(b_, 0, 255); } }
#define IN_ARR_I8(name, n) int8_t name[n]; { char b_[96]; for (int i_ = 0; i_ < (n); ++i_) { snprintf(b_, sizeof b_, "%s[%d]", #name, i_); name[i_] = (int8_t)lift_in_int(b_, -128, 127); } }
#define IN_ARR_LONG(name, n, lo, hi) long name[n]; { char b_[96]; for (int i_ = 0; i_ < (n); ++i_) { snprintf(b_, sizeof b_, "%s[%d]", #name, i_); name[i_] = (long)lift_in_int(b_, lo, hi); } }
#define IN_ARR_U64(name, n) uint64_t name[n]; { char b_[96]; for (int i_ = 0; i_ < (n); ++i_) { snprintf(b_, sizeof b_, "%s[%d]", #name, i_); name[i_] = (uint64_t)lift_in_int(b_, 1, 0); } }
#define ASSUME(c) do { if (!(c)) { lift_assume_failed = 1; return; } } while (0)
#define ASSERT(c, msg) do { int ok_ = !!(c); printf("OBS assert %s %d\n", msg, ok_); if (!ok_) { ++lift_violations; printf("CONFIRMED-VIOLATION label=%s\n", msg); } } while (0)
#define OBS(v) printf("OBS value %s %lld\n", #v, (long long)(v))
#define WITNESS_END
#else
long               nondet_long(void);
unsigned char      nondet_uchar(void);
signed char        nondet_schar(void);
unsigned long long nondet_u64(void);
double             nondet_double(void);
#define IN_LONG(name) long name = nondet_long()
#define IN_LONG_IN(name, lo, hi) long name = nondet_long(); __CPROVER_assume(name >= (lo) && name <= (hi))
#define IN_U8(name) uint8_t name = nondet_uchar()
#define IN_I8(name) int8_t name = nondet_schar()
#define IN_U64(name) uint64_t name = nondet_u64()
#define IN_DOUBLE(name) double name = nondet_double()
#define IN_ARR_U8(name, n) uint8_t name[n]; for (int i_ = 0; i_ < (n); ++i_) name[i_] = nondet_uchar()
#define IN_ARR_I8(name, n) int8_t name[n]; for (int i_ = 0; i_ < (n); ++i_) name[i_] = nondet_schar()
#define IN_ARR_LONG(name, n, lo, hi) long name[n]; for (int i_ = 0; i_ < (n); ++i_) { name[i_] = nondet_long(); __CPROVER_assume(name[i_] >= (lo) && name[i_] <= (hi)); }
#define IN_ARR_U64(name, n) uint64_t name[n]; for (int i_ = 0; i_ < (n); ++i_) name[i_] = nondet_u64()
#define ASSUME(c) __CPROVER_assume(c)
#define ASSERT(c, msg) __CPROVER_assert(c, msg)
#define OBS(v) ((void)0)
#ifdef WITNESS
#define WITNESS_END __CPROVER_assert(0, "WITNESS reachability")
#else
#define WITNESS_END
#endif
#endif

#ifdef NATIVE
#define LIFT_MAIN(...)                                                                                                   \
    typedef void (*lift_fn)(void);                                                                                       \
    struct lift_entry { const char* name; lift_fn fn; };                                                                 \
    int main(int argc, char** argv)                                                                                      \
    {                                                                                                                    \
        struct lift_entry tab[] = {__VA_ARGS__};                                                                         \
        const int n = (int)(sizeof tab / sizeof tab[0]);                                                                 \
        const char* which = argc > 1 ? argv[1] : "";                                                                     \
        if (argc > 2) lift_replay_file = argv[2];                                                                        \
        const char* seed = getenv("VERIF_SEED");                                                                         \
        const int rounds = lift_replay_file ? 1 : (getenv("LIFT_ROUNDS") ? atoi(getenv("LIFT_ROUNDS")) : 200);          \
        for (int i = 0; i < n; ++i)                                                                                      \
        {                                                                                                                \
            if (which[0] && strcmp(which, tab[i].name) != 0) continue;                                                   \
            lift_rng = 88172645463325252ULL ^ (uint64_t)(seed ? atoll(seed) : 1) * 0x9E3779B97F4A7C15ULL ^ (uint64_t)i;  \
            int done = 0;                                                                                                \
            for (int r = 0; r < rounds * 50 && done < rounds; ++r)                                                       \
            {                                                                                                            \
                lift_assume_failed = 0;                                                                                  \
                printf("OBS begin %s %d\n", tab[i].name, done);                                                          \
                tab[i].fn();                                                                                             \
                if (lift_assume_failed) printf("OBS skipped\n"); else ++done;                                            \
            }                                                                                                            \
            printf("OBS rounds %s %d\n", tab[i].name, done);                                                             \
        }                                                                                                                \
        printf("LIFT-SUMMARY violations=%d assume_failed_last=%d\n", lift_violations, lift_assume_failed);              \
        return lift_violations ? 1 : 0;                                                                                  \
    }
#define LIFT_ENTRY(f) {#f, f}
#else
#define LIFT_MAIN(...)
#define LIFT_ENTRY(f)
#endif
#endif
