#include "llvm/IR/Module.h"
#include "llvm/IR/Verifier.h"
#include "llvm/IRReader/IRReader.h"
#include "llvm/Support/SourceMgr.h"
#include "llvm/Support/raw_ostream.h"
#include "llvm/Bitcode/BitcodeWriter.h"
#include <set>
#include <string>
using namespace llvm;
// usage: irmark in out [--noinline name]... [--stub name]... [--weak name]...   (name may end with * for prefix match)
static bool match(const std::set<std::string>& s, StringRef n){ for(auto& p:s){ if(!p.empty()&&p.back()=='*'){ if(n.startswith(StringRef(p).drop_back())) return true; } else if(n==p) return true; } return false; }
int main(int argc,char**argv){ LLVMContext C; SMDiagnostic D; auto M=parseIRFile(argv[1],D,C); if(!M){ D.print("irmark",errs()); return 2; }
  std::set<std::string> ni, st, wk; for(int i=3;i+1<argc;i+=2){ std::string k=argv[i]; if(k=="--noinline") ni.insert(argv[i+1]); else if(k=="--stub") st.insert(argv[i+1]); else if(k=="--weak") wk.insert(argv[i+1]); }
  for(auto& F:*M){ if(F.isDeclaration()) continue; StringRef n=F.getName();
    if(match(st,n)){ F.deleteBody(); F.setLinkage(GlobalValue::ExternalLinkage); F.setComdat(nullptr); errs()<<"irmark: stubbed "<<n<<"\n"; continue; }
    if(match(ni,n)||match(wk,n)){ F.removeFnAttr(Attribute::AlwaysInline); F.removeFnAttr(Attribute::InlineHint); F.addFnAttr(Attribute::NoInline); errs()<<"irmark: noinline "<<n<<"\n"; }
    if(match(wk,n)){ F.setLinkage(GlobalValue::WeakAnyLinkage); } }
  std::error_code ec; raw_fd_ostream o(argv[2],ec); M->print(o,nullptr); return 0; }
