#ifndef IR2C_RT_H
#define IR2C_RT_H
#include <stdint.h>
#include <string.h>
#include <stdlib.h>
#include <math.h>
static inline double __ir2c_d(uint64_t b){ double d; memcpy(&d,&b,8); return d; }
static inline float __ir2c_f(uint32_t b){ float d; memcpy(&d,&b,4); return d; }
static inline int __ir2c_isnan(double x){ return x!=x; }
static inline double __ir2c_fabs(double x){ return x<0?-x:(x==0?0.0:x); }
static inline double __ir2c_floor(double x){ if(!(x > -4503599627370496.0 && x < 4503599627370496.0)) return x; int64_t t=(int64_t)x; double d=(double)t; return d > x ? d-1.0 : d; }
static inline double __ir2c_ceil(double x){ if(!(x > -4503599627370496.0 && x < 4503599627370496.0)) return x; int64_t t=(int64_t)x; double d=(double)t; return d < x ? d+1.0 : d; }
static inline uint64_t __ir2c_ctlz64(uint64_t x){ uint64_t n=0; if(x==0) return 64; if(!(x>>32)){n+=32;x<<=32;} if(!(x>>48)){n+=16;x<<=16;} if(!(x>>56)){n+=8;x<<=8;} if(!(x>>60)){n+=4;x<<=4;} if(!(x>>62)){n+=2;x<<=2;} if(!(x>>63)){n+=1;} return n; }
#ifdef __CPROVER__
#define __ir2c_unreachable() __CPROVER_assume(0)
#else
#define __ir2c_unreachable() abort()
#endif

/* models of external functions (names prefixed X_) */
int __ir2c_thrown;
static inline uint8_t* X_malloc(uint64_t n){ uint8_t* p=(uint8_t*)malloc(n?n:1);
#ifdef __CPROVER__
  __CPROVER_assume(p!=0);
#endif
  return p; }
static inline void X_free(uint8_t* p){ free(p); }
static inline uint8_t* X__Znwm(uint64_t n){ return X_malloc(n); }
static inline uint8_t* X__Znam(uint64_t n){ return X_malloc(n); }
static inline void X__ZdlPv(uint8_t* p){ free(p); }
static inline void X__ZdaPv(uint8_t* p){ free(p); }
static inline uint8_t* X___cxa_allocate_exception(uint64_t n){ return X_malloc(n); }
static inline void X___cxa_free_exception(uint8_t* p){ free(p); }
static inline void X___cxa_throw(uint8_t* a,uint8_t* b,uint8_t* c){ __ir2c_thrown=1; }
static inline void X__ZSt17__throw_bad_allocv(void){ __ir2c_thrown=1; }
static inline void X__ZSt28__throw_bad_array_new_lengthv(void){ __ir2c_thrown=1; }
static inline void X__ZSt20__throw_length_errorPKc(uint8_t* m){ __ir2c_thrown=1; }
static inline void X__ZNSt9bad_allocD1Ev(uint8_t* p){}
static inline uint8_t* X___cxa_begin_catch(uint8_t* p){ __ir2c_thrown=0; return p; }
static inline void X___cxa_end_catch(void){}
static inline void X___cxa_rethrow(void){ __ir2c_thrown=1; }
static inline void X__ZSt9terminatev(void){ __ir2c_unreachable(); }
static inline void X___clang_call_terminate(uint8_t* p){ __ir2c_unreachable(); }
#endif
