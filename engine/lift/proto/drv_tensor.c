#include "shim1.c"
long nondet_long(void);
#ifndef __CPROVER
#include <assert.h>
#define __CPROVER_assume(x) do{ if(!(x)) return 0; }while(0)
#define __CPROVER_assert(x,m) assert(x)
#endif
int main(void){
  long d0=nondet_long(), d1=nondet_long(), d2=nondet_long(), d3=nondet_long();
  __CPROVER_assume(d0>=0&&d0<=6&&d1>=0&&d1<=6&&d2>=0&&d2<=6&&d3>=0&&d3<=6);
  long i0=nondet_long(), i1=nondet_long(), i2=nondet_long(), i3=nondet_long();
  long j0=nondet_long(), j1=nondet_long(), j2=nondet_long(), j3=nondet_long();
  __CPROVER_assume(i0>=0&&i0<d0&&i1>=0&&i1<d1&&i2>=0&&i2<d2&&i3>=0&&i3<d3);
  __CPROVER_assume(j0>=0&&j0<d0&&j1>=0&&j1<d1&&j2>=0&&j2<d2&&j3>=0&&j3<d3);
  long size=d0*d1*d2*d3;
  long oi=(long)k_offset4(d0,d1,d2,d3,i0,i1,i2,i3), oj=(long)k_offset4(d0,d1,d2,d3,j0,j1,j2,j3);
  __CPROVER_assert(oi>=0 && oi<size, "offset in range");
  __CPROVER_assert(oi!=oj || (i0==j0&&i1==j1&&i2==j2&&i3==j3), "offset injective");
  // lexicographic order preserved (row-major)
  if(i0<j0 || (i0==j0 && (i1<j1 || (i1==j1 && (i2<j2 || (i2==j2 && i3<j3)))))) __CPROVER_assert(oi<oj,"row-major order");
  // reshape with -1
  long r0=nondet_long(), r1=nondet_long(); long data[1];
  long s3=d0*d1*d2;
  __CPROVER_assume((r0==-1 && r1>0 && s3%r1==0) || (r1==-1 && r0>0 && s3%r0==0) || (r0>=0&&r1>=0&&r0*r1==s3 && r0<=216 && r1<=216));
  long o0,o1; uint8_t* op;
  k_reshape3((uint8_t*)data,d0,d1,d2,r0,r1,(uint8_t*)&o0,(uint8_t*)&o1,(uint8_t*)&op);
  __CPROVER_assert(o0>=0&&o1>=0&&o0*o1==s3,"reshape keeps size");
  __CPROVER_assert((r0==-1||o0==r0)&&(r1==-1||o1==r1),"given dims kept");
  __CPROVER_assert(op==(uint8_t*)data,"same data");
  // slice
  long b=nondet_long(), e=nondet_long(); __CPROVER_assume(0<=b&&b<=e&&e<=d0);
  long q0,q1,q2; uint8_t* qp; long buf[216];
  k_slice3((uint8_t*)buf,d0,d1,d2,b,e,(uint8_t*)&q0,(uint8_t*)&q1,(uint8_t*)&q2,(uint8_t*)&qp);
  __CPROVER_assert(q0==e-b&&q1==d1&&q2==d2,"slice dims");
  __CPROVER_assert(qp==(uint8_t*)(buf+b*d1*d2),"slice start");
#ifdef WITNESS
  __CPROVER_assert(0,"reach");
#endif
  return 0; }
