#include <nano/tensor/stream.h>
using namespace nano;
extern "C" __attribute__((noinline)) int k_read_i64r1(std::istream* s, long* dims, long* out, long cap){
  tensor_mem_t<int64_t,1> t;
  ::nano::read(*s, t);
  const bool ok = static_cast<bool>(*s);
  dims[0]=t.size<0>();
  for(long i=0;i<t.size() && i<cap;++i) out[i]=t(i);
  return ok?1:0;
}
