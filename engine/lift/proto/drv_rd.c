#include "ir2c_rt.h"
unsigned char nondet_uchar(void); long nondet_long(void);
#define K 2                 /* elements */
#define FULL (24+8*K)
static uint8_t buf[FULL]; static long blen; static long cur;
static uint64_t vt[4]; static uint8_t is[16+64];   /* fake std::istream: {vptr,gcount} + ios_base at +16 */
static uint32_t* state(void){ return (uint32_t*)(is+16+32); }
uint8_t* X__ZNSi4readEPcl(uint8_t* self, uint8_t* dst, uint64_t n){
  if(*state()!=0){ *state() |= 4; return self; }                 /* sentry fails: failbit, nothing read */
  long avail = blen-cur; long m = (long)n <= avail ? (long)n : avail;
  for(long i=0;i<FULL;i++) if(i<m) dst[i]=buf[cur+i];
  cur+=m; if(m<(long)n) *state() |= 6;                           /* eofbit|failbit */
  return self; }
void X__ZNSt9basic_iosIcSt11char_traitsIcEE5clearESt12_Ios_Iostate(uint8_t* ios, uint32_t st){ *(uint32_t*)(ios+32)=st; }
#include "rd.c"
static uint64_t hc(uint64_t seed,uint64_t v){ return seed ^ (v + 0x9e3779b9ULL + (seed<<6) + (seed>>2)); }
int main(void){
  vt[0]=16; *(uint64_t**)is = &vt[3]; *state()=0;
  long vals[K]; for(int i=0;i<K;i++) vals[i]=nondet_long();
  /* reference serialiser: version(u32)=0, rank(u32)=1, dims(i32 x1), sizeof(u32)=8, hash(u64), payload */
  uint32_t ver=0, rank=1, sz=8; int32_t d0=K; uint64_t h=0; for(int i=0;i<K;i++) h=hc(h,(uint64_t)vals[i]);
  memcpy(buf+0,&ver,4); memcpy(buf+4,&rank,4); memcpy(buf+8,&d0,4); memcpy(buf+12,&sz,4); memcpy(buf+16,&h,8); memcpy(buf+24,vals,8*K);
  blen=nondet_long(); __CPROVER_assume(blen>=0 && blen<=FULL); cur=0;
#ifdef CORRUPT
  long pos=nondet_long(); __CPROVER_assume(pos>=0&&pos<FULL); uint8_t nb=nondet_uchar(); __CPROVER_assume(nb!=buf[pos]); uint8_t old=buf[pos]; buf[pos]=nb; __CPROVER_assume(blen==FULL);
#endif
  long dims[1]; long out[K];
  int ok=(int)k_read_i64r1(is,(uint8_t*)dims,(uint8_t*)out,K);
  __CPROVER_assume(!__ir2c_thrown);
#ifndef CORRUPT
  if(blen==FULL){ __CPROVER_assert(ok==1,"complete stream accepted"); __CPROVER_assert(dims[0]==K,"dims round-trip"); for(int i=0;i<K;i++) __CPROVER_assert(out[i]==vals[i],"payload round-trip"); }
  else __CPROVER_assert(ok==0,"every strict prefix is rejected");
#else
  if(pos<16 && pos!=8 && pos!=9 && pos!=10 && pos!=11) __CPROVER_assert(ok==0,"corrupted version/rank/sizeof rejected");
  if(pos>=24+8*(K-1)) __CPROVER_assert(ok==0,"corrupted last element rejected");
  if(pos>=16 && pos<24) __CPROVER_assert(ok==0,"corrupted hash rejected");
#endif
#ifdef WITNESS
  __CPROVER_assert(0,"reach");
#endif
  return 0; }
