#include "ir2c_rt.h"
long nondet_long(void); unsigned long nondet_ulong(void);
#ifndef NN
#define NN 4
#endif
#define MAXF 4
static long g_folds; static unsigned long g_seed;
uint64_t X__ZN4nano8make_rngESt8optionalImE(uint64_t a0, uint8_t a1){ return 1; }
uint64_t X__ZNK4nano11parameter_t5valueIlLb1EEET_v(uint8_t* p){ return (uint64_t)g_folds; }
uint64_t X__ZNK4nano11parameter_t5valueImLb1EEET_v(uint8_t* p){ return (uint64_t)g_seed; }
uint64_t X_strlen(uint8_t* s){ uint64_t n=0; while(s[n]) ++n; return n; }
uint8_t* X__ZNK4nano14configurable_t9parameterESt17basic_string_viewIcSt11char_traitsIcEE(uint8_t* self, uint64_t len, uint8_t* s){ static uint8_t tok[2]; return (len>10 && s[10]=='s') ? &tok[0] : &tok[1]; }
void X__ZSt7shuffleIPlSt26linear_congruential_engineImLm48271ELm0ELm2147483647EEEvT_S3_OT0_(uint8_t* first, uint8_t* last, uint8_t* rng){
  long* a=(long*)first; long n=(long*)last-(long*)first; long tmp[NN]; long perm[NN];
  __CPROVER_assume(n==NN);
  for(int i=0;i<NN;i++){ perm[i]=nondet_long(); __CPROVER_assume(perm[i]>=0&&perm[i]<NN); for(int j=0;j<i;j++) __CPROVER_assume(perm[j]!=perm[i]); }
  for(int i=0;i<NN;i++) tmp[i]=a[perm[i]];
  for(int i=0;i<NN;i++) a[i]=tmp[i];
}
void X__ZSt16__introsort_loopIPllN9__gnu_cxx5__ops15_Iter_less_iterEEvT_S4_T0_T1_(uint8_t* a,uint8_t* b,uint64_t c){ __CPROVER_assert((long*)b-(long*)a<=16,"introsort partition phase not needed within bound"); }
#include "kf2.c"
int main(void){
  __ir2c_init_globals();
  long in[NN]; for(int i=0;i<NN;i++){ in[i]=nondet_long(); __CPROVER_assume(in[i]>=0 && in[i]<1000); for(int j=0;j<i;j++) __CPROVER_assume(in[j]!=in[i]); }
  g_folds=nondet_long(); __CPROVER_assume(g_folds>=2 && g_folds<=MAXF && g_folds<=NN); g_seed=nondet_ulong();
  long tr[MAXF*NN], va[MAXF*NN], sizes[2*MAXF];
  long cnt=(long)k_kfold((uint8_t*)in,NN,(uint8_t*)tr,(uint8_t*)va,(uint8_t*)sizes,MAXF);
  __CPROVER_assume(!__ir2c_thrown);
  __CPROVER_assert(cnt==g_folds,"one split per fold");
  long seen_valid[NN]; for(int i=0;i<NN;i++) seen_valid[i]=0;
  for(long f=0;f<cnt&&f<MAXF;f++){
    long nt=sizes[2*f], nv=sizes[2*f+1];
    __CPROVER_assert(nt>=0&&nv>=0&&nt+nv==NN,"sizes add up");
    __CPROVER_assert(nv>=NN/g_folds && nv<NN/g_folds+g_folds,"fold size");
    for(long i=1;i<nt;i++) __CPROVER_assert(tr[f*NN+i-1]<tr[f*NN+i],"train sorted");
    for(long i=1;i<nv;i++) __CPROVER_assert(va[f*NN+i-1]<va[f*NN+i],"valid sorted");
    // every input occurs exactly once in train U valid
    for(int k=0;k<NN;k++){ long c=0; for(long i=0;i<nt;i++) if(tr[f*NN+i]==in[k]) c++; long d=0; for(long i=0;i<nv;i++) if(va[f*NN+i]==in[k]) d++; __CPROVER_assert(c+d==1,"partition of the input"); seen_valid[k]+=d; }
  }
  for(int k=0;k<NN;k++) __CPROVER_assert(seen_valid[k]==1,"validation folds partition the input");
#ifdef WITNESS
  __CPROVER_assert(0,"reach");
#endif
  return 0; }
