#include <splitter/kfold.h>
#include <new>
using namespace nano;
extern "C" __attribute__((noinline)) long k_kfold(const long* in, long n, long* tr, long* va, long* sizes, long maxfolds){
  alignas(16) static unsigned char buf[sizeof(kfold_splitter_t)];
  const auto& sp = *reinterpret_cast<const kfold_splitter_t*>(buf);
  indices_t s(n); for(long i=0;i<n;++i) s(i)=in[i];
  const auto splits = sp.kfold_splitter_t::split(s);
  long f=0;
  for(const auto& [t,v]: splits){ if(f>=maxfolds) break; sizes[2*f]=t.size(); sizes[2*f+1]=v.size();
    for(long i=0;i<t.size();++i) tr[f*n+i]=t(i); for(long i=0;i<v.size();++i) va[f*n+i]=v(i); ++f; }
  return (long)splits.size();
}
