#include "shim1.c"
double nondet_double(void);
#define NT 3
int main(void){
  double thr[NT]; for(int i=0;i<NT;i++){ thr[i]=nondet_double(); __CPROVER_assume(thr[i]>=-1e6 && thr[i]<=1e6); if(i>0) __CPROVER_assume(thr[i-1]<=thr[i]); }
  uint8_t h[96]; memset(h,0,96);
  *(long*)(h+0)=NT; *(double**)(h+8)=thr; *(long*)(h+16)=NT;  // thresholds tensor
  *(long*)(h+48)=NT+1;                                        // counts dims => bins()
  double v=nondet_double(); __CPROVER_assume(v>-1e6 && v<1e6);
  long b=(long)k_hist_bin(h,v);
  long expect=0; for(int i=0;i<NT;i++) if(v>=thr[i]) expect++;
  __CPROVER_assert(b>=0 && b<=NT,"bin in range");
  __CPROVER_assert(b==expect,"bin(v) follows the counting rule");
  return 0; }
