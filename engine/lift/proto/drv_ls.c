#include "ls.c"
long nondet_long(void);
#ifndef N
#define N 2
#endif
#define CAP 9
#ifndef __CPROVER__
#include <stdio.h>
#include <assert.h>
static long vals[64]; static int vi=0; long nondet_long(void){ return vals[vi++]; }
#define __CPROVER_assume(x) do{ if(!(x)) { printf("assume failed\n"); return 0; } }while(0)
#define __CPROVER_assert(x,m) do{ if(!(x)) { printf("VIOLATED: %s\n", m); } }while(0)
#endif
int main(int argc,char**argv){
#ifndef __CPROVER__
  for(int i=1;i<argc;i++) vals[i-1]=atol(argv[i]);
#endif
  __ir2c_init_globals();
  long mn[N], mx[N], src[N], out[CAP*N];
  for(int i=0;i<N;i++){ mn[i]=0; mx[i]=nondet_long(); src[i]=nondet_long(); __CPROVER_assume(mx[i]>=0&&mx[i]<=30&&src[i]>=0&&src[i]<=mx[i]); }
  long radius=nondet_long(); __CPROVER_assume(radius>=1&&radius<=16);
  long cnt=k_local_search((uint8_t*)mn,(uint8_t*)mx,(uint8_t*)src,N,radius,(uint8_t*)out,CAP);
  __CPROVER_assume(!__ir2c_thrown);
  __CPROVER_assert(cnt>=1 && cnt<=CAP,"count within 3^d");
  for(long k=0;k<cnt&&k<CAP;k++){
    int self=1;
    for(int i=0;i<N;i++){ long g=out[k*N+i]; __CPROVER_assert(g>=mn[i]&&g<=mx[i],"inside grid");
      long d=g-src[i]; __CPROVER_assert(d==0||d==radius||d==-radius,"neighbour offset"); }
    for(long l=0;l<k;l++){ int same=1; for(int i=0;i<N;i++) if(out[k*N+i]!=out[l*N+i]) same=0; __CPROVER_assert(!same,"distinct"); }
  }
  // completeness: an arbitrary in-grid neighbour is present
  long q[N]; int ingrid=1; for(int i=0;i<N;i++){ long s=nondet_long(); __CPROVER_assume(s>=-1&&s<=1); q[i]=src[i]+s*radius; if(q[i]<mn[i]||q[i]>mx[i]) ingrid=0; }
  if(ingrid){ int found=0; for(long k=0;k<cnt&&k<CAP;k++){ int same=1; for(int i=0;i<N;i++) if(out[k*N+i]!=q[i]) same=0; if(same) found=1; } __CPROVER_assert(found,"every in-grid neighbour returned"); }
#ifdef WITNESS
  __CPROVER_assert(0,"reach");
#endif
  return 0; }
