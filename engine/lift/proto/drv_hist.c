#include "shim1.c"
double nondet_double(void);
#ifndef NV
#define NV 3
#endif
#define NT 2
int main(void){
  double vals[NV], thr[NT];
  for(int i=0;i<NV;i++){ vals[i]=nondet_double(); __CPROVER_assume(vals[i]>=-4.0 && vals[i]<=4.0); }
  for(int i=0;i<NT;i++){ thr[i]=nondet_double(); __CPROVER_assume(thr[i]>=-3.0 && thr[i]<=3.0); }
  double orig[NV]; for(int i=0;i<NV;i++) orig[i]=vals[i];
  uint8_t* h = k_hist_make((uint8_t*)vals, NV, (uint8_t*)thr, NT);
  __CPROVER_assume(!__ir2c_thrown);
  // histogram_t layout: thresholds{dims[1],ptr,size} means{...} counts{...} medians{...}: each tensor 24 bytes
  uint64_t* counts = *(uint64_t**)(h + 48 + 8);
  long nbins = *(long*)(h + 48);
  __CPROVER_assert(nbins==NT+1,"bins");
  double v=nondet_double(); __CPROVER_assume(v>-4.0 && v<4.0);
  long b=(long)k_hist_bin(h,v);
  long expect=0; for(int i=0;i<NT;i++) if(v>=thr[i]) expect++;
  // counting rule on the data
  long c0=0,c1=0,c2=0; for(int i=0;i<NV;i++){ long k=0; for(int j=0;j<NT;j++) if(orig[i]>=thr[j]) k++; if(k==0)c0++; else if(k==1)c1++; else c2++; }
  __CPROVER_assert(counts[0]==c0&&counts[1]==c1&&counts[2]==c2,"bin counts follow the counting rule");
#ifdef CHECKBIN
  __CPROVER_assert(b==expect,"bin(v) follows the counting rule");
#endif
  return 0; }
