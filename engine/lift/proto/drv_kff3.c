#define IR2C_STACK_END 6144
#include "ir2c_flat_rt.h"
long nondet_long(void); unsigned long nondet_ulong(void);
#ifndef NN
#define NN 4
#endif
#define MAXF 4
static long g_folds; static unsigned long g_seed;
uint64_t X__ZN4nano8make_rngESt8optionalImE(uint64_t a0, uint8_t a1){ return 1; }
uint64_t X__ZNK4nano11parameter_t5valueIlLb1EEET_v(uint64_t p){ return (uint64_t)g_folds; }
uint64_t X__ZNK4nano11parameter_t5valueImLb1EEET_v(uint64_t p){ return (uint64_t)g_seed; }
uint64_t X__ZNK4nano14configurable_t9parameterESt17basic_string_viewIcSt11char_traitsIcEE(uint64_t self, uint64_t len, uint64_t s){ return (len>10 && __ir2c_ld1(s+10)=='s') ? 8 : 16; }
void X__ZSt16__introsort_loopIPllN9__gnu_cxx5__ops15_Iter_less_iterEEvT_S4_T0_T1_(uint64_t a,uint64_t b,uint64_t c){ __CPROVER_assert((b-a)/8<=16,"introsort partition phase not needed within bound"); }
void X__ZSt7shuffleIPlSt26linear_congruential_engineImLm48271ELm0ELm2147483647EEEvT_S3_OT0_(uint64_t first, uint64_t last, uint64_t rng){
  long tmp[NN]; long perm[NN];
  __CPROVER_assert((last-first)/8==NN,"shuffle range");
  for(int i=0;i<NN;i++){ perm[i]=nondet_long(); __CPROVER_assume(perm[i]>=0&&perm[i]<NN); for(int j=0;j<i;j++) __CPROVER_assume(perm[j]!=perm[i]); }
  for(int i=0;i<NN;i++) tmp[i]=(long)__ir2c_ld8(first+8*perm[i]);
  for(int i=0;i<NN;i++) __ir2c_st8(first+8*i,(uint64_t)tmp[i]);
}
void X__ZSt22__final_insertion_sortIPlN9__gnu_cxx5__ops15_Iter_less_iterEEvT_S4_T0_(uint64_t first,uint64_t last){
  /* contract of std::sort on distinct values: the range becomes its sorted permutation */
  long n=(long)((last-first)/8); long tmp[NN]; long perm[NN];
  __CPROVER_assert(n>=0&&n<=NN,"sort range");
  for(int i=0;i<NN;i++){ if(i<n){ perm[i]=nondet_long(); __CPROVER_assume(perm[i]>=0&&perm[i]<n); for(int j=0;j<i;j++) __CPROVER_assume(perm[j]!=perm[i]); tmp[i]=(long)__ir2c_ld8(first+8*perm[i]); if(i>0) __CPROVER_assume(tmp[i-1]<=tmp[i]); } }
  for(int i=0;i<NN;i++) if(i<n) __ir2c_st8(first+8*i,(uint64_t)tmp[i]);
}
#include "kf3f.c"
int main(void){
  __ir2c_sp=(__IR2C_GLOBALS_END+63)/64*64; __ir2c_hp=IR2C_STACK_END;
  __ir2c_init_globals();
  uint64_t in=__ir2c_alloca(NN*8,8), tr=__ir2c_alloca(MAXF*NN*8,8), va=__ir2c_alloca(MAXF*NN*8,8), sz=__ir2c_alloca(2*MAXF*8,8);
  long inv[NN]; for(int i=0;i<NN;i++){ inv[i]=nondet_long(); __CPROVER_assume(inv[i]>=0 && inv[i]<1000); for(int j=0;j<i;j++) __CPROVER_assume(inv[j]!=inv[i]); __ir2c_st8(in+8*i,(uint64_t)inv[i]); }
#ifdef FOLDS
  g_folds=FOLDS;
#else
  g_folds=nondet_long(); __CPROVER_assume(g_folds>=2 && g_folds<=MAXF && g_folds<=NN);
#endif
  g_seed=nondet_ulong();
  long cnt=(long)k_kfold(in,NN,tr,va,sz,MAXF);
  __CPROVER_assume(!__ir2c_thrown);
  __CPROVER_assert(cnt==g_folds,"one split per fold");
  long seen_valid[NN]; for(int i=0;i<NN;i++) seen_valid[i]=0;
  for(long f=0;f<cnt&&f<MAXF;f++){
    long nt=(long)__ir2c_ld8(sz+16*f), nv=(long)__ir2c_ld8(sz+16*f+8);
    __CPROVER_assert(nt>=0&&nv>=0&&nt+nv==NN,"sizes add up");
    __CPROVER_assert(nv>=NN/g_folds && nv<NN/g_folds+g_folds,"fold size");
    for(long i=1;i<nt;i++) __CPROVER_assert((long)__ir2c_ld8(tr+8*(f*NN+i-1))<(long)__ir2c_ld8(tr+8*(f*NN+i)),"train sorted");
    for(long i=1;i<nv;i++) __CPROVER_assert((long)__ir2c_ld8(va+8*(f*NN+i-1))<(long)__ir2c_ld8(va+8*(f*NN+i)),"valid sorted");
    for(int k=0;k<NN;k++){ long c=0; for(long i=0;i<nt;i++) if((long)__ir2c_ld8(tr+8*(f*NN+i))==inv[k]) c++; long d=0; for(long i=0;i<nv;i++) if((long)__ir2c_ld8(va+8*(f*NN+i))==inv[k]) d++; __CPROVER_assert(c+d==1,"partition of the input"); seen_valid[k]+=d; }
  }
  for(int k=0;k<NN;k++) __CPROVER_assert(seen_valid[k]==1,"validation folds partition the input");
#ifdef WITNESS
  __CPROVER_assert(0,"reach");
#endif
  return 0; }
