#include <nano/tensor/tensor.h>
#include <nano/core/stats.h>
#include <nano/core/histogram.h>
#include <nano/datasource/mask.h>
using namespace nano;

extern "C" {
long k_offset4(long d0,long d1,long d2,long d3,long i0,long i1,long i2,long i3){
    return nano::index(make_dims(d0,d1,d2,d3), i0,i1,i2,i3);
}
// reshape with one -1
void k_reshape3(const long* data, long d0,long d1,long d2, long r0,long r1, long* o0,long* o1, const long** optr){
    auto t = map_tensor(data, d0,d1,d2);
    auto r = t.reshape(r0,r1);
    *o0 = r.size<0>(); *o1 = r.size<1>(); *optr = r.data();
}
void k_slice3(const long* data, long d0,long d1,long d2, long b,long e, long* o0,long* o1,long*o2, const long** optr){
    auto t = map_tensor(data, d0,d1,d2);
    auto r = t.slice(b,e);
    *o0 = r.size<0>(); *o1 = r.size<1>(); *o2=r.size<2>(); *optr = r.data();
}
double k_percentile_sorted(const double* v, long n, double p){
    return percentile_sorted(v, v+n, p);
}
void k_setbit(uint8_t* m, long bytes, long s){ setbit(map_tensor(m, bytes), s); }
int k_getbit(const uint8_t* m, long bytes, long s){ return getbit(map_tensor(m, bytes), s); }
long k_hist_bin(histogram_t* h, double v){ return h->bin(v); }
histogram_t* k_hist_make(double* vals, long n, const double* thr, long nt){
    tensor_mem_t<double,1> t(nt);
    for(long i=0;i<nt;++i) t(i)=thr[i];
    return new histogram_t(vals, vals+n, t);
}
}
