#include <nano/tuner/util.h>
using namespace nano;
extern "C" __attribute__((noinline)) long k_local_search(const long* mn, const long* mx, const long* src, long n, long radius, long* out, long cap){
  igrid_t a(n), b(n), c(n);
  for(long i=0;i<n;++i){ a(i)=mn[i]; b(i)=mx[i]; c(i)=src[i]; }
  const auto r = local_search(a,b,c,radius);
  long k=0;
  for(const auto& g: r){ if(k>=cap) break; for(long i=0;i<n;++i) out[k*n+i]=g(i); ++k; }
  return (long)r.size();
}
