// ir2c prototype: LLVM-14 IR -> C for CBMC (byte-addressed memory, exceptions lowered to a flag)
#include "llvm/IR/Module.h"
#include "llvm/IR/Instructions.h"
#include "llvm/IR/InstrTypes.h"
#include "llvm/IR/IntrinsicInst.h"
#include "llvm/IR/Constants.h"
#include "llvm/IR/DataLayout.h"
#include "llvm/IR/GetElementPtrTypeIterator.h"
#include "llvm/IR/Operator.h"
#include "llvm/IRReader/IRReader.h"
#include "llvm/Support/SourceMgr.h"
#include "llvm/Support/raw_ostream.h"
#include <map>
#include <set>
#include <string>
#include <vector>
#include <sstream>
using namespace llvm;

static const DataLayout* DL;
static std::map<const Value*, std::string> names;
static std::map<const Function*, std::string> fnames;
static std::map<const GlobalVariable*, std::string> gnames;
static std::map<Type*, std::string> aggnames;
static std::vector<std::string> aggdefs;
static std::set<std::string> stubs, throwstubs; static std::string rtpath;
static bool matchpat(const std::set<std::string>& s, const std::string& n){ for(auto& p:s){ if(!p.empty()&&p.back()=='*'){ if(n.compare(0,p.size()-1,p,0,p.size()-1)==0) return true; } else if(n==p) return true; } return false; }
static bool isStub(const std::string& n){ return matchpat(stubs,n)||matchpat(throwstubs,n); }
static std::set<const GlobalVariable*> usedGlobals;
static std::set<const Function*> usedFuncs; // referenced (called or address taken)
static std::string err;

static std::string cid(StringRef s){ std::string r; for(char c: s){ if(isalnum((unsigned char)c)||c=='_') r+=c; else { char b[8]; snprintf(b,8,"_%02x",(unsigned char)c); r+=b; } } return r; }

static std::string ctype(Type* t);
static std::string aggtype(Type* t){
  auto it=aggnames.find(t); if(it!=aggnames.end()) return it->second;
  std::string n="struct agg"+std::to_string(aggnames.size()); aggnames[t]=n;
  std::string d=n+" { ";
  if(auto* st=dyn_cast<StructType>(t)){ for(unsigned i=0;i<st->getNumElements();++i) d+=ctype(st->getElementType(i))+" f"+std::to_string(i)+"; "; }
  else if(auto* at=dyn_cast<ArrayType>(t)){ d+=ctype(at->getElementType())+" a["+std::to_string(at->getNumElements())+"]; "; }
  d+="};"; aggdefs.push_back(d); return n;
}
static std::string ctype(Type* t){
  if(t->isVoidTy()) return "void";
  if(t->isIntegerTy()){ unsigned w=t->getIntegerBitWidth(); if(w==1) return "uint8_t"; if(w<=8) return "uint8_t"; if(w<=16) return "uint16_t"; if(w<=32) return "uint32_t"; if(w<=64) return "uint64_t"; if(w<=128) return "unsigned __int128"; }
  if(t->isDoubleTy()) return "double"; if(t->isFloatTy()) return "float";
  if(t->isPointerTy()) return "uint8_t*";
  if(t->isStructTy()||t->isArrayTy()) return aggtype(t);
  std::string s; raw_string_ostream os(s); t->print(os); err+="unsupported type "+os.str()+"\n"; return "void";
}
static std::string stype(Type* t){ // signed variant for ints
  unsigned w=t->getIntegerBitWidth(); if(w<=8) return "int8_t"; if(w<=16) return "int16_t"; if(w<=32) return "int32_t"; if(w<=64) return "int64_t"; return "__int128"; }
static std::string mask(Type* t, const std::string& e){ unsigned w=t->getIntegerBitWidth(); if(w==1) return "(("+e+")&1)"; if(w==8||w==16||w==32||w==64||w==128) return e; return "(("+e+")&(((uint64_t)1<<"+std::to_string(w)+")-1))"; }
static std::string sx(Type* t, const std::string& e){ // sign-extended signed value
  unsigned w=t->getIntegerBitWidth(); if(w==1) return "(-(int64_t)(("+e+")&1))";
  if(w==8||w==16||w==32||w==64||w==128) return "(("+stype(t)+")("+e+"))";
  unsigned cw = w<=8?8:w<=16?16:w<=32?32:64; return "((("+stype(t)+")(("+e+")<<"+std::to_string(cw-w)+"))>>"+std::to_string(cw-w)+")"; }

static std::string val(const Value* v);
static std::string constexprs(const ConstantExpr* ce){
  switch(ce->getOpcode()){
    case Instruction::BitCast: case Instruction::AddrSpaceCast: return val(ce->getOperand(0));
    case Instruction::GetElementPtr: { APInt off(64,0); auto* g=cast<GEPOperator>(ce); if(g->accumulateConstantOffset(*DL,off)) return "("+val(g->getPointerOperand())+"+("+std::to_string(off.getSExtValue())+"))"; break; }
    case Instruction::PtrToInt: return "((uint64_t)"+val(ce->getOperand(0))+")";
    case Instruction::IntToPtr: return "((uint8_t*)"+val(ce->getOperand(0))+")";
    default: break; }
  std::string s; raw_string_ostream os(s); ce->print(os); err+="unsupported constexpr "+os.str()+"\n"; return "0"; }
static std::string val(const Value* v){
  if(auto* ci=dyn_cast<ConstantInt>(v)){ if(ci->getBitWidth()<=64) return "(("+ctype(ci->getType())+")"+std::to_string(ci->getZExtValue())+"ULL)"; err+="wide const\n"; return "0"; }
  if(auto* cf=dyn_cast<ConstantFP>(v)){ if(cf->getType()->isDoubleTy()){ uint64_t b=cf->getValueAPF().bitcastToAPInt().getZExtValue(); return "__ir2c_d("+std::to_string(b)+"ULL)"; } else { uint32_t b=(uint32_t)cf->getValueAPF().bitcastToAPInt().getZExtValue(); return "__ir2c_f("+std::to_string(b)+"U)"; } }
  if(isa<ConstantPointerNull>(v)) return "((uint8_t*)0)";
  if(isa<UndefValue>(v)||isa<PoisonValue>(v)){ Type* t=v->getType(); if(t->isStructTy()||t->isArrayTy()) return "("+ctype(t)+"){0}"; if(t->isPointerTy()) return "((uint8_t*)0)"; return "0"; }
  if(isa<ConstantAggregateZero>(v)) return "("+ctype(v->getType())+"){0}";
  if(auto* f=dyn_cast<Function>(v)){ usedFuncs.insert(f); return "((uint8_t*)&"+fnames[f]+")"; }
  if(auto* g=dyn_cast<GlobalVariable>(v)){ usedGlobals.insert(g); if(!gnames.count(g)) gnames[g]="g_"+cid(g->getName()); return "((uint8_t*)"+gnames[g]+")"; }
  if(auto* ce=dyn_cast<ConstantExpr>(v)) return constexprs(ce);
  auto it=names.find(v); if(it!=names.end()) return it->second;
  std::string s; raw_string_ostream os(s); v->print(os); err+="unsupported value "+os.str()+"\n"; return "0"; }

static std::string zero(Type* t){ if(t->isVoidTy()) return ""; if(t->isStructTy()||t->isArrayTy()) return "("+ctype(t)+"){0}"; if(t->isPointerTy()) return "(uint8_t*)0"; return "0"; }

static bool mayThrow(const CallBase* cb){ if(cb->doesNotThrow()) return false; if(auto* f=cb->getCalledFunction()){ if(f->isIntrinsic()) return false; } return true; }

static std::string fcmp(FCmpInst::Predicate p, const std::string& a, const std::string& b){
  std::string un="(__ir2c_isnan("+a+")||__ir2c_isnan("+b+"))";
  switch(p){ case FCmpInst::FCMP_FALSE: return "0"; case FCmpInst::FCMP_TRUE: return "1";
    case FCmpInst::FCMP_OEQ: return "("+a+"=="+b+")"; case FCmpInst::FCMP_OGT: return "("+a+">"+b+")"; case FCmpInst::FCMP_OGE: return "("+a+">="+b+")";
    case FCmpInst::FCMP_OLT: return "("+a+"<"+b+")"; case FCmpInst::FCMP_OLE: return "("+a+"<="+b+")"; case FCmpInst::FCMP_ONE: return "(!"+un+"&&"+a+"!="+b+")";
    case FCmpInst::FCMP_ORD: return "(!"+un+")"; case FCmpInst::FCMP_UNO: return un;
    case FCmpInst::FCMP_UEQ: return "("+un+"||"+a+"=="+b+")"; case FCmpInst::FCMP_UGT: return "(!("+a+"<="+b+"))"; case FCmpInst::FCMP_UGE: return "(!("+a+"<"+b+"))";
    case FCmpInst::FCMP_ULT: return "(!("+a+">="+b+"))"; case FCmpInst::FCMP_ULE: return "(!("+a+">"+b+"))"; case FCmpInst::FCMP_UNE: return "("+a+"!="+b+")"; default: return "0"; } }

static std::string proto(const Function* f){
  std::string s=ctype(f->getReturnType())+" "+fnames[f]+"(";
  bool first=true; for(auto& a: f->args()){ if(!first) s+=", "; first=false; s+=ctype(a.getType())+" "+(names.count(&a)?names[&a]:std::string("")); }
  if(f->isVarArg()){ if(!first) s+=", "; s+="..."; first=false; }
  if(first) s+="void"; return s+")"; }

static void emitPhiCopies(raw_ostream& o, const BasicBlock* from, const BasicBlock* to){
  for(auto& I: *to){ auto* p=dyn_cast<PHINode>(&I); if(!p) break; o<<"    "<<names[p]<<"__in = "<<val(p->getIncomingValueForBlock(from))<<";\n"; } }
static std::string bbl(const Function* f, const BasicBlock* b){ unsigned i=0; for(auto& x:*f){ if(&x==b) break; ++i;} return "bb"+std::to_string(i); }
static void jump(raw_ostream& o, const Function* f, const BasicBlock* from, const BasicBlock* to){ emitPhiCopies(o,from,to); o<<"    goto "<<bbl(f,to)<<";\n"; }

static void emitCall(raw_ostream& o, const CallBase* cb, const Function* F){
  const Function* cf=cb->getCalledFunction();
  std::string lhs = cb->getType()->isVoidTy()? "" : names[cb]+" = ";
  auto arg=[&](unsigned i){ return val(cb->getArgOperand(i)); };
  if(cf && cf->isIntrinsic()){
    switch(cf->getIntrinsicID()){
      case Intrinsic::lifetime_start: case Intrinsic::lifetime_end: case Intrinsic::dbg_declare: case Intrinsic::dbg_value: case Intrinsic::dbg_label:
      case Intrinsic::experimental_noalias_scope_decl: case Intrinsic::assume: case Intrinsic::invariant_start: case Intrinsic::invariant_end: case Intrinsic::prefetch: return;
      case Intrinsic::memcpy: case Intrinsic::memmove: o<<"    memmove("<<arg(0)<<","<<arg(1)<<","<<arg(2)<<");\n"; return;
      case Intrinsic::memset: o<<"    memset("<<arg(0)<<","<<arg(1)<<","<<arg(2)<<");\n"; return;
      case Intrinsic::fabs: o<<"    "<<lhs<<"__ir2c_fabs("<<arg(0)<<");\n"; return;
      case Intrinsic::sqrt: o<<"    "<<lhs<<"sqrt("<<arg(0)<<");\n"; return;
      case Intrinsic::floor: o<<"    "<<lhs<<"__ir2c_floor("<<arg(0)<<");\n"; return;
      case Intrinsic::ceil: o<<"    "<<lhs<<"__ir2c_ceil("<<arg(0)<<");\n"; return;
      case Intrinsic::fmuladd: o<<"    "<<lhs<<"(("<<arg(0)<<"*"<<arg(1)<<")+"<<arg(2)<<");\n"; return;
      case Intrinsic::smax: o<<"    "<<lhs<<"("<<sx(cb->getType(),arg(0))<<">"<<sx(cb->getType(),arg(1))<<"?"<<arg(0)<<":"<<arg(1)<<");\n"; return;
      case Intrinsic::smin: o<<"    "<<lhs<<"("<<sx(cb->getType(),arg(0))<<"<"<<sx(cb->getType(),arg(1))<<"?"<<arg(0)<<":"<<arg(1)<<");\n"; return;
      case Intrinsic::umax: o<<"    "<<lhs<<"("<<arg(0)<<">"<<arg(1)<<"?"<<arg(0)<<":"<<arg(1)<<");\n"; return;
      case Intrinsic::umin: o<<"    "<<lhs<<"("<<arg(0)<<"<"<<arg(1)<<"?"<<arg(0)<<":"<<arg(1)<<");\n"; return;
      case Intrinsic::abs: o<<"    "<<lhs<<"("<<ctype(cb->getType())<<")("<<sx(cb->getType(),arg(0))<<"<0?-"<<sx(cb->getType(),arg(0))<<":"<<sx(cb->getType(),arg(0))<<");\n"; return;
      case Intrinsic::ctlz: o<<"    "<<lhs<<"__ir2c_ctlz"<<cb->getType()->getIntegerBitWidth()<<"("<<arg(0)<<");\n"; return;
      case Intrinsic::expect: o<<"    "<<lhs<<arg(0)<<";\n"; return;
      case Intrinsic::objectsize: o<<"    "<<lhs<<"(uint64_t)-1;\n"; return;
      case Intrinsic::trap: o<<"    __ir2c_unreachable();\n"; return;
      case Intrinsic::umul_with_overflow: { std::string t=ctype(cb->getType()); o<<"    { "<<t<<" r; r.f0=("<<arg(0)<<")*("<<arg(1)<<"); r.f1=("<<arg(0)<<"!=0 && r.f0/("<<arg(0)<<")!=("<<arg(1)<<")); "<<names[cb]<<"=r; }\n"; return; }
      default: { err+="unsupported intrinsic "+cf->getName().str()+"\n"; return; } } }
  std::string callee;
  if(cf){ usedFuncs.insert(cf); callee=fnames[cf]; }
  else { // indirect call through function pointer
    auto* ft=cb->getFunctionType(); std::string ty=ctype(ft->getReturnType())+"(*)("; for(unsigned i=0;i<ft->getNumParams();++i){ if(i) ty+=","; ty+=ctype(ft->getParamType(i)); } if(ft->getNumParams()==0) ty+="void"; ty+=")";
    callee="(("+ty+")"+val(cb->getCalledOperand())+")"; }
  o<<"    "<<lhs<<callee<<"("; for(unsigned i=0;i<cb->arg_size();++i){ if(i) o<<", "; o<<arg(i);} o<<");\n";
  if(!isa<InvokeInst>(cb) && mayThrow(cb)) o<<"    if(__ir2c_thrown) return "<<zero(F->getReturnType())<<";\n";
}

static void emitFunction(raw_ostream& o, const Function* F){
  names.clear(); unsigned n=0;
  for(auto& a: F->args()) names[&a]="a"+std::to_string(n++);
  for(auto& B:*F) for(auto& I:B) if(!I.getType()->isVoidTy()) names[&I]="v"+std::to_string(n++);
  o<<proto(F)<<" {\n";
  for(auto& B:*F) for(auto& I:B){
    if(auto* al=dyn_cast<AllocaInst>(&I)){ auto sz=al->getAllocationSizeInBits(*DL); uint64_t bytes = sz? (uint64_t)(*sz)/8 : 0; if(!sz) err+="dynamic alloca\n"; o<<"  uint8_t "<<names[&I]<<"__mem["<<(bytes?bytes:1)<<"] __attribute__((aligned("<<al->getAlign().value()<<"))); uint8_t* "<<names[&I]<<" = "<<names[&I]<<"__mem;\n"; continue; }
    if(!I.getType()->isVoidTy()){ o<<"  "<<ctype(I.getType())<<" "<<names[&I]; if(isa<PHINode>(&I)) o<<"; "<<ctype(I.getType())<<" "<<names[&I]<<"__in"; o<<";\n"; } }
  for(auto& B:*F){
    o<<"  "<<bbl(F,&B)<<": ;\n";
    for(auto& I:B) if(auto* p=dyn_cast<PHINode>(&I)) o<<"    "<<names[p]<<" = "<<names[p]<<"__in;\n"; else break;
    for(auto& I:B){
      if(isa<PHINode>(&I)||isa<AllocaInst>(&I)) continue;
      Type* T=I.getType(); std::string L = T->isVoidTy()? "" : names[&I];
      if(auto* bo=dyn_cast<BinaryOperator>(&I)){
        std::string a=val(bo->getOperand(0)), b=val(bo->getOperand(1)); std::string ct=ctype(T);
        if(T->isFloatingPointTy()){ const char* op= bo->getOpcode()==Instruction::FAdd?"+": bo->getOpcode()==Instruction::FSub?"-": bo->getOpcode()==Instruction::FMul?"*": bo->getOpcode()==Instruction::FDiv?"/":nullptr; if(!op){ err+="frem\n"; continue;} o<<"    "<<L<<" = "<<a<<op<<b<<";\n"; continue; }
        bool nsw = isa<OverflowingBinaryOperator>(bo) && bo->hasNoSignedWrap();
        switch(bo->getOpcode()){
          case Instruction::Add: case Instruction::Sub: case Instruction::Mul: { const char* op= bo->getOpcode()==Instruction::Add?"+": bo->getOpcode()==Instruction::Sub?"-":"*";
            if(nsw && T->getIntegerBitWidth()>=32) o<<"    "<<L<<" = ("<<ct<<")("<<sx(T,a)<<op<<sx(T,b)<<");\n"; else o<<"    "<<L<<" = "<<mask(T,"("+ct+")("+a+op+b+")")<<";\n"; break; }
          case Instruction::UDiv: o<<"    "<<L<<" = "<<a<<"/"<<b<<";\n"; break; case Instruction::URem: o<<"    "<<L<<" = "<<a<<"%"<<b<<";\n"; break;
          case Instruction::SDiv: o<<"    "<<L<<" = "<<mask(T,"("+ct+")("+sx(T,a)+"/"+sx(T,b)+")")<<";\n"; break; case Instruction::SRem: o<<"    "<<L<<" = "<<mask(T,"("+ct+")("+sx(T,a)+"%"+sx(T,b)+")")<<";\n"; break;
          case Instruction::Shl: o<<"    "<<L<<" = "<<mask(T,"("+ct+")("+a+"<<"+b+")")<<";\n"; break; case Instruction::LShr: o<<"    "<<L<<" = "<<a<<">>"<<b<<";\n"; break;
          case Instruction::AShr: o<<"    "<<L<<" = "<<mask(T,"("+ct+")("+sx(T,a)+">>"+b+")")<<";\n"; break;
          case Instruction::And: o<<"    "<<L<<" = "<<a<<"&"<<b<<";\n"; break; case Instruction::Or: o<<"    "<<L<<" = "<<a<<"|"<<b<<";\n"; break; case Instruction::Xor: o<<"    "<<L<<" = "<<mask(T,a+"^"+b)<<";\n"; break;
          default: err+="binop\n"; } continue; }
      if(auto* u=dyn_cast<UnaryOperator>(&I)){ o<<"    "<<L<<" = -"<<val(u->getOperand(0))<<";\n"; continue; }
      if(auto* ic=dyn_cast<ICmpInst>(&I)){ Type* ot=ic->getOperand(0)->getType(); std::string a=val(ic->getOperand(0)), b=val(ic->getOperand(1));
        if(ot->isPointerTy()){ a="(uint64_t)"+a; b="(uint64_t)"+b; }
        std::string sa= ot->isPointerTy()? "(int64_t)"+a : sx(ot,a), sb= ot->isPointerTy()? "(int64_t)"+b : sx(ot,b); const char* op; bool sg=false;
        switch(ic->getPredicate()){ case ICmpInst::ICMP_EQ: op="=="; break; case ICmpInst::ICMP_NE: op="!="; break; case ICmpInst::ICMP_UGT: op=">"; break; case ICmpInst::ICMP_UGE: op=">="; break; case ICmpInst::ICMP_ULT: op="<"; break; case ICmpInst::ICMP_ULE: op="<="; break;
          case ICmpInst::ICMP_SGT: op=">"; sg=true; break; case ICmpInst::ICMP_SGE: op=">="; sg=true; break; case ICmpInst::ICMP_SLT: op="<"; sg=true; break; default: op="<="; sg=true; }
        o<<"    "<<L<<" = ("<<(sg?sa:a)<<op<<(sg?sb:b)<<");\n"; continue; }
      if(auto* fc=dyn_cast<FCmpInst>(&I)){ o<<"    "<<L<<" = "<<fcmp(fc->getPredicate(),val(fc->getOperand(0)),val(fc->getOperand(1)))<<";\n"; continue; }
      if(auto* c=dyn_cast<CastInst>(&I)){ Type* S=c->getSrcTy(); std::string a=val(c->getOperand(0)); std::string ct=ctype(T);
        switch(c->getOpcode()){
          case Instruction::Trunc: o<<"    "<<L<<" = "<<mask(T,"("+ct+")"+a)<<";\n"; break; case Instruction::ZExt: o<<"    "<<L<<" = ("<<ct<<")"<<a<<";\n"; break;
          case Instruction::SExt: o<<"    "<<L<<" = "<<mask(T,"("+ct+")"+sx(S,a))<<";\n"; break;
          case Instruction::FPToSI: o<<"    "<<L<<" = "<<mask(T,"("+ct+")("+stype(T)+")"+a)<<";\n"; break; case Instruction::FPToUI: o<<"    "<<L<<" = ("<<ct<<")"<<a<<";\n"; break;
          case Instruction::SIToFP: o<<"    "<<L<<" = ("<<ct<<")"<<sx(S,a)<<";\n"; break; case Instruction::UIToFP: o<<"    "<<L<<" = ("<<ct<<")"<<a<<";\n"; break;
          case Instruction::FPExt: case Instruction::FPTrunc: o<<"    "<<L<<" = ("<<ct<<")"<<a<<";\n"; break;
          case Instruction::PtrToInt: o<<"    "<<L<<" = ("<<ct<<")(uint64_t)"<<a<<";\n"; break; case Instruction::IntToPtr: o<<"    "<<L<<" = (uint8_t*)(uint64_t)"<<a<<";\n"; break;
          case Instruction::BitCast: case Instruction::AddrSpaceCast: if(S->isPointerTy()&&T->isPointerTy()) o<<"    "<<L<<" = "<<a<<";\n"; else o<<"    { "<<ctype(S)<<" t="<<a<<"; memcpy(&"<<L<<",&t,sizeof("<<L<<")); }\n"; break;
          default: err+="cast\n"; } continue; }
      if(auto* ld=dyn_cast<LoadInst>(&I)){ std::string ct=ctype(T); o<<"    "<<L<<" = "<<(T->isIntegerTy()? mask(T,"*("+ct+"*)"+val(ld->getPointerOperand())) : "*("+ct+"*)"+val(ld->getPointerOperand()))<<";\n"; continue; }
      if(auto* st=dyn_cast<StoreInst>(&I)){ Type* vt=st->getValueOperand()->getType(); o<<"    *("<<ctype(vt)<<"*)"<<val(st->getPointerOperand())<<" = "<<val(st->getValueOperand())<<";\n"; continue; }
      if(auto* g=dyn_cast<GetElementPtrInst>(&I)){ std::string e=val(g->getPointerOperand()); int64_t coff=0; std::string dyn;
        for(auto gi=gep_type_begin(g), ge=gep_type_end(g); gi!=ge; ++gi){ Value* idx=gi.getOperand();
          if(StructType* sty=gi.getStructTypeOrNull()){ coff+= (int64_t)DL->getStructLayout(sty)->getElementOffset(cast<ConstantInt>(idx)->getZExtValue()); }
          else { uint64_t sz=DL->getTypeAllocSize(gi.getIndexedType()); if(auto* ci=dyn_cast<ConstantInt>(idx)) coff+= ci->getSExtValue()*(int64_t)sz; else dyn+="+(int64_t)"+sx(idx->getType(),val(idx))+"*"+std::to_string(sz)+"LL"; } }
        o<<"    "<<L<<" = "<<e<<"+("<<coff<<"LL"<<dyn<<");\n"; continue; }
      if(auto* s=dyn_cast<SelectInst>(&I)){ o<<"    "<<L<<" = "<<val(s->getCondition())<<" ? "<<val(s->getTrueValue())<<" : "<<val(s->getFalseValue())<<";\n"; continue; }
      if(auto* ev=dyn_cast<ExtractValueInst>(&I)){ std::string e=val(ev->getAggregateOperand()); Type* t=ev->getAggregateOperand()->getType(); for(unsigned i: ev->indices()){ if(t->isStructTy()){ e+=".f"+std::to_string(i); t=cast<StructType>(t)->getElementType(i);} else { e+=".a["+std::to_string(i)+"]"; t=cast<ArrayType>(t)->getElementType(); } } o<<"    "<<L<<" = "<<e<<";\n"; continue; }
      if(auto* iv=dyn_cast<InsertValueInst>(&I)){ o<<"    "<<L<<" = "<<val(iv->getAggregateOperand())<<"; "; std::string e=L; Type* t=T; for(unsigned i: iv->indices()){ if(t->isStructTy()){ e+=".f"+std::to_string(i); t=cast<StructType>(t)->getElementType(i);} else { e+=".a["+std::to_string(i)+"]"; t=cast<ArrayType>(t)->getElementType(); } } o<<e<<" = "<<val(iv->getInsertedValueOperand())<<";\n"; continue; }
      if(auto* inv=dyn_cast<InvokeInst>(&I)){ emitCall(o,inv,F); o<<"    if(__ir2c_thrown) {\n"; jump(o,F,&B,inv->getUnwindDest()); o<<"    }\n"; jump(o,F,&B,inv->getNormalDest()); continue; }
      if(auto* cb=dyn_cast<CallInst>(&I)){ emitCall(o,cb,F); continue; }
      if(isa<LandingPadInst>(&I)){ o<<"    "<<L<<" = "<<zero(T)<<";\n"; continue; }
      if(isa<ResumeInst>(&I)){ o<<"    return "<<zero(F->getReturnType())<<";\n"; continue; }
      if(auto* br=dyn_cast<BranchInst>(&I)){ if(br->isConditional()){ o<<"    if("<<val(br->getCondition())<<") {\n"; jump(o,F,&B,br->getSuccessor(0)); o<<"    } else {\n"; jump(o,F,&B,br->getSuccessor(1)); o<<"    }\n"; } else jump(o,F,&B,br->getSuccessor(0)); continue; }
      if(auto* sw=dyn_cast<SwitchInst>(&I)){ std::string c=val(sw->getCondition()); for(auto& cs: sw->cases()){ o<<"    if("<<c<<"=="<<val(cs.getCaseValue())<<") {\n"; jump(o,F,&B,cs.getCaseSuccessor()); o<<"    }\n"; } jump(o,F,&B,sw->getDefaultDest()); continue; }
      if(auto* r=dyn_cast<ReturnInst>(&I)){ if(r->getReturnValue()) o<<"    return "<<val(r->getReturnValue())<<";\n"; else o<<"    return;\n"; continue; }
      if(isa<UnreachableInst>(&I)){ o<<"    __ir2c_unreachable(); return "<<zero(F->getReturnType())<<";\n"; continue; }
      if(auto* rmw=dyn_cast<AtomicRMWInst>(&I)){ // single-threaded semantics (schedules are outside every LIFT-C claim)
        std::string ct=ctype(T), ptr="*("+ct+"*)"+val(rmw->getPointerOperand()), v=val(rmw->getValOperand()); const char* op=nullptr;
        switch(rmw->getOperation()){ case AtomicRMWInst::Add: op="+"; break; case AtomicRMWInst::Sub: op="-"; break; case AtomicRMWInst::And: op="&"; break; case AtomicRMWInst::Or: op="|"; break; case AtomicRMWInst::Xor: op="^"; break; case AtomicRMWInst::Xchg: op=""; break; default: break; }
        if(!op){ err+="atomicrmw op\n"; continue; }
        o<<"    "<<L<<" = "<<ptr<<"; "<<ptr<<" = "<<(op[0]? mask(T,"("+ct+")("+L+op+v+")") : v)<<";\n"; continue; }
      if(auto* cx=dyn_cast<AtomicCmpXchgInst>(&I)){ Type* vt=cx->getCompareOperand()->getType(); std::string ct=ctype(vt), ptr="*("+ct+"*)"+val(cx->getPointerOperand());
        o<<"    { "<<ct<<" old_="<<ptr<<"; "<<L<<".f0=old_; "<<L<<".f1=(old_=="<<val(cx->getCompareOperand())<<"); if("<<L<<".f1) "<<ptr<<" = "<<val(cx->getNewValOperand())<<"; }\n"; continue; }
      if(isa<FenceInst>(&I)){ continue; }
      if(isa<FreezeInst>(&I)){ o<<"    "<<L<<" = "<<val(I.getOperand(0))<<";\n"; continue; }
      std::string s; raw_string_ostream os(s); I.print(os); err+="unsupported instruction "+os.str()+"\n";
    } }
  o<<"}\n\n"; }

// global initialisers: emitted as an init function writing bytes/pointers at offsets
static void initConst(raw_ostream& o, const std::string& base, uint64_t off, const Constant* c){
  Type* t=c->getType();
  if(isa<ConstantAggregateZero>(c)||isa<UndefValue>(c)) return;
  if(auto* ci=dyn_cast<ConstantInt>(c)){ if(!ci->isZero()) o<<"  *("<<ctype(t)<<"*)("<<base<<"+"<<off<<") = "<<val(ci)<<";\n"; return; }
  if(isa<ConstantFP>(c)){ o<<"  *("<<ctype(t)<<"*)("<<base<<"+"<<off<<") = "<<val(c)<<";\n"; return; }
  if(auto* cd=dyn_cast<ConstantDataSequential>(c)){ uint64_t es=DL->getTypeAllocSize(cd->getElementType()); for(unsigned i=0;i<cd->getNumElements();++i) initConst(o,base,off+i*es,cd->getElementAsConstant(i)); return; }
  if(auto* ca=dyn_cast<ConstantArray>(c)){ uint64_t es=DL->getTypeAllocSize(ca->getType()->getElementType()); for(unsigned i=0;i<ca->getNumOperands();++i) initConst(o,base,off+i*es,ca->getOperand(i)); return; }
  if(auto* cs=dyn_cast<ConstantStruct>(c)){ auto* sl=DL->getStructLayout(cs->getType()); for(unsigned i=0;i<cs->getNumOperands();++i) initConst(o,base,off+sl->getElementOffset(i),cs->getOperand(i)); return; }
  if(t->isPointerTy()){ if(isa<ConstantPointerNull>(c)) return; o<<"  *(uint8_t**)("<<base<<"+"<<off<<") = "<<val(c)<<";\n"; return; }
  err+="unsupported global initializer\n"; }

int main(int argc,char** argv){
  if(argc<3){ errs()<<"usage: ir2c in.ll out.c root1 [root2 ...] [--stub name ...]\n"; return 2; }
  LLVMContext C; SMDiagnostic D; auto M=parseIRFile(argv[1],D,C); if(!M){ D.print("ir2c",errs()); return 2; }
  DL=&M->getDataLayout();
  std::vector<std::string> roots; for(int i=3;i<argc;++i){ std::string a=argv[i]; if(a=="--stub"&&i+1<argc){ stubs.insert(argv[++i]); } else if(a=="--throw"&&i+1<argc){ throwstubs.insert(argv[++i]); } else if(a=="--rt"&&i+1<argc){ rtpath=argv[++i]; } else roots.push_back(a); }
  for(auto& F:*M) fnames[&F]= F.getName().startswith("llvm.")? "" : ((F.isDeclaration()? std::string("X_"):std::string(""))+cid(F.getName()));
  // reachability
  std::vector<const Function*> work; std::set<const Function*> seen;
  for(auto& r:roots){ auto* f=M->getFunction(r); if(!f){ errs()<<"root not found: "<<r<<"\n"; return 2;} work.push_back(f); seen.insert(f); }
  std::vector<const Function*> order;
  std::string body; raw_string_ostream bo(body);
  while(!work.empty()){ auto* f=work.back(); work.pop_back(); order.push_back(f);
    if(f->isDeclaration()||isStub(f->getName().str())) continue;
    size_t before=usedFuncs.size(); (void)before;
    std::set<const Function*> prev=usedFuncs; emitFunction(bo,f);
    for(auto* g: usedFuncs) if(!seen.count(g)&&!g->isIntrinsic()){ seen.insert(g); work.push_back(g); } }
  // globals (iterate since initializers may reference more globals/functions)
  std::string ginit; raw_string_ostream go(ginit); std::set<const GlobalVariable*> done;
  bool changed=true; while(changed){ changed=false; auto cur=usedGlobals; for(auto* g:cur) if(!done.count(g)){ done.insert(g); changed=true; if(g->hasInitializer()) initConst(go,gnames[g],0,g->getInitializer()); }
    for(auto* f: usedFuncs) if(!seen.count(f)&&!f->isIntrinsic()){ seen.insert(f); order.push_back(f); if(!f->isDeclaration()&&!isStub(f->getName().str())){ emitFunction(bo,f); changed=true; } } }
  std::error_code ec; raw_fd_ostream out(argv[2],ec); 
  out<<"/* generated by ir2c from "<<argv[1]<<" */\n#include \"ir2c_rt.h\"\n";
  for(auto& d:aggdefs) out<<d<<"\n";
  for(auto* g:done){ uint64_t sz= g->getValueType()->isSized()? DL->getTypeAllocSize(g->getValueType()):8; out<<"uint8_t "<<gnames[g]<<"["<<(sz?sz:1)<<"] __attribute__((aligned(16)));\n"; }
  names.clear();
  for(auto* f:order){ unsigned n=0; names.clear(); for(auto& a:f->args()) names[&a]="a"+std::to_string(n++); out<<proto(f)<<";\n"; }
  for(auto* f:order){ std::string nm=f->getName().str(); if(f->isIntrinsic()) continue; bool thr=matchpat(throwstubs,nm); bool st=matchpat(stubs,nm);
    if(!(thr||(st&&!f->isDeclaration()))) continue; unsigned n=0; names.clear(); for(auto& a:f->args()) names[&a]="a"+std::to_string(n++);
    out<<proto(f)<<" { "; if(thr) out<<"__ir2c_thrown = 1; "; if(!f->getReturnType()->isVoidTy()) out<<"return "<<zero(f->getReturnType())<<"; "; out<<"}\n"; }
  { // externs without a model in the runtime header: in native builds they get weak aborting bodies (CBMC: no body = nondet)
    std::set<std::string> modelled; if(!rtpath.empty()){ FILE* f=fopen(rtpath.c_str(),"r"); if(f){ std::string txt; char buf[4096]; size_t k; while((k=fread(buf,1,sizeof buf,f))>0) txt.append(buf,k); fclose(f);
      for(size_t i=0;i+2<txt.size();++i) if(txt[i]=='X'&&txt[i+1]=='_'&&(i==0||!(isalnum((unsigned char)txt[i-1])||txt[i-1]=='_'))){ size_t j=i; while(j<txt.size()&&(isalnum((unsigned char)txt[j])||txt[j]=='_')) ++j; if(j<txt.size()&&txt[j]=='(') modelled.insert(txt.substr(i,j-i)); } } }
    out<<"#ifndef __CPROVER__\n";
    for(auto* f:order){ if(!f->isDeclaration()||f->isIntrinsic()) continue; std::string nm=f->getName().str(); if(isStub(nm)) continue; if(modelled.count(fnames[f])) continue; if(f->isVarArg()) continue;
      unsigned n=0; names.clear(); for(auto& a:f->args()) names[&a]="a"+std::to_string(n++); out<<"__attribute__((weak)) "<<proto(f)<<" { abort(); }\n"; }
    out<<"#endif\n"; }
  out<<"void __ir2c_init_globals(void){\n"<<go.str()<<"}\n\n"<<bo.str();
  out.flush(); out.close();
  { std::string hp=std::string(argv[2]); hp=hp.substr(0,hp.size()-2)+".h"; std::error_code ec2; raw_fd_ostream hd(hp,ec2);
    hd<<"/* prototypes of the lifted entry points (ABI-compatible with the real extern \"C\" functions) */\n#include <stdint.h>\n";
    for(auto& r:roots){ auto* f=M->getFunction(r); unsigned n=0; names.clear(); for(auto& a:f->args()) names[&a]="a"+std::to_string(n++); hd<<proto(f)<<";\n"; } }
  errs()<<"ir2c: "<<order.size()<<" functions ("; unsigned defs=0; for(auto* f:order) if(!f->isDeclaration()&&!isStub(f->getName().str())) ++defs; errs()<<defs<<" translated), "<<done.size()<<" globals\n";
  for(auto* f:order) if(f->isDeclaration()||isStub(f->getName().str())) errs()<<"  extern/stub: "<<f->getName()<<"\n";
  if(!err.empty()){ errs()<<"ir2c ERRORS:\n"<<err; return 1; }
  return 0; }
