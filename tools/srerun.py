#!/usr/bin/env python3
"""dev helper: tools/srerun.py <harness name> <source.cpp[,more.cpp]> <config> [flags...]  - builds an SRE harness and runs one configuration"""
import os, sys, subprocess, json
VERIF = os.path.dirname(os.path.dirname(os.path.abspath(__file__)))
sys.path.insert(0, os.path.join(VERIF, "engine"))
import build
name, srcs, cfg = sys.argv[1], sys.argv[2].split(","), sys.argv[3]
flags = [a for a in sys.argv[4:] if a.startswith("-")]
envs = [a for a in sys.argv[4:] if not a.startswith("-")]
exe_s, exe_p, st = build.build_harness(name, [os.path.join(VERIF, "harness", "sre", s) for s in srcs] + [os.path.join(VERIF, "harness", "sre", "sre_support.cpp")], extra_flags=flags)
env = dict(os.environ, SYM_JOBS="16", SYM_DEADLINE_S="300", SYM_QUERY_S="10", SYM_OUT="/tmp/srerun.json", SYM_MAX_PATHS="20000")
for kv in envs:
    k, v = kv.split("=", 1)
    env[k] = v
for f in os.listdir("/tmp"):
    if f.startswith("srerun.json"):
        os.remove("/tmp/" + f)
p = subprocess.run([exe_s, cfg], env=env, capture_output=True, text=True)
sys.stdout.write(p.stdout[-2000:])
sys.stderr.write(p.stderr[-4000:])
r = json.load(open("/tmp/srerun.json"))
print({k: r.get(k) for k in ("paths", "pruned", "excluded", "violations", "inconclusive", "truncated", "crashed", "queries", "q_unknown", "obligations", "discharged", "obligations_unknown", "branch_unknown", "solver_s", "wall_s", "exhaustive")})
for l in r["labels"]:
    if l["checked"]:
        print("  ", l)
for f in sorted(os.listdir("/tmp")):
    if f.startswith("srerun.json.viol"):
        print(open("/tmp/" + f).read()[:1500])
        q = subprocess.run([exe_p, cfg], env=dict(env, SYM_REPLAY="/tmp/" + f), capture_output=True, text=True)
        print("PLAIN REPLAY:", q.stdout[-800:])
        break
