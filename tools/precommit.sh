#!/bin/bash
# sanity before every commit: registry imports, manifest regenerates and validates, check driver parses
set -e
cd $(dirname $0)/..
python3 -c "import sys; sys.path.insert(0,'engine'); import checks, build, lift; print('registry ok:', len(checks.PROPERTIES), 'properties')"
python3 -c "import ast; ast.parse(open('check').read()); print('check parses')"
python3 tools/gen_manifest.py > /dev/null
python3-vt tools/validate.py 2>&1 | tail -1
