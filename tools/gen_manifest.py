#!/usr/bin/env python3
"""Regenerates /verif/MANIFEST.json from engine/checks.py (claimed properties) and engine/checks.NOT_APPLICABLE."""
import json, os, sys
VERIF = os.path.dirname(os.path.dirname(os.path.abspath(__file__)))
sys.path.insert(0, os.path.join(VERIF, "engine"))
import checks

ids = ["C%02d" % i for i in range(1, 21)]
out = {
    "version": 1,
    "setup_cmd": "python3 engine/build.py",
    "hooks": {
        "guard": "NANO_VERIF",
        "enable": "every check compiles /repo's sources itself with clang++-14 -DNANO_VERIF (engine/build.py BASE_FLAGS); the cmake build of /repo is not used",
        "baseline_off_cmd": "cmake --build /repo/_build -j16 && ctest --test-dir /repo/_build -j8 --timeout 900",
        "source_commits": checks.HOOK_COMMITS,
        "add_only": True,
    },
    "engines": [
        {"name": "SRE", "path": "engine/sre", "serves_properties": sorted(p for p, s in checks.PROPERTIES.items() if any(u["engine"] == "sre" for u in s["units"])),
         "kind_free_text": "symbolic-real execution: LLVM-14 pass (symfp) rewrites every double operation of libnano + harness into runtime calls; symbolic reals are NaN-boxed handles to z3 terms; the real code runs natively, every fcmp on symbolic data is decided by z3 nlsat (fresh QF_NRA query) and forks the process when both sides are feasible; obligations are unsat-of-negation queries; counter-examples are replayed on the plain IEEE build"},
        {"name": "LIFT-C", "path": "engine/lift", "serves_properties": sorted(p for p, s in checks.PROPERTIES.items() if any(u["engine"] == "lift" for u in s["units"])),
         "kind_free_text": "clang-14 LLVM IR of the real functions -> C (ir2c, byte-addressed memory) -> CBMC 6.11 bounded model checking with unwinding assertions, witness twins and differential validation of the translation"},
        {"name": "SBV", "path": "engine/sbv", "serves_properties": sorted(p for p, s in checks.PROPERTIES.items() if any(u["engine"] == "sbv" for u in s["units"])),
         "kind_free_text": "symbolic bit-vector execution: own KLEE-style interpreter of the clang-14 -O1 bitcode of libnano + harness working on host memory (the same code is linked natively, libstdc++ runs natively on concrete data); integers/pointers/bytes are z3 bit-vector terms with a byte-level shadow memory; branches on symbolic data fork the process, symbolic pointers are merged over their feasible targets, obligations are unsat-of-negation QF_BV queries; counter-examples are replayed on the native build"},
    ],
    "checks": [],
    "not_applicable": [],
    "notes": "Technique family: solver-based checking of the real code (see DESIGN.md). ./check <id> --tier quick|thorough; VERIF_TIER and VERIF_SEED are honoured.",
}
for pid in ids:
    if pid in checks.PROPERTIES:
        s = checks.PROPERTIES[pid]
        out["checks"].append({
            "property_id": pid,
            "quick_cmd": "./check %s --tier quick" % pid,
            "thorough_cmd": "./check %s --tier thorough" % pid,
            "evidence_file": "evidence/%s.json" % pid,
            "replay_cmd_template": "./check %s --replay {path}" % pid,
            "engine": "+".join(sorted({{"sre": "SRE", "sbv": "SBV", "lift": "LIFT-C"}[u["engine"]] for u in s["units"]})),
            "level_claimed": {"category": s.get("level", "other"), "text": s["level_text"], "design_ref": "DESIGN.md section 3, " + pid},
            "level_note": s["level_note"],
            "technique": s["technique"],
        })
    else:
        out["not_applicable"].append({"property_id": pid, "reason": checks.NOT_APPLICABLE[pid]})
json.dump(out, open(os.path.join(VERIF, "MANIFEST.json"), "w"), indent=1)
print("claimed:", [c["property_id"] for c in out["checks"]])
