#!/bin/bash
# usage: tools/run_seeded.sh <seeded-id> [property-id ...]   e.g. tools/run_seeded.sh C15   or   tools/run_seeded.sh C12b C12
# Applies /verif/seeded/<seeded-id>/patch.diff in a scratch worktree of /repo (never in /repo itself), runs the quick check of
# the given properties (default: the property named in meta.json) against it with a separate cache and output root,
# prints the verdict lines and removes the worktree.
set -u
sid=$1; shift
V=$(cd $(dirname $0)/.. && pwd)
props="$@"
# <seeded-id> may also be a directory holding patch.diff (then the properties must be named)
if [ -d "$sid" ]; then SD=$(cd $sid && pwd); sid=$(basename $SD); else SD=$V/seeded/$sid; fi
if [ -z "$props" ]; then props=$(python3 -c "import json;print(json.load(open('$SD/meta.json'))['property'])"); fi
W=/tmp/seedwt_$sid; OUT=/tmp/seedout_$sid
git -C /repo worktree remove --force $W 2>/dev/null; rm -rf $W $OUT
git -C /repo worktree add -q --detach $W HEAD || exit 9
git -C $W apply $SD/patch.diff || { echo "PATCH-FAILED $sid"; git -C /repo worktree remove --force $W; exit 8; }
mkdir -p $OUT
# own cache (the library is rebuilt from the scratch worktree: ~50 s); only the tools are copied
C=/tmp/seedcache_$sid; rm -rf $C; mkdir -p $C; cp -a $V/.cache/tools $C/tools
for p in $props; do
  ( cd $V && VERIF_REPO=$W VERIF_CACHE=$C VERIF_OUT=$OUT timeout 3000 ./check $p --tier ${TIER:-quick} 2>&1 | grep -E "^(VIOLATION|KNOWN-FINDING|UNCONFIRMED|INTERNAL|$p tier)|label=" | cut -c1-300 | sed "s/^/[$sid->$p] /" )
done
git -C /repo worktree remove --force $W; rm -rf $C $OUT
