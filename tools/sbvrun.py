#!/usr/bin/env python3
"""dev helper: tools/sbvrun.py <harness.cpp> <config> [env K=V ...]  - builds the SBV harness and runs one configuration"""
import os, sys, subprocess, json
VERIF = os.path.dirname(os.path.dirname(os.path.abspath(__file__)))
sys.path.insert(0, os.path.join(VERIF, "engine"))
import build
srcs = sys.argv[1].split(",")
cfg = sys.argv[2]
name = os.path.basename(srcs[0])[:-4]
flags = [a for a in sys.argv[3:] if a.startswith("-")]
exe_s, exe_n, mods, st = build.build_sbv_harness(name, [os.path.join(VERIF, "harness", "sbv", s) for s in srcs], extra_flags=flags)
env = dict(os.environ, SBV_MODULES=mods, SYM_JOBS="16", SYM_DEADLINE_S="300", SYM_QUERY_S="20", SYM_OUT="/tmp/sbvrun.json")
for kv in [a for a in sys.argv[3:] if not a.startswith("-")]:
    k, v = kv.split("=", 1)
    env[k] = v
for f in os.listdir("/tmp"):
    if f.startswith("sbvrun.json"):
        os.remove("/tmp/" + f)
p = subprocess.run([exe_s, cfg], env=env, capture_output=True, text=True)
sys.stdout.write(p.stdout[-3000:])
sys.stderr.write(p.stderr[-6000:])
if "SYM_RANDOM_SEED" in env:
    q = subprocess.run([exe_n, cfg], env=env, capture_output=True, text=True)
    print("NATIVE:\n" + q.stdout[-2000:])
    sys.exit(0)
r = json.load(open("/tmp/sbvrun.json"))
print({k: r[k] for k in ("paths", "pruned", "violations", "inconclusive", "truncated", "crashed", "queries", "q_unknown", "obligations", "discharged", "obligations_unknown", "instructions_interpreted", "native_calls", "solver_s", "wall_s", "exhaustive")})
for l in r["labels"]:
    if l["checked"]:
        print("  ", l)
for f in sorted(os.listdir("/tmp")):
    if f.startswith("sbvrun.json.viol"):
        print(open("/tmp/" + f).read()[:1500])
        q = subprocess.run([exe_n, cfg], env=dict(env, SYM_REPLAY="/tmp/" + f), capture_output=True, text=True)
        print("NATIVE REPLAY:", q.stdout[-500:])
        break
