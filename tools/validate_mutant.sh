#!/bin/bash
# usage: validate_mutant.sh <id> <dir with patch.diff demo.cpp>   (uses the full scratch build in /tmp/scratch_full)
# 1. demo on the unmodified tree must pass; 2. patch applies, builds, whole ctest suite passes; 3. demo with the patch must fail
set -u
id=$1; dir=$2; W=/tmp/scratch_full; log=/tmp/mutval_$id.log
exec > $log 2>&1
cd $W || exit 9
git checkout -q -- . ; git status --short | grep -v _build | head
LIBS="-Wl,--start-group $(ls $W/_build/src/lib*.a | tr '\n' ' ') -Wl,--end-group -lpthread"
build_demo(){ g++ -std=c++17 -O1 -DNANO_HAS_FROM_CHARS_FLOAT -I$W/include -I$W/_build -I$W/src -I/usr/include/eigen3 $dir/demo.cpp -o /tmp/mutdemo_$id $LIBS; }
echo "== baseline build"; ninja -C _build -j8 | tail -1
echo "== demo without patch"; build_demo && /tmp/mutdemo_$id | tail -3; echo "demo_without_exit=$?"
echo "== apply patch"; git apply $dir/patch.diff || { echo "PATCH-FAILED"; exit 8; }
git diff --stat
echo "== build with patch"; ninja -C _build -j8 | tail -1; echo "build_exit=${PIPESTATUS[0]}"
echo "== ctest with patch"; ctest --test-dir _build -j8 --timeout 900 2>&1 | tail -6
echo "== demo with patch"; build_demo && /tmp/mutdemo_$id | tail -3; echo "demo_with_exit=${PIPESTATUS[0]}"
git checkout -q -- .
echo "== restore build"; ninja -C _build -j8 | tail -1
rm -f /tmp/mutdemo_$id
echo FINISHED
